"""C13 — VPK archives return exactly what was last written, across reopen."""
from __future__ import annotations

import os
import posixpath
import random
import re
import shutil
import tempfile
import zlib

from harness.common import Ck, coq_bytes, coq_list, coq_str, parse_coq_N_list
from translate import c13_api, c13_archname, c13_dirprog, c13_names, c13_nested, c13_nullstr, c13_vpk

MANIFEST = dict(
    technique='Rocq proof: whole-history refinement of the executable VPK state machine to a plain map (invariant + induction over the '
              'operation list, every placement/dir_limit/size, CRC as a Section function with an explicit no-collision premise); directory-tree '
              'codec round trip (versions 1 and 2); archive file naming (writer and readers use the same file, symbolic evaluation of the '
              'translated prefix expressions); name forms; read-only rejection + ast translators (format constants, placement/validation sites, '
              'prefix expression of every get_arch_filename site, the split statement of _get_file_parts; round 3: the NUL-terminated string '
              'codec by symbolic execution of _write_nullstring and loop-shape classification of iter_nullstr, the clean-up program of '
              '__delitem__, new_file executed symbolically on a small heap, FileInfo.write/read/verify executed on symbolic values into decision tables '
              '(24 placement rows, 4 read rows) that are judged in Coq against write_info/read_info, the truth table of __exit__, OpenModes.writable, '
              'writability guards, _check_arch_index and the name validation executed on probe values, '
              'load_dirfile reset, listing walks; round 4: the statement structure of write_dirfile and load_dirfile compiled into programs with '
              'interpreters (file buffer with a cursor / byte stream) proved equal to the codec on all inputs, _join_file_parts executed on symbolic '
              'strings into a table, _get_file_parts executed for the three name forms into a description, the placement and read tables given a '
              'meaning of their own, one composed statement c13_property with its hypotheses as a single boolean on the generated objects) '
              'with kernel-checked instance obligations + vm_compute correspondence (histories on real '
              'directories byte-exact incl. with-blocks and load_dirfile() on the same object, independent decode incl. version 2 and damaged '
              'files, archive names really opened, name forms, NUL-terminated streams, nested dicts) + oracle search with a strict independent '
              'decoder',
    text='Theorems in Props/C13.v. c13_vpk_refines_map: for every configuration that validates indexes and names, every finite sequence of '
         'new_file/add_file/FileInfo.write/del/write_dirfile/reopen(r,w,a) on a fresh archive whose write_dirfile calls do not overflow a 32-bit '
         'field and whose data values (with the empty string) do not collide under the checksum: the model SM/Vpk.v returns the result code of '
         'the specification map at every operation and afterwards is in the same mode, lists exactly the map\'s names, and every file reads '
         'back the map\'s bytes and verifies; c13_history_save_reopen: the same at the property\'s observation point (any history, '
         'write_dirfile, reopen r/a). Ingredients kept as theorems: load_dirfile(write_dirfile(tree, footer)) returns the same entries and '
         'footer for every format instance with in-range constants (version 1; version 2 with the four extra header fields skipped, read side '
         'only); grouping/sorting for writing is a permutation; one write reads back for every placement; save+reopen preserves every entry; '
         'read-only archives reject every mutation. Archive naming: for every file name ending in the directory suffix and every index the '
         'file FileInfo.write appends to is the file read/verify open (= get_arch_filename(prefix, index)), get_arch_filename(prefix) is the '
         'directory file, distinct indexes are distinct files and none is the directory file; character stripping (rstrip) is refuted by a '
         'computed witness. Name forms: string, 2-tuple and 3-tuple agree for every normpath whenever the translated split statement cuts at '
         'the last dot (first-dot split refuted). All generic theorems are instantiated by kernel-checked obligations on Gen/VpkPlace_gen.v and '
         'Gen/VpkArchName_gen.v regenerated from vpk.py on every run. Round 3: c13_api_refines_map / c13_with_block_saves extend the whole-history '
         'statement to with-blocks (left normally or by an exception, over the translated truth table of __exit__) and to load_dirfile() called '
         'again on the same object; the NUL-terminated string codec of the tree is a translated description and every accepted reader shape (one '
         'byte at a time, or blocks of any size in a loop) reads back every NUL-free string of any length (a single-block reader is refuted for '
         'every block size); the nested dicts _fileinfo[ext][folder][name] satisfy the three finite-map laws for lookup (__getitem__), insertion '
         '(new_file, over the translated get-or-create steps) and deletion (__delitem__, over the translated clean-up program, which is also the '
         'flat delete of the state machine) for every tree without a well-formedness assumption; for dicts without duplicate keys (an invariant of '
         'new_file/__delitem__) what __iter__ walks is exactly the table of the state machine after the same operations; the placement decision '
         'functions want_cut/want_dest/want_src against which the symbolic tables of FileInfo.write/read/verify are checked are write_info / '
         'read_info / verify_info of the model for all inputs; wrong variants are refuted by computed witnesses. Round 4: '
         'c13_write_dirfile_program_is_encoder / c13_load_dirfile_program_is_decoder: the statements of write_dirfile / load_dirfile as read from '
         'the source (header, mark, three nested loops over sorted dicts skipping empty ones, string / entry / preload, one NUL after each level, tree '
         'length measured before footer_data and patched in at offset 8; header checks, version-2 fields skipped, the two sentinel rewrites, '
         'terminator check, preload read, early exit, footer) run by an interpreter give exactly enc_file / dec_file_v for every accepted program and '
         'every input, and the reader inverts the writer (c13_dirfile_programs_roundtrip); c13_write_table_is_write_info / '
         'c13_read_table_is_read_info: FileInfo.write / read / verify run from the translated tables are write_info / read_info / verify_info; '
         'c13_join_table_is_model, c13_get_parts_description_is_model, c13_listed_name_resolves, c13_generated_listed_name_resolves, '
         'c13_join_of_parts: both name helpers as generated objects, _get_file_parts o _join_file_parts = id on listable keys and '
         '_join_file_parts o _get_file_parts = id on names in listed form, with the trailing-dot class carved out exactly (refuted by witness); '
         'c13_property: all parts in one statement under the single hypothesis c13_hyps (a boolean on the fourteen generated objects, '
         'discharged for today\'s source on every run); c13_generated_machine_step / _history: the state machine assembled from the generated '
         'objects (write from the placement table, write_dirfile / reopen as the translated programs) answers as the hand-written machine '
         'whenever it answers, so the history theorem holds for it; the machine correspondence runs plain histories through it. Round 5: '
         'FileInfo.write is also executed in its rejection scenarios (read-only archive / index out of range / both, for every combination of '
         'the deciding facts): which validation raised and which stores had been executed by then is a generated rejection table; '
         'write_guarded_t runs the method, validations included, from the placement and rejection tables (a rejected call keeps exactly the '
         'stores the table lists), and for every table accepted by rej_table_ok (every validation that can reject raises before the first '
         'store, the mode before the index, a singular VPK ignores the index) it is the OWrite case of the state machine on all inputs '
         '(c13_guarded_write_is_model, c13_write_step_is_generated_tables, c13_rejected_write_stores_nothing); the table with the index '
         'validated after the checksum is stored is refuted for every checksum function, archive, entry and data (the entry keeps the new '
         'checksum on the old bytes, verify() is false, a retry with a valid index stores nothing: c13_late_index_check_refuted). The split '
         'statement may be os.path.splitext (SplitExt, meaning = posixpath.splitext), which is not accepted and refuted by the dot-file witness '
         '(c13_name_forms_splitext_refuted); a block reader whose inner loop rewinds relative to the first block (RBlockLoopRel) has a meaning and is '
         'refuted at 128 characters (c13_nullstr_block_rel_refuted). filenames / fileinfos executed with their extension / folder arguments given or defaulted give '
         'walk descriptions whose meaning list_walk is, for dicts without duplicate keys, exactly the entries of the default walk with that '
         'extension whose folder name starts with the argument, in order (c13_listing_with_arguments_is_filter); extract_all is the full walk '
         'writing each entry under its listed name with the bytes of read() (c13_extract_all_writes_every_file). c13_property_r5 collects the '
         'hypotheses of c13_property and these three generated objects in one boolean c13_hyps_r5.',
    note='The model SM/Vpk.v (step/run), the codec Fmt/VpkDir.v/VpkDirV2.v, Fmt/VpkName.v and the string primitives of Fmt/VpkArchName.v are '
         'hand-written and tied to srctools.vpk by differential runs on every run (not by proof): histories on real temp directories compared '
         'byte-exactly, decode of written/damaged/version-2 files, the archive files really opened by the three get_arch_filename sites, name '
         'forms, NUL-terminated streams, new_file/del sequences on the nested dicts. Trusted: Coq kernel + vm_compute (incl. Uint63 for the test '
         'CRC-32), translate/c13_vpk.py, c13_archname.py, c13_nullstr.py, c13_nested.py, c13_api.py, c13_place.py, c13_names.py, c13_dirprog.py (symbolic executors), '
         'zlib.crc32 (a Section variable in the theorems; its chaining crc32(b, crc32(a)) = crc32(a+b) is assumed), posixpath.normpath (a '
         'parameter of the name theorems), OS append/seek semantics (archives modelled as append-only byte lists; the "ab" open mode and '
         'seek(0, SEEK_END) are a translated site). Premises that are real limits of the code: a write whose CRC-32 equals the stored one is '
         'skipped (collision premise); fields >= 4 GiB make write_dirfile raise. Only searched (not modelled): add_folder, the disk side of '
         'extract_all (directories created, paths joined), folders(ext=), FileInfo.size, the root= argument, script_write. Outside: writing '
         'version 2, VPKFileSystem, stale FileInfo handles, other processes, archive files present before the history, a load_dirfile() on the '
         'same object that fails half-way (it leaves the entries read so far and an empty footer_data; the model gives None). File names whose last component ends in "." are listed without the dot (known finding name-trailing-dot).',
)

IMPORTS = ['Coq.Lists.List', 'Coq.NArith.NArith', 'SV.Fmt.VpkDir', 'SV.SM.Vpk', 'SV.Fmt.VpkArchName', 'SV.SM.VpkCorr', 'SV.Gen.VpkPlace_gen',
           'SV.Gen.VpkArchName_gen', 'SV.Fmt.VpkNullStr', 'SV.Gen.VpkNullStr_gen', 'SV.SM.VpkNested', 'SV.Gen.VpkNested_gen', 'SV.SM.VpkApi', 'SV.Gen.VpkApi_gen', 'SV.SM.VpkNestedMap', 'SV.SM.VpkPlace', 'SV.Fmt.VpkNameJoin', 'SV.Gen.VpkNames_gen', 'SV.Fmt.VpkDirProg', 'SV.Fmt.VpkDirRead', 'SV.Gen.VpkDirProg_gen', 'SV.SM.VpkPlaceTable', 'SV.SM.VpkGenMachine', 'SV.SM.VpkWriteOrder', 'SV.SM.VpkListing']
PRE = 'Import ListNotations. Open Scope N_scope.\n'

R_OK, R_RO, R_EXISTS, R_MISSING, R_BADNAME, R_BADIDX, R_BADDIR, R_EXC = 0, 1, 2, 3, 4, 5, 6, 9
DIR_INDEX = 0x7fff
MAXPRE = 0xffff


# ------------------------------------------------------------------------------------------------ data, names
_DATA: dict = {}


def gen_data(s: int, n: int) -> bytes:
    """Deterministic data, same formula as rocq/SM/VpkCorr.v [gen]."""
    k = (s, n)
    if k not in _DATA:
        if len(_DATA) > 400:
            _DATA.clear()
        _DATA[k] = bytes((s * 31 + i * 7 + (i // 256) * 13 + s * i) % 251 for i in range(n))
    return _DATA[k]


def split_path(s: str) -> tuple[str, str]:
    i = s.rfind('/') + 1
    head, tail = s[:i], s[i:]
    if head and head != '/' * len(head):
        head = head.rstrip('/')
    return head, tail


def ref_parts(form) -> tuple[str, str, str]:
    """Reference name resolution (the documented behaviour of _get_file_parts) -> (folder, name, ext)."""
    if isinstance(form, str):
        path, fn = split_path(form)
        ext = ''
    elif len(form) == 2:
        path, fn = form
        ext = ''
    else:
        path, fn, ext = form
    if not ext and '.' in fn:
        fn, ext = fn.rsplit('.', 1)
    path = posixpath.normpath(path.replace('\\', '/')).replace('\\', '/').rstrip('/')
    if path == '.':
        path = ''
    return path, fn, ext


def make_form(s: str, kind: str):
    if kind == 's':
        return s
    head, tail = split_path(s)
    if kind == '2':
        return (head, tail)
    if '.' in tail:
        n, e = tail.rsplit('.', 1)
    else:
        n, e = tail, ''
    return (head, n, e)


def join_parts(p: str, n: str, e: str) -> str:
    return f"{p}{'/' if p else ''}{n}{'.' if e else ''}{e}"


def enc(s: str) -> bytes:
    return s.encode('ascii', 'surrogateescape')


def mkey(parts: tuple[str, str, str]) -> tuple[bytes, bytes, bytes]:
    """model key: (ext, folder, name) as bytes"""
    p, n, e = parts
    return (enc(e), enc(p), enc(n))


def name_bad(parts) -> bool:
    return any('\x00' in x or x == ' ' for x in parts)


def is_ascii(parts) -> bool:
    return all(ord(c) < 0x80 or 0xDC80 <= ord(c) <= 0xDCFF for x in parts for c in x)


NAME_POOL = ['a/b.txt', 'b.txt', 'a/b', 'b', '.txt', 'a/.txt', '', 'x/y/z.e', 'a/b.c.d', 'a/c.txt', 'A/b.txt', 'a b/c d.e f',
             'a/b/', 'q/../a/./b.txt', '/a/b.txt', 'a\\b/c.t', 'a/b\\c.t', 'x/y.e', 'x/yy.e', 'xx/y.e', 'x/y.ee', '~/_.-',
             'a/\udc80\udcff.\udc90', 'mat/tex.vtf', 'mat/tex.vmt', 'a//b.txt', './b.txt', 'a/ b.txt', 'a/b .txt', ' a/b.txt']
BAD_NAMES = ['a/b\x00c.txt', ' /b.txt', 'a/ .txt', 'a/b. ', '\x00', 'a\x00/b.txt', 'a/b.\x00']
NONASCII = ['a/é.txt', 'ü/b.txt', 'a/b.中', 'a/\ud800.txt']
TRAILING_DOT = ['a/b.c.', 'b.', 'a/b..', 'x/y.z.w.']
ALPH = 'ab./ A\\~'

# Tree strings of boundary lengths. The directory tree stores the folder path, the file stem and the extension each as one
# NUL-terminated string of unbounded length; a reader that works on fixed-size blocks (seeded fault c13_4: 256 bytes) cannot read
# back what the writer accepts. Every position gets lengths around the powers of two a block reader would use, and 1000/5000.
LONG_LENGTHS = [127, 128, 129, 255, 256, 257, 511, 512, 513, 1000, 1023, 1024, 1025, 4096, 5000]
LONG_POSITIONS = ['folder', 'nested', 'stem', 'ext']


def long_name(pos: str, n: int) -> str:
    """A file name whose tree string at position `pos` has exactly `n` characters."""
    if pos == 'folder':
        return 'F' * n + '/b.txt'
    if pos == 'nested':     # one stored string: 'sub_00/sub_01/...'
        path = '/'.join(f'sub_{i:02}' for i in range(n // 7 + 2))[:n]
        if path.endswith('/'):
            path = path[:-1] + 'x'
        return path + '/b.txt'
    if pos == 'stem':
        return 'a/' + 's' * n + '.txt'
    return 'a/b.' + 'e' * n


LONG_NAMES = [long_name(p, n) for p in LONG_POSITIONS for n in LONG_LENGTHS]


def longest_part(name: str) -> int:
    return max(len(x) for x in ref_parts(name))


def bud(ck: Ck, quick: int, mid: int, thorough: int) -> int:
    """Case budget: quick tier; quick tier after a tie broke (escalated, but kept within the quick wall-time limit); thorough tier."""
    return thorough if ck.thorough else (mid if ck.tie_broken else quick)


def rand_name(rng: random.Random) -> str:
    r = rng.random()
    if r < 0.70:
        return rng.choice(NAME_POOL)
    if r < 0.75:
        return long_name(rng.choice(LONG_POSITIONS), rng.choice(LONG_LENGTHS) if rng.random() < 0.8 else rng.randrange(100, 1200))
    s = ''.join(rng.choice(ALPH) for _ in range(rng.choice([1, 2, 3, 4, 6])))
    _, tail = split_path(s)
    if tail.endswith('.'):        # trailing-dot names are a separate (known) class with its own stream
        s += 'x'
    return s


SIZES = [0, 0, 1, 2, 3, 4, 5, 7, 8, 9, 15, 16, 17, 63, 64, 65, 100, 1023, 1024, 1025, 3000]
BIG_SIZES = [65534, 65535, 65536, 65537, 70000, 131077, 300000]
LIMITS = [None, 0, 1, 4, 8, 64, 1024, 1024, 70000]


def rand_size(rng: random.Random, limit, big: bool) -> int:
    r = rng.random()
    if big and r < 0.5:
        return rng.choice(BIG_SIZES)
    if limit is not None and r < 0.75:
        return max(0, limit + rng.choice([-2, -1, 0, 1, 2, 5]))
    return rng.choice(SIZES)


# Archive base names (the file is <base>_dir.vpk or <base>.vpk; numbered archives are <base>_NNN.vpk). 'pak' is the default when
# a case does not name one. The others end in characters of the '_dir'/'.vpk' suffixes or contain them, so that a prefix derived
# by character stripping instead of suffix removal (seeded fault c13_1) sends reads to another archive file than writes.
BASES = ['pak', 'world', 'sound', 'pak01', 'did', 'r', 'a_dir', 'x.vpk', 'mod_', 'Dir', 'vpk']


def case_fname(cfg: dict) -> str:
    """The archive's own file name: <base>_dir.vpk for a directory VPK, <base>.vpk for a singular one."""
    return cfg.get('base', 'pak') + ('_dir.vpk' if cfg['dir'] else '.vpk')


def gen_case(rng: random.Random, big: bool = False, nops: int | None = None, small: bool = False, api: bool = True) -> dict:
    cfg = {'dir': rng.random() < 0.75, 'limit': rng.choice(LIMITS)}
    if rng.random() < 0.5:      # the archive's own file name: prefixes that end in characters of '_dir', contain '_dir' or '.vpk'
        cfg['base'] = rng.choice(BASES)
        if case_fname(cfg).endswith('_dir.vpk'):      # 'a_dir' + '.vpk' is a directory VPK whatever was drawn
            cfg['dir'] = True
    if big:
        cfg['limit'] = rng.choice([None, 0, 1024, 70000, 65535])
    if small:       # for in-Coq evaluation: sizes stay around small limits
        cfg['limit'] = rng.choice([None, 0, 1, 4, 8, 64, 64, 1024])
    n = nops if nops is not None else (rng.choice([2, 3, 4]) if big else rng.choice([3, 5, 8, 12, 18]))
    ops: list[tuple] = []
    used: list[str] = []
    for _ in range(n):
        r = rng.random()
        name = rng.choice(used) if used and rng.random() < 0.6 else rand_name(rng)
        form = rng.choice('s23')
        idx = rng.choice([0, 0, 0, None, None, 1, 2, 7, 999, 32766])
        if rng.random() < 0.03:
            idx = rng.choice([32767, 32768, 65535, 65536, 100000])
        data = (rng.choice([0, 1, 2, 3]), rand_size(rng, cfg['limit'], big))
        if small and data[1] > 130 and rng.random() < 0.85:
            data = (data[0], data[1] % 131)
        if r < 0.34:
            ops.append(('add', name, form, data, idx)); used.append(name)
        elif r < 0.50:
            ops.append(('write', name, form, data, idx))
        elif r < 0.57:
            ops.append(('new', name, form)); used.append(name)
        elif r < 0.68:
            ops.append(('del', name, form))
        elif r < (0.76 if api else 0.82):
            ops.append(('save',))
        elif r < 0.79:       # leaving a `with vpk:` block, normally (saves when writable) or by an exception (must not save)
            ops.append(('exit', rng.random() < 0.7))
        elif r < 0.82:       # load_dirfile() on the same object: a reopen in the same mode
            ops.append(('reload',))
        elif r < 0.85:
            ops.append(('add', rng.choice(BAD_NAMES), rng.choice('s2'), data, idx))
        else:
            ops.append(('reopen', rng.choice('rwaaa' if ops and ops[-1] == ('save',) else 'rwa')))
    # the property's observation point: write the directory, reopen
    ops.append(('exit', True) if api and rng.random() < 0.15 else ('save',))
    ops.append(('reopen', rng.choice('ra')))
    return {'cfg': cfg, 'ops': ops}


# ------------------------------------------------------------------------------------------------ reference spec
def placement(cfg, n: int, idx) -> str:
    if not cfg['dir']:
        return 'single-file' if n <= MAXPRE else 'single-file-over-64k'
    lim = cfg['limit']
    if lim is None:
        return 'limit-none' if n <= MAXPRE else 'limit-none-over-64k'
    if n <= min(lim, MAXPRE):
        return 'preload-only'
    if lim > MAXPRE:
        return 'limit-over-64k-dir-tail' if idx is None else 'limit-over-64k-archive'
    return 'dir-tail' if idx is None else 'archive'


def run_spec(case: dict) -> list[dict]:
    """The specification: a dict from resolved name to bytes; returns per-op expected code and map."""
    cfg = case['cfg']
    cur: dict = {}
    place: dict = {}
    saved = None
    mode = 'w'
    out = []
    for op in case['ops']:
        k = op[0]
        code = R_OK
        if k in ('new', 'add', 'write', 'del'):
            parts = ref_parts(make_form(op[1], op[2]))
            idx = op[4] if k in ('add', 'write') else None
            bad_idx = cfg['dir'] and idx is not None and not (0 <= idx < DIR_INDEX)
            bad_nm = name_bad(parts) or not is_ascii(parts)
            if k == 'new':
                code = R_RO if mode == 'r' else R_BADNAME if bad_nm else R_EXISTS if parts in cur else R_OK
                if code == R_OK:
                    cur[parts] = b''; place[parts] = 'empty'
            elif k == 'add':
                code = R_RO if mode == 'r' else R_BADIDX if bad_idx else R_BADNAME if bad_nm else R_EXISTS if parts in cur else R_OK
                if code == R_OK:
                    cur[parts] = gen_data(*op[3]); place[parts] = placement(cfg, op[3][1], idx)
            elif k == 'write':
                code = R_MISSING if parts not in cur else R_RO if mode == 'r' else R_BADIDX if bad_idx else R_OK
                if code == R_OK:
                    if cur[parts] != gen_data(*op[3]):
                        place[parts] = placement(cfg, op[3][1], idx)
                    cur[parts] = gen_data(*op[3])
            else:
                code = R_RO if mode == 'r' else R_MISSING if parts not in cur else R_OK
                if code == R_OK:
                    del cur[parts]
        elif k == 'save':
            code = R_RO if mode == 'r' else R_OK
            if code == R_OK:
                saved = (dict(cur), dict(place))
        elif k == 'exit':        # VPK.__exit__: never an error; saves exactly when no exception is in flight and the mode is writable
            if op[1] and mode != 'r':
                saved = (dict(cur), dict(place))
        elif k in ('reopen', 'reload'):
            to = op[1] if k == 'reopen' else mode
            if to == 'w':
                cur, place, saved, mode = {}, {}, None, 'w'
            elif saved is None:
                code = R_BADDIR
            else:
                cur, place, mode = dict(saved[0]), dict(saved[1]), to
        out.append({'code': code, 'map': dict(cur), 'place': dict(place)})
    return out


# ------------------------------------------------------------------------------------------------ implementation
def dg(b: bytes) -> tuple[int, int]:
    return (len(b), zlib.crc32(b))


def observe(vpk) -> dict:
    obs = {}
    for info in vpk:
        try:
            d = info.read()
            v = bool(info.verify())
        except Exception as e:      # noqa
            d, v = f'EXC {type(e).__name__}'.encode(), False
        obs[(info.dir, info._filename, info.ext)] = (dg(d), v)
    return obs


def classify_exc(e: Exception) -> int:
    m = str(e)
    if isinstance(e, FileExistsError):
        return R_EXISTS
    if isinstance(e, KeyError):
        return R_MISSING
    if isinstance(e, ValueError):
        if 'does not allow writing' in m:
            return R_RO
        if 'archive index' in m:
            return R_BADIDX
        if 'cannot be stored' in m or 'must be ASCII' in m:
            return R_BADNAME
    return R_EXC


class _Boom(Exception):
    pass


class ImplTimeout(BaseException):
    """A call into srctools.vpk did not return within the deadline (a fault that makes a loop spin). Derived from BaseException so that
    the `except Exception` clauses that classify the implementation's own errors do not swallow it; turned into a failing input."""


IMPL_DEADLINE_S = 60        # one history normally takes milliseconds (the largest, 300 000-byte files, well under a second)


class impl_deadline:
    """`with impl_deadline():` raises ImplTimeout in the main thread when the block runs longer than IMPL_DEADLINE_S (SIGALRM)."""

    def __init__(self, seconds: int = IMPL_DEADLINE_S):
        self.seconds = seconds

    def __enter__(self):
        import signal
        import threading
        self.active = threading.current_thread() is threading.main_thread() and hasattr(signal, 'SIGALRM')
        if self.active:
            def on_alarm(signum, frame):
                raise ImplTimeout(f'no answer from srctools.vpk within {self.seconds}s')
            import time
            self.t0 = time.monotonic()
            self.old = signal.signal(signal.SIGALRM, on_alarm)
            self.outer = signal.alarm(self.seconds)       # seconds left on an enclosing deadline (0 = none)
        return self

    def __exit__(self, *exc):
        if self.active:
            import signal
            import time
            signal.alarm(0)
            signal.signal(signal.SIGALRM, self.old)
            if self.outer:
                signal.alarm(max(1, self.outer - int(time.monotonic() - self.t0)))
        return False


def run_impl(case: dict, want_files: bool = False) -> dict:
    """Run a history on the real implementation in a fresh directory (under a deadline: ImplTimeout)."""
    with impl_deadline():
        return _run_impl(case, want_files)


def _run_impl(case: dict, want_files: bool = False) -> dict:
    from srctools.vpk import VPK
    cfg = case['cfg']
    d = tempfile.mkdtemp(prefix='c13_', dir=os.environ.get('VERIF_SCRATCH', '/var/tmp'))
    base = cfg.get('base', 'pak')
    fname = case_fname(cfg)
    path = os.path.join(d, fname)
    steps = []
    try:
        vpk = VPK(path, mode='w', dir_data_limit=cfg['limit'])
        for op in case['ops']:
            k = op[0]
            code, err = R_OK, None
            try:
                if k == 'new':
                    vpk.new_file(make_form(op[1], op[2]))
                elif k == 'add':
                    vpk.add_file(make_form(op[1], op[2]), gen_data(*op[3]), arch_index=op[4])
                elif k == 'write':
                    vpk[make_form(op[1], op[2])].write(gen_data(*op[3]), op[4])
                elif k == 'del':
                    del vpk[make_form(op[1], op[2])]
                elif k == 'save':
                    vpk.write_dirfile()
                elif k == 'exit':
                    if op[1]:
                        with vpk:
                            pass
                    else:
                        try:
                            with vpk:
                                raise _Boom()
                        except _Boom:
                            pass
                        else:
                            code, err = R_EXC, 'VPK.__exit__ swallowed the exception raised inside the with block'
                elif k == 'reload':
                    vpk.load_dirfile()
                elif k == 'reopen':
                    try:
                        vpk = VPK(path, mode=op[1], dir_data_limit=cfg['limit'])
                    except Exception as e:      # noqa
                        code, err = R_BADDIR, f'{type(e).__name__}: {e}'
            except Exception as e:      # noqa
                code = classify_exc(e)
                err = f'{type(e).__name__}: {str(e)[:200]}'
            steps.append({'code': code, 'err': err, 'obs': observe(vpk)})
        res = {'steps': steps, 'vpk': vpk, 'dir': d, 'path': path}
        with open(path, 'rb') as f:
            res['disk'] = f.read()
        ars = {}
        for fn in os.listdir(d):
            m = re.fullmatch(re.escape(base) + r'_(-?\d+)\.vpk', fn)
            if m:
                with open(os.path.join(d, fn), 'rb') as f:
                    ars[int(m.group(1))] = f.read()
            elif fn != fname:
                ars[fn] = b''
        res['archs'] = ars
        # name forms / listing on the final object
        res['names'] = sorted(vpk.filenames())
        forms = {}
        for info in list(vpk):
            full = join_parts(info.dir, info._filename, info.ext)
            forms[(info.dir, info._filename, info.ext)] = _forms_resolve(vpk, info, full)
        res['forms'] = forms
        res['len'] = len(vpk)
        try:
            res['verify_all'] = bool(vpk.verify_all())
        except Exception:      # noqa
            res['verify_all'] = False
        res['entries'] = {(i.dir, i._filename, i.ext): (i.crc, dg(i.start_data), i.arch_index, i.offset, i.arch_len) for i in vpk}
        res['footer'] = dg(vpk.footer_data)
        return res
    finally:
        if not want_files:
            shutil.rmtree(d, ignore_errors=True)


def _forms_resolve(vpk, info, full: str) -> bool:
    try:
        return all((f in vpk) and (vpk[f] is info) for f in (make_form(full, 's'), make_form(full, '2'), make_form(full, '3')))
    except Exception:      # noqa
        return False


def listing_api_problem(vpk, fin: dict) -> tuple[str, str] | None:
    """The other listing methods on the final object against the specification map `fin` ((dir, name, ext) -> bytes):
    fileinfos(), folders(), filenames(ext=)/(folder=), fileinfos(ext=)/(folder=), folders(ext=), FileInfo.size.  The folder
    argument is a string prefix of the stored folder path (that is what the code documents and does)."""
    keys = sorted(fin)
    full = {k: join_parts(*k) for k in keys}
    exts = sorted({k[2] for k in keys}) + ['zz']
    dirs = sorted({k[0] for k in keys})
    prefixes = sorted({d[:j] for d in dirs for j in (1, len(d)) if d and len(d) < 200} | {'', 'zz'})
    checks = [
        ('fileinfos()', lambda: sorted(i.filename for i in vpk.fileinfos()), sorted(full.values())),
        ('folders()', lambda: sorted(vpk.folders()), dirs),
        ('FileInfo.size', lambda: sorted((i.filename, i.size) for i in vpk), sorted((full[k], len(fin[k])) for k in keys)),
    ]
    for e in exts:
        sel = sorted(full[k] for k in keys if k[2] == e)
        checks.append(('fileinfos(ext)', lambda e=e: sorted(i.filename for i in vpk.fileinfos(ext=e)), sel))
        checks.append(('folders(ext)', lambda e=e: sorted(vpk.folders(ext=e)), sorted({k[0] for k in keys if k[2] == e})))
        if e:       # filenames(ext='') means every extension
            checks.append(('filenames(ext)', lambda e=e: sorted(vpk.filenames(ext=e)), sel))
    for pre in prefixes:
        sel = sorted(full[k] for k in keys if k[0].startswith(pre))
        checks.append(('filenames(folder)', lambda pre=pre: sorted(vpk.filenames(folder=pre)), sel))
        checks.append(('fileinfos(folder)', lambda pre=pre: sorted(i.filename for i in vpk.fileinfos(folder=pre)), sel))
    for api, f, want in checks:
        try:
            got = f()
        except Exception as e:      # noqa
            return (api, f'{api} raised {type(e).__name__}: {e}'[:250])
        if got != want:
            return (api, f'{api} gives {str(got[:4])[:200]} ({len(got)} items), expected {str(want[:4])[:200]} ({len(want)} items)')
    return None


def strict_decode(raw: bytes) -> tuple[dict, bytes]:
    """An independent, strict reader of a version-1 directory file (written for this check, shares no code with vpk.py):
    the tree must end exactly where the header's tree length says; everything after it is the trailing data block."""
    import struct
    if len(raw) < 12:
        raise ValueError('short header')
    sig, ver, tlen = struct.unpack_from('<III', raw, 0)
    if sig != 0x55aa1234 or ver != 1:
        raise ValueError(f'signature/version {sig:#x}/{ver}')
    end = 12 + tlen
    if end > len(raw):
        raise ValueError(f'tree length {tlen} exceeds the file')
    pos = 12

    def cstr():
        nonlocal pos
        z = raw.index(b'\x00', pos, end)
        t = raw[pos:z].decode('ascii', 'surrogateescape')
        pos = z + 1
        return t
    ents = {}
    while True:
        ext = cstr()
        if ext == '':
            break
        while True:
            folder = cstr()
            if folder == '':
                break
            while True:
                name = cstr()
                if name == '':
                    break
                if pos + 18 > end:
                    raise ValueError('entry crosses the end of the tree')
                crc, plen, ai, off, alen, term = struct.unpack_from('<IHHIIH', raw, pos)
                pos += 18
                if term != 0xffff or pos + plen > end:
                    raise ValueError('bad terminator / preload crosses the end of the tree')
                k = tuple('' if x == ' ' else x for x in (folder, name, ext))
                ents[k] = (crc, dg(raw[pos:pos + plen]), None if ai == 0x7fff else ai, off if alen else 0, alen)
                pos += plen
    if pos != end:
        raise ValueError(f'tree ends at byte {pos}, header says {end}')
    return ents, raw[end:]


def check_case(case: dict) -> tuple[str, str, int] | None:
    """Oracle: the implementation against the specification map. Returns (key, what, step) of the first problem."""
    exp = run_spec(case)
    try:
        got = run_impl(case)
    except ImplTimeout as e:
        return ('implementation-hangs', f'the history does not finish: {e}', -1)
    except Exception as e:      # noqa
        return (f'harness-exception:{type(e).__name__}', str(e)[:300], -1)
    cfg = case['cfg']
    for i, (op, e, g) in enumerate(zip(case['ops'], exp, got['steps'])):
        if g['code'] != e['code']:
            if g['code'] == R_EXC and op[0] == 'save':
                return ('write_dirfile-exception', f'write_dirfile raised {g["err"]}', i)
            if e['code'] == R_BADIDX:
                return ('arch-index-unrepresentable', f'{op[0]} with arch_index={op[4]} gave code {g["code"]} ({g["err"]}), expected rejection', i)
            if e['code'] == R_BADNAME:
                return ('name-unrepresentable' if is_ascii(ref_parts(make_form(op[1], op[2]))) else 'non-ascii-name-accepted',
                        f'{op[0]} {op[1]!r} gave code {g["code"]} ({g["err"]}), expected ValueError', i)
            if e['code'] == R_RO:
                return (f'readonly-accepted:{op[0]}', f'{op} in read mode gave code {g["code"]} ({g["err"]})', i)
            if op[0] == 'reopen' and g['code'] == R_BADDIR:
                names = [o[1] for o in case['ops'][:i] if o[0] in ('new', 'add')]
                ln = max([longest_part(nm) for nm in names] or [0])
                return ('reopen-rejects-written-directory' + (':long-tree-string' if ln >= 100 else ''),
                        f'the directory file written by write_dirfile cannot be opened again in mode {op[1]!r}: {g["err"]}'[:300]
                        + f' (longest folder/stem/extension string in the history: {ln} characters)', i)
            return (f'result-code:{op[0]}:expected{e["code"]}-got{g["code"]}', f'{op}: {g["err"]}', i)
        want = {k: (dg(v), True) for k, v in e['map'].items()}
        if g['obs'] != want:
            stage = 'reopened' if any(o[0] == 'reopen' and o[1] != 'w' for o in case['ops'][:i + 1]) and op[0] == 'reopen' else 'in-memory'
            missing = sorted(set(want) - set(g['obs']))
            extra = sorted(set(g['obs']) - set(want))
            if missing or extra:
                return (f'listing-mismatch:{op[0]}', f'after {op}: missing {missing[:3]} extra {extra[:3]}', i)
            for k in sorted(want):
                if g['obs'][k] != want[k]:
                    pl = e['place'].get(k, '?')
                    sym = 'content-mismatch' if g['obs'][k][0] != want[k][0] else 'verify-failed'
                    return (f'{sym}:{pl}', f'after {op} ({stage}): file {k} placed {pl}: got (len,crc32),verify={g["obs"][k]} expected {want[k]}', i)
    # final object: listing by name, name forms, len, verify_all
    fin = exp[-1]['map']
    names = sorted(join_parts(*k) for k in fin)
    n = len(case['ops']) - 1
    if got['names'] != names:
        return ('listing-names', f'filenames() = {got["names"][:5]} expected {names[:5]}', n)
    if got['len'] != len(fin) or not got['verify_all']:
        return ('len-or-verify_all', f'len={got["len"]} expected {len(fin)} verify_all={got["verify_all"]}', n)
    for k, ok in got['forms'].items():
        if not ok and not (k[2] == '' and '.' in k[1]):
            return ('name-forms-disagree', f'string/2-tuple/3-tuple forms of {join_parts(*k)!r} do not all resolve to the entry {k}', n)
    lp = listing_api_problem(got['vpk'], fin)
    if lp is not None:
        return (f'listing-api:{lp[0]}', lp[1], n)
    # independent decode of the bytes on disk (the last operations are write_dirfile + reopen, so the file is the saved state)
    if exp[-1]['code'] == R_OK and case['ops'][-1][0] == 'reopen' and case['ops'][-1][1] != 'w':
        try:
            ents, foot = strict_decode(got['disk'])
        except Exception as e:      # noqa
            return ('independent-decode-rejects', f'the directory file written by write_dirfile is not a well-formed version-1 directory: {type(e).__name__}: {e}'[:300], n)
        if ents != got['entries'] or dg(foot) != got['footer']:
            return ('independent-decode-mismatch', f'an independent reader finds {len(ents)} entries / {len(foot)} trailing bytes in the directory file, '
                    f'the library loads {len(got["entries"])} / {got["footer"][0]}', n)
    return None


def shrink_name(nm: str, n: int) -> str | None:
    """`nm` with its longest run of one character (or, for nested paths, its folder part) cut to n characters."""
    import itertools
    head, tail = split_path(nm)
    if head.count('/') >= 3 and len(head) > n >= 1:
        h = head[:n]
        return (h[:-1] + 'x' if h.endswith('/') else h) + '/' + tail
    runs = [(len(list(g)), ch) for ch, g in itertools.groupby(nm)]
    ln, ch = max(runs)
    if ln <= n:
        return None
    return nm.replace(ch * ln, ch * n, 1)


def shrink_case(case: dict, key: str) -> dict:
    def bad(c):
        r = check_case(c)
        return r is not None and r[0] == key
    cur = {'cfg': dict(case['cfg']), 'ops': list(case['ops'])}
    changed = True
    while changed:
        changed = False
        for i in range(len(cur['ops'])):
            cand = {'cfg': cur['cfg'], 'ops': cur['ops'][:i] + cur['ops'][i + 1:]}
            if cand['ops'] and bad(cand):
                cur = cand
                changed = True
                break
    # shrink long names: cut the longest tree string down to the smallest boundary length that still fails
    for nm in sorted({o[1] for o in cur['ops'] if o[0] in ('new', 'add', 'write', 'del') and len(o[1]) > 40}):
        for n in (1, 8, 64, 127, 128, 129, 255, 256, 257, 511, 512, 513, 1000, 1023, 1024, 1025):
            short = shrink_name(nm, n)
            if short is None or len(short) >= len(nm):
                continue
            cand = {'cfg': cur['cfg'], 'ops': [(o[0], short) + tuple(o[2:]) if len(o) > 1 and o[1] == nm else o for o in cur['ops']]}
            if bad(cand):
                cur = cand
                break
    # shrink data sizes
    for i, op in enumerate(cur['ops']):
        if op[0] in ('add', 'write'):
            for n in (0, 1, 2, 5, 9, 65, 1025, 65536):
                if n < op[3][1]:
                    cand = {'cfg': cur['cfg'], 'ops': cur['ops'][:i] + [(op[0], op[1], op[2], (op[3][0], n), op[4])] + cur['ops'][i + 1:]}
                    if bad(cand):
                        cur = cand
                        break
    return cur


CORPUS = [
    # defect 19: directory-tail placement
    {'cfg': {'dir': True, 'limit': 1024}, 'ops': [('add', 'a/b.txt', 's', (1, 3000), None), ('save',), ('reopen', 'r')]},
    # dir_limit=None
    {'cfg': {'dir': True, 'limit': None}, 'ops': [('add', 'a/b.txt', 's', (1, 3), 0), ('save',), ('reopen', 'r')]},
    # defect 20: more than 65535 bytes of directory data
    {'cfg': {'dir': False, 'limit': 1024}, 'ops': [('add', 'keep.txt', 's', (2, 10), 0), ('save',), ('add', 'a/b.txt', 's', (1, 70000), 0), ('save',), ('reopen', 'r')]},
    {'cfg': {'dir': True, 'limit': None}, 'ops': [('add', 'a/b.txt', '2', (1, 65536), None), ('save',), ('reopen', 'a')]},
    {'cfg': {'dir': True, 'limit': 70000}, 'ops': [('add', 'a/b.txt', '3', (1, 69000), 3), ('save',), ('reopen', 'r')]},
    # unrepresentable archive indexes and names
    {'cfg': {'dir': True, 'limit': 4}, 'ops': [('add', 'a/b.txt', 's', (1, 9), 32767), ('save',), ('reopen', 'r')]},
    # archive file names whose prefix ends in characters of '_dir' / contains the suffixes (numbered archive must be found again)
    {'cfg': {'dir': True, 'limit': 4, 'base': 'world'}, 'ops': [('add', 'a/b.txt', 's', (1, 9), 0), ('save',), ('reopen', 'r')]},
    {'cfg': {'dir': True, 'limit': 4, 'base': 'a_dir'}, 'ops': [('add', 'a/b.txt', 's', (1, 9), 1), ('save',), ('reopen', 'a')]},
    {'cfg': {'dir': False, 'limit': 4, 'base': 'x.vpk'}, 'ops': [('add', 'a/b.txt', 's', (1, 9), 0), ('save',), ('reopen', 'r')]},
    {'cfg': {'dir': True, 'limit': 4}, 'ops': [('add', 'k.t', 's', (1, 2), 0), ('save',), ('add', 'a/b.txt', 's', (1, 9), 65536), ('save',), ('reopen', 'r')]},
    {'cfg': {'dir': True, 'limit': 4}, 'ops': [('add', ' /b.txt', 's', (1, 2), 0), ('add', 'b.txt', 's', (2, 2), 0), ('save',), ('reopen', 'r')]},
    {'cfg': {'dir': True, 'limit': 4}, 'ops': [('add', 'a/b\x00c.txt', 's', (1, 2), 0), ('save',), ('reopen', 'r')]},
    # overwrite / delete interplay, append mode, same-CRC write
    {'cfg': {'dir': True, 'limit': 4}, 'ops': [('add', 'a/b.txt', 's', (1, 9), 0), ('write', 'a/b.txt', '2', (2, 2), None), ('save',), ('reopen', 'a'),
                                                ('write', 'a/b.txt', '3', (3, 20), None), ('add', 'c', 's', (1, 9), 1), ('del', 'a/b.txt', 's'), ('add', 'a/b.txt', 's', (1, 9), None),
                                                ('write', 'a/b.txt', 's', (1, 9), 5), ('save',), ('reopen', 'r'), ('add', 'z', 's', (0, 1), 0), ('del', 'c', 's'), ('save',)]},
    {'cfg': {'dir': True, 'limit': 0}, 'ops': [('new', '', 's'), ('add', '.txt', 's', (0, 0), 0), ('add', 'a/b', '3', (1, 1), None), ('reopen', 'a'), ('save',), ('reopen', 'r')]},
]


# every tree-string position at the lengths around 256 and at 1000 (also compared against the model in corr_machine)
LONG_CORPUS = [{'cfg': {'dir': True, 'limit': 4}, 'ops': [('add', 'k.t', 's', (2, 3), 0), ('add', long_name(p, n), f, (1, 9), 0), ('save',), ('reopen', m)]}
               for p in LONG_POSITIONS for n, f, m in ((255, 's', 'r'), (256, '2', 'a'), (257, '3', 'r'), (1000, 's', 'a'))]


def search(ck: Ck) -> None:
    n_small = bud(ck, 320, 1500, 6000)
    n_big = bud(ck, 10, 40, 300)
    found: dict[str, tuple] = {}
    cases = list(CORPUS) + list(LONG_CORPUS)
    for j, nm in enumerate(LONG_NAMES):     # every position x every boundary length, alone in an archive and next to another file
        ops = [('add', nm, 's23'[j % 3], (1, 9), [0, None][j % 2])]
        if j % 2:
            ops = [('add', 'k.t', 's', (2, 3), 0)] + ops + [('save',), ('reopen', 'a'), ('write', nm, 's', (3, 20), 1), ('del', 'k.t', 's')]
        cases.append({'cfg': {'dir': j % 4 != 3, 'limit': [4, None, 0][j % 3]}, 'ops': ops + [('save',), ('reopen', 'ra'[j % 2])]})
    for _ in range(n_small):
        cases.append(gen_case(ck.rng))
    for _ in range(n_big):
        cases.append(gen_case(ck.rng, big=True))
    for case in cases:
        ck.count('oracle_histories')
        cfg = case['cfg']
        ck.hist('oracle_cfg', f"{'dir' if cfg['dir'] else 'single'}/limit={cfg['limit']}")
        # premise of c13_vpk_refines_map: the data values of the history (and b'') do not collide under CRC-32
        vals = {b''} | {gen_data(*o[3]) for o in case['ops'] if o[0] in ('add', 'write')}
        if len({zlib.crc32(v) for v in vals}) != len(vals):
            ck.hist('refinement_premise', 'history with a CRC-32 collision')
            ck.notes.append(f'history with a CRC-32 collision among its data values (outside the refinement theorem): {case!r}'[:400])
        else:
            ck.hist('refinement_premise', 'data values collision-free under CRC-32')
        sp = run_spec(case)
        for op, e in zip(case['ops'], sp):
            ck.hist('oracle_ops', op[0] + (':' + op[1] if op[0] == 'reopen' else (':normal' if op[1] else ':exception') if op[0] == 'exit' else ''))
            ck.hist('oracle_codes', e['code'])
            if op[0] in ('add', 'write') and e['code'] == R_OK:
                ck.hist('oracle_placement', placement(cfg, op[3][1], op[4]))
                ck.hist('oracle_name_form', op[2])
                ln = longest_part(op[1])
                ck.hist('oracle_longest_tree_string', '<100' if ln < 100 else '100-254' if ln < 255 else str(ln) if ln in (255, 256, 257) else '258-1022' if ln < 1023 else '>=1023')
        if len(sp[-1]['map']) >= 1 and len({o[0] for o in case['ops']}) >= 3:
            ck.seen(('orc', repr(case)))
        r = check_case(case)
        if r is None:
            continue
        key = r[0]
        if key in found and len(found[key][0]['ops']) <= 3:
            continue
        small = shrink_case(case, key)
        if key not in found or len(small['ops']) < len(found[key][0]['ops']):
            found[key] = (small, check_case(small) or r)
    for key, (case, r) in sorted(found.items()):
        ck.violation(key, r[1], {'case': case, 'problem': list(r), 'how': 'checks.c13.check_case(case)'})
    ck.extra['search_violation_keys'] = sorted(found)
    # dedicated streams: names ending in '.', non-ASCII names
    for nm in TRAILING_DOT:
        case = {'cfg': {'dir': True, 'limit': 4}, 'ops': [('add', nm, 's', (1, 6), 0), ('save',), ('reopen', 'r')]}
        ck.count('oracle_histories')
        got = run_impl(case)
        k = ref_parts(nm)
        if got['steps'][-1]['obs'].get(k) != (dg(gen_data(1, 6)), True):
            ck.violation('trailing-dot-content', f'{nm!r} not read back', {'case': case})
        elif got['names'] != [nm] or not all(got['forms'].values()):
            ck.violation('name-trailing-dot', f'file added as {nm!r} is listed as {got["names"]} and its 3-tuple form resolves elsewhere',
                         {'case': case, 'listed': got['names'], 'how': 'checks.c13.run_impl(case)["names"]'})
    for nm in NONASCII:
        case = {'cfg': {'dir': True, 'limit': 4}, 'ops': [('add', nm, 's', (1, 6), 0), ('save',), ('reopen', 'r')]}
        ck.count('oracle_histories')
        r = check_case(case)
        if r is not None:
            ck.violation(r[0], r[1], {'case': case})


FOLDER_TREES = [
    {'a.txt': (1, 5), 'sub/b.txt': (2, 22), 'sub/deep/c.dat': (3, 3000), 'noext': (1, 1), 'sub/d.tar.gz': (2, 44), 'sub/deep/e': (0, 0)},
    {'only.bin': (1, 70000)},
    {'x/y/z/w.txt': (1, 9), 'x/y.txt': (2, 9), 'x/y/q.txt': (3, 1025)},
]
FOLDER_PREFIXES = ['', 'pre', 'pre/fix', 'pre\\fix', 'pre/']


def failed_reload_stream(ck: Ck) -> None:
    """State carried between calls on an error path: the saved directory file is damaged from outside, `load_dirfile()` on the open
    object raises half-way (it leaves the entries read so far), the file is restored, `load_dirfile()` is called again: the object must
    hold exactly what was saved (the reset at the start of load_dirfile).  Only searched; the model gives None for the failed load."""
    rng = random.Random(ck.seed * 31 + 5)
    n = bud(ck, 6, 12, 40)
    done = tries = 0
    while done < n and tries < n * 6:
        tries += 1
        case = gen_case(rng, small=True, api=False)
        if not case['ops'] or case['ops'][-1][0] != 'reopen' or case['ops'][-1][1] == 'w':
            continue
        res = run_impl(case, want_files=True)
        try:
            vpk, path, disk = res['vpk'], res['path'], res['disk']
            want = observe(vpk)
            if not want or len(disk) < 30:
                continue
            want_foot = dg(vpk.footer_data)
            ck.count('oracle_failed_reload_cases')
            cut = 12 + rng.randrange(1, max(2, (len(disk) - 12) // 2))
            failed = False
            with open(path, 'wb') as f:
                f.write(disk[:cut])
            try:
                with impl_deadline(60):
                    vpk.load_dirfile()
            except ImplTimeout:
                raise
            except Exception:      # noqa
                failed = True
            partial = len(vpk)
            with open(path, 'wb') as f:
                f.write(disk)
            ck.hist('failed_reload', f"{'raised' if failed else 'loaded-truncated'}/partial={'0' if partial == 0 else 'some'}")
            try:
                vpk.load_dirfile()
                got, got_foot = observe(vpk), dg(vpk.footer_data)
            except Exception as e:      # noqa
                ck.violation('reload-after-failed-load', f'load_dirfile() on the restored file raised {type(e).__name__}: {e}'[:300],
                             {'case': case, 'how': f'checks.c13.failed_reload_stream: run the case, truncate the directory file to {cut} bytes, load_dirfile() (raises), restore, load_dirfile()'})
                continue
            if got != want or got_foot != want_foot:
                ck.violation('reload-after-failed-load', f'after a load_dirfile() that failed on a damaged file and a second one on the restored file: missing '
                             f'{sorted(set(want) - set(got))[:3]} extra {sorted(set(got) - set(want))[:3]} differing {[k for k in want if k in got and got[k] != want[k]][:3]}',
                             {'case': case, 'how': f'checks.c13.failed_reload_stream: truncate the directory file to {cut} bytes, load_dirfile() (raises), restore, load_dirfile()'})
            elif failed:
                ck.seen(('failed-reload', repr(case)))
            done += 1
        finally:
            shutil.rmtree(res['dir'], ignore_errors=True)


def folder_stream(ck: Ck) -> None:
    """add_folder (every file below a directory is added under <prefix>/<relative folder>/<name>) and extract_all, against files on
    disk: only searched, not modelled."""
    from srctools.vpk import VPK
    n = 0
    for ti, tree in enumerate(FOLDER_TREES):
        for pi, prefix in enumerate(FOLDER_PREFIXES):
            n += 1
            if not ck.thorough and not ck.tie_broken and (ti + pi) % 2:
                continue
            d = tempfile.mkdtemp(prefix='c13f_', dir=os.environ.get('VERIF_SCRATCH', '/var/tmp'))
            try:
                src, out = os.path.join(d, 'src'), os.path.join(d, 'out')
                for rel, spec in tree.items():
                    os.makedirs(os.path.dirname(os.path.join(src, rel)), exist_ok=True)
                    with open(os.path.join(src, rel), 'wb') as f:
                        f.write(gen_data(*spec))
                is_dir, limit = bool((ti + pi) % 3), [4, None, 1024][pi % 3]
                path = os.path.join(d, 'pak_dir.vpk' if is_dir else 'pak.vpk')
                pn = '/'.join(x for x in prefix.replace('\\', '/').split('/') if x)
                want = {}
                for rel, spec in tree.items():
                    rd, _, fn = rel.rpartition('/')
                    want[ref_parts(('/'.join(x for x in (pn, rd) if x), fn))] = (dg(gen_data(*spec)), True)
                ck.count('oracle_folder_cases')
                ck.hist('folder_stream', f"{'dir' if is_dir else 'single'}/limit={limit}/prefix={prefix!r}")
                case = {'tree': tree, 'prefix': prefix, 'dir': is_dir, 'limit': limit, 'how': 'checks.c13.folder_stream: VPK(mode="w").add_folder(src, prefix); write_dirfile(); VPK(mode="r"); extract_all(out)'}
                try:
                    v = VPK(path, mode='w', dir_data_limit=limit)
                    v.add_folder(src, prefix)
                    v.write_dirfile()
                    v2 = VPK(path, mode='r', dir_data_limit=limit)
                    got = observe(v2)
                except Exception as e:      # noqa
                    ck.violation('add_folder-exception', f'add_folder/write_dirfile/reopen raised {type(e).__name__}: {e}'[:300], {'folder_case': case})
                    continue
                if got != want:
                    ck.violation('add_folder-mismatch', f'after add_folder(prefix={prefix!r}) + write_dirfile + reopen: missing {sorted(set(want) - set(got))[:3]} '
                                 f'extra {sorted(set(got) - set(want))[:3]} differing {[k for k in want if k in got and got[k] != want[k]][:3]}', {'folder_case': case})
                    continue
                try:
                    v2.extract_all(out)
                    bad = []
                    for (dr, nm, ex), (dgst, _) in want.items():
                        with open(os.path.join(out, dr, nm + ('.' + ex if ex else '')), 'rb') as f:
                            if dg(f.read()) != dgst:
                                bad.append((dr, nm, ex))
                    extra = sum(len(fs) for _, _, fs in os.walk(out)) - len(want)
                except Exception as e:      # noqa
                    ck.violation('extract_all-exception', f'extract_all raised {type(e).__name__}: {e}'[:300], {'folder_case': case})
                    continue
                if bad or extra:
                    ck.violation('extract_all-mismatch', f'extract_all: {len(bad)} files with other contents {bad[:3]}, {extra} unexpected files', {'folder_case': case})
                elif len(want) >= 1:
                    ck.seen(('folder', ti, pi))
            finally:
                shutil.rmtree(d, ignore_errors=True)


ROOT_CASES = [
    # (name form, root, where the file has to end up)
    (('/abs/root/sub', 'f.txt'), '/abs/root', ('sub', 'f', 'txt')),
    ('/abs/root/a/b.c', '/abs/root', ('a', 'b', 'c')),
    (('/abs/root', 'top.t'), '/abs/root', ('', 'top', 't')),
    (('x/y/z', 'n', 'e'), 'x', ('y/z', 'n', 'e')),
    ('x/y/z/n.e', 'x/y', ('z', 'n', 'e')),
    ('x/y/.hidden', 'x', ('y', '', 'hidden')),
]


def root_and_script_stream(ck: Ck) -> None:
    """The `root=` argument of new_file / add_file (the name is taken relative to root) and the command line entry point script_write
    (a directory tree packed into <folder>_dir.vpk + numbered archives): only searched, not modelled."""
    import contextlib
    import io
    from srctools import vpk as vpkmod
    for j, (form, root, want_key) in enumerate(ROOT_CASES):
        d = tempfile.mkdtemp(prefix='c13r_', dir=os.environ.get('VERIF_SCRATCH', '/var/tmp'))
        ck.count('oracle_root_cases')
        case = {'name': form, 'root': root, 'expected_entry': want_key, 'how': 'VPK(mode="w").add_file(name, data, root=root); write_dirfile(); VPK(mode="r")'}
        try:
            with impl_deadline():
                path = os.path.join(d, 'pak_dir.vpk')
                v = vpkmod.VPK(path, mode='w', dir_data_limit=[4, None, 1024][j % 3])
                data = gen_data(1 + j % 3, [9, 2000, 3][j % 3])
                if j % 2:
                    v.new_file(form, root).write(data, 0)
                else:
                    v.add_file(form, data, root)
                v.write_dirfile()
                got = observe(vpkmod.VPK(path, mode='r'))
            if got != {want_key: (dg(data), True)}:
                ck.violation('root-argument-mismatch', f'add_file/new_file({form!r}, root={root!r}) then write_dirfile + reopen gives {sorted(got)[:3]}, expected the entry {want_key}', {'root_case': case})
            else:
                ck.seen(('root', j))
        except ImplTimeout as e:
            ck.violation('implementation-hangs', f'add_file with root=: {e}', {'root_case': case})
        except Exception as e:      # noqa
            ck.violation('root-argument-exception', f'add_file/new_file({form!r}, root={root!r}) raised {type(e).__name__}: {e}'[:300], {'root_case': case})
        finally:
            shutil.rmtree(d, ignore_errors=True)
    for ti, tree in enumerate(FOLDER_TREES):
        d = tempfile.mkdtemp(prefix='c13s_', dir=os.environ.get('VERIF_SCRATCH', '/var/tmp'))
        ck.count('oracle_script_write_cases')
        case = {'tree': tree, 'how': 'checks.c13.root_and_script_stream: srctools.vpk.script_write([<dir>/content]); VPK(<dir>/content_dir.vpk)'}
        try:
            src = os.path.join(d, 'content')
            for rel, spec in tree.items():
                os.makedirs(os.path.dirname(os.path.join(src, rel)), exist_ok=True)
                with open(os.path.join(src, rel), 'wb') as f:
                    f.write(gen_data(*spec))
            want = {}
            for rel, spec in tree.items():
                rd, _, fn = rel.rpartition('/')
                want[ref_parts((rd, fn))] = (dg(gen_data(*spec)), True)
            with impl_deadline(), contextlib.redirect_stdout(io.StringIO()):
                vpkmod.script_write([src])
                got = observe(vpkmod.VPK(os.path.join(d, 'content_dir.vpk'), mode='r'))
            others = sorted(x for x in os.listdir(d) if x != 'content' and not re.fullmatch(r'content_(dir|\d\d\d)\.vpk', x))
            if got != want or others:
                ck.violation('script_write-mismatch', f'script_write: missing {sorted(set(want) - set(got))[:3]} extra {sorted(set(got) - set(want))[:3]} '
                             f'differing {[k for k in want if k in got and got[k] != want[k]][:3]} unexpected files {others[:3]}', {'script_case': case})
            else:
                ck.seen(('script', ti))
        except ImplTimeout as e:
            ck.violation('implementation-hangs', f'script_write: {e}', {'script_case': case})
        except Exception as e:      # noqa
            ck.violation('script_write-exception', f'script_write raised {type(e).__name__}: {e}'[:300], {'script_case': case})
        finally:
            shutil.rmtree(d, ignore_errors=True)


# ------------------------------------------------------------------------------------------------ Coq literals
def cbytes(b: bytes) -> str:
    """A byte string as a Coq term of type list N; runs of one byte become `nrep byte count` (SM/VpkCorr.v) so that the long
    names and streams of the boundary-length cases stay cheap to parse and type-check."""
    if len(b) < 48:
        return coq_bytes(b)
    import itertools
    parts: list[str] = []
    lit: list[int] = []
    for x, g in itertools.groupby(b):
        k = len(list(g))
        if k >= 24:
            if lit:
                parts.append(coq_bytes(bytes(lit)))
                lit = []
            parts.append(f'nrep {x} {k}')
        else:
            lit += [x] * k
    if lit:
        parts.append(coq_bytes(bytes(lit)))
    return '(' + ' ++ '.join(parts) + ')' if len(parts) > 1 else parts[0] if parts[0].startswith('[') else '(' + parts[0] + ')'


def c_key(parts) -> str:
    e, d, n = mkey(parts)
    return f'({cbytes(e)}, {cbytes(d)}, {cbytes(n)})'


def c_idx(i) -> str:
    return 'None' if i is None else f'(Some {i})'


def c_op(op) -> str | None:
    k = op[0]
    if k in ('new', 'add', 'write', 'del'):
        parts = ref_parts(make_form(op[1], op[2]))
        if not is_ascii(parts):
            return None
        key = c_key(parts)
        if k == 'new':
            return f'ONew {key}'
        if k == 'del':
            return f'ODel {key}'
        if op[4] is not None and op[4] < 0:
            return None
        return f'{"OAdd" if k == "add" else "OWrite"} {key} (gen {op[3][0]} {op[3][1]}) {c_idx(op[4])}'
    if k == 'save':
        return 'OSave'
    if k in ('exit', 'reload'):
        return None
    return 'OReopen M' + op[1].upper()


def c_xop(op) -> str | None:
    """An operation of SM/VpkApi.v [xop]: the six of the state machine, leaving a with-block, load_dirfile() on the same object."""
    if op[0] == 'exit':
        return 'XExit ' + ('true' if op[1] else 'false')
    if op[0] == 'reload':
        return 'XReload'
    c = c_op(op)
    return None if c is None else f'XOp ({c})'


def c_cfg(cfg) -> str:
    lim = 'None' if cfg['limit'] is None else f'(Some {cfg["limit"]})'
    # whether the archive is a directory VPK is decided by the naming model (the translated filename setter) from the file name
    return f'(g_vcfg (match dir_prefix_of g_ncfg {coq_str(case_fname(cfg))} with Some _ => true | None => false end) {lim})'


def c_dg(d) -> str:
    return f'({d[0]}, {d[1]})'


def corr_machine(ck: Ck) -> None:
    """SM/Vpk.v run on the same histories as the implementation: per-op code and summary, final per-file digests,
    byte-exact directory file and archives (length + CRC32)."""
    n_small = bud(ck, 80, 600, 2500)
    n_big = bud(ck, 2, 8, 40)
    # quick tier: every tree-string position at 256 and 1000 characters; escalated / thorough: also 255 and 257
    cases = [c for c in CORPUS] + (list(LONG_CORPUS) if ck.thorough or ck.tie_broken else LONG_CORPUS[1::2])
    for _ in range(n_small):
        cases.append(gen_case(ck.rng, small=True))
    for _ in range(n_big):
        cases.append(gen_case(ck.rng, big=True, nops=2))
    lits = []
    kept = []
    for case in cases:
        cops = [c_xop(o) for o in case['ops']]
        if any(c is None for c in cops):
            continue
        for o in case['ops']:
            if o[0] in ('exit', 'reload'):
                ck.hist('machine_api_ops', o[0] + ((':normal' if o[1] else ':exception') if o[0] == 'exit' else ''))
        try:
            got = run_impl(case)
        except ImplTimeout as e:
            ck.violation('implementation-hangs', f'the history does not finish: {e}', {'case': case, 'how': 'checks.c13.check_case(case)'})
            continue
        except Exception as e:      # noqa
            ck.notes.append(f'corr_machine: implementation run failed: {e!r}')
            continue
        if any(s['code'] == R_EXC for s in got['steps']) or any(not isinstance(k, int) or k < 0 for k in got['archs']):
            ck.count('corr_skipped_impl_exception')     # the search reports these; the model has no such outcome
            continue
        tr = []
        for s in got['steps']:
            o = s['obs']
            tr += [s['code'], len(o), sum(d[0] + d[1] for d, _ in o.values()) % 2**32, int(all(v for _, v in o.values()))]
        fin = coq_list(f'({c_key(k)}, ({c_dg(d)}, {"true" if v else "false"}))' for k, (d, v) in sorted(got['steps'][-1]['obs'].items()))
        ars = coq_list(f'({i}, {c_dg(dg(b))})' for i, b in sorted(got['archs'].items()))
        plain = not any(o[0] in ('exit', 'reload') for o in case['ops'])
        if plain:       # plain histories run through the machine assembled from the generated objects (gstep), the others through xstep
            cops = [c_op(o) for o in case['ops']]
        lits.append((plain, f'({c_cfg(case["cfg"])}, {coq_list(cops)}, {coq_list(str(x) for x in tr)}, {fin if fin != "[]" else "@nil obs_t"}, '
                     f'{c_dg(dg(got["disk"]))}, {ars if ars != "[]" else "@nil (N * (N * N))"})'))
        kept.append(case)
        ck.hist('machine_model', 'generated machine (gstep over placement table + dirfile programs)' if plain else 'xstep over the __exit__ table')
        ck.count('corr_histories')
        if len(got['steps'][-1]['obs']) >= 1:
            ck.seen(('corr', repr(case)))
    bad: list[tuple[int, int]] = []
    fn = ('(fun c : vcfg * list xop * list N * list obs_t * (N * N) * list (N * (N * N)) => '
          'let \'(cf, ops, tr, fin, dsk, ars) := c in check_xcase g_exit_table cf ops tr fin dsk ars)')
    gfn = ('(fun c : vcfg * list op * list N * list obs_t * (N * N) * list (N * (N * N)) => '
           'let \'(cf, ops, tr, fin, dsk, ars) := c in check_gcase g_place_table g_wprog g_rprog cf ops tr fin dsk ars)')
    for plain, f in ((True, gfn), (False, fn)):
        idx = [i for i, (pl, _) in enumerate(lits) if pl == plain]
        for lo in range(0, len(idx), 250):
            part = idx[lo:lo + 250]
            vals = ck.coq_eval(IMPORTS, [f'map {f} {coq_list(lits[i][1] for i in part)}'], name='vpkcorr', preamble=PRE)
            if vals is None:
                ck.obligation('correspondence:machine', False, 'model could not be evaluated')
                ck.tie_broken.append('correspondence VPK machine: model evaluation failed')
                return
            res = parse_coq_N_list(vals[0])
            bad += [(i, r) for i, r in zip(part, res) if r != 0]
    what = {1: 'outside the model (write_dirfile overflow, failing load_dirfile() on the same object, __exit__ table not understood)', 2: 'per-operation codes/summaries', 3: 'final per-file contents/verify',
            4: '_dir file bytes (length, crc32)', 5: 'archive files (length, crc32)'}
    ck.obligation('correspondence:machine', not bad,
                  f'{len(lits)} histories ({sum(1 for pl, _ in lits if pl)} plain ones through SM/VpkGenMachine.v gstep over the translated placement table and write_dirfile / load_dirfile programs, '
                  f'the others through SM/VpkApi.v xrun over the translated __exit__ table; vm_compute, real CRC-32) vs srctools.vpk on temp directories: '
                  f'{len(bad)} disagreements' + (f'; first: {what.get(bad[0][1])}' if bad else ''))
    if kept:
        ck.sample({'history': kept[min(12, len(kept) - 1)], 'compared': 'codes, per-file (len,crc32,verify), _dir bytes, archives'})
    if bad:
        ck.tie_broken.append('correspondence VPK machine (SM/Vpk.v step/run vs VPK/FileInfo)')
        i, r = min(bad, key=lambda b: len(kept[b[0]]['ops']))
        ck.extra['machine_disagreement'] = {'case': kept[i], 'aspect': what.get(r)}


def corr_decode(ck: Ck) -> None:
    """Independent decode: the bytes the implementation wrote (and truncations of them) through the model decoder,
    against what the implementation itself loads from those bytes."""
    from srctools.vpk import VPK
    n = bud(ck, 50, 300, 1200)
    lits = []
    nbad_files = 0
    d = tempfile.mkdtemp(prefix='c13d_', dir=os.environ.get('VERIF_SCRATCH', '/var/tmp'))
    try:
        for j in range(n):
            case = gen_case(ck.rng, nops=ck.rng.choice([2, 4, 7]))
            case['cfg']['limit'] = ck.rng.choice([0, 1, 4, 8, 64, None])
            case['ops'] = [o if o[0] not in ('add', 'write') or o[3][1] <= 200 else (o[0], o[1], o[2], (o[3][0], o[3][1] % 97), o[4])
                           for o in case['ops']]
            try:
                got = run_impl(case)
            except ImplTimeout as e:
                ck.violation('implementation-hangs', f'the history does not finish: {e}', {'case': case, 'how': 'checks.c13.check_case(case)'})
                continue
            except Exception:      # noqa
                continue
            raw = got['disk']
            if len(raw) > 6000:
                continue
            variants = [('v1', raw)]
            if raw and j % 2 == 0:
                variants.append(('damaged', raw[:ck.rng.randrange(0, len(raw))]))
            if len(raw) > 13 and j % 3 == 0:
                b = bytearray(raw)
                p = ck.rng.randrange(12, len(b))
                b[p] = ck.rng.choice([0, 32, 255, b[p] ^ 1])
                variants.append(('damaged', bytes(b)))
            if len(raw) >= 12:
                # version 2: same tree and trailing bytes, four more header fields (arbitrary values); the code cannot write these
                hdr4 = bytes(ck.rng.choice([0, 1, 16, 255, ck.rng.randrange(256)]) for _ in range(16))
                v2 = raw[:4] + (2).to_bytes(4, 'little') + raw[8:12] + hdr4 + raw[12:]
                variants.append(('v2', v2))
                if j % 4 == 0:
                    variants.append(('v2-damaged', v2[:ck.rng.randrange(12, len(v2))]))
                if j % 5 == 0:
                    variants.append(('bad-version', raw[:4] + ck.rng.choice([0, 3, 258]).to_bytes(4, 'little') + raw[8:]))
            v1_ents = None
            for kind, v in variants:
                p = os.path.join(d, 'x_dir.vpk')
                with open(p, 'wb') as f:
                    f.write(v)
                try:
                  with impl_deadline():
                      vp = VPK(p, mode='r')
                      ents = {(i.dir, i._filename, i.ext): (i.crc, dg(i.start_data), i.arch_index, i.offset, i.arch_len) for i in vp}
                      if kind == 'v1':
                          v1_ents = (ents, vp.footer_data)
                      elif kind == 'v2' and v1_ents is not None and (v1_ents != (ents, vp.footer_data) or vp.version != 2):
                          # oracle, independent of the model: the version-2 copy must list the same entries and trailing data
                          ck.violation('v2-entries-differ', f'a version-2 copy of a directory written by write_dirfile loads {len(ents)} entries / '
                                       f'{len(vp.footer_data)} footer bytes (version {vp.version}); the version-1 file has {len(v1_ents[0])} / {len(v1_ents[1])}',
                                       {'v2_file_hex': v.hex()[:6000], 'how': 'write the bytes to x_dir.vpk, open with VPK(mode="r"), compare with the same file with version 1 and without bytes 12..28'})
                      el = coq_list(f'({c_key(k)}, ({c}, {c_dg(pd)}, {c_idx(x)}, {o}, {l}))' for k, (c, pd, x, o, l) in sorted(ents.items()))
                      exp = f'(Some ({vp.version}, {el if el != "[]" else "@nil ent_t"}, {c_dg(dg(vp.footer_data))}))'
                      if ents:
                          ck.seen(('dec', v))
                      if kind == 'v2':
                          # a version-2 archive is read-only in effect: write_dirfile must refuse before touching the file
                          va = VPK(p, mode='a')
                          try:
                              va.write_dirfile()
                              refused = False
                          except NotImplementedError:
                              refused = True
                          with open(p, 'rb') as f:
                              if not refused or f.read() != v:
                                  ck.violation('v2-write_dirfile-damages-file', 'write_dirfile on a version-2 archive did not refuse, or changed the file',
                                               {'file_hex': v.hex()[:4000]})
                except ImplTimeout as e:
                    ck.violation('implementation-hangs:load_dirfile', f'opening a {kind} directory file does not finish: {e}', {'file_hex': v.hex()[:6000], 'how': 'write the bytes to x_dir.vpk, VPK(path, mode="r")'})
                    continue
                except Exception as e:      # noqa
                    exp = 'None'
                    nbad_files += 1
                    if kind == 'v2' and v1_ents is not None:
                        ck.violation('v2-entries-differ', f'a version-2 copy of a directory written by write_dirfile is rejected: {type(e).__name__}: {e}'[:300],
                                     {'v2_file_hex': v.hex()[:6000]})
                lits.append(f'({coq_bytes(v)}, {exp})')
                ck.count('corr_decoded_files')
                ck.hist('decode_input', {'v1': 'written by write_dirfile', 'v2': 'version 2 (patched header)'}.get(kind, kind))
    finally:
        shutil.rmtree(d, ignore_errors=True)
    bad = []
    for lo in range(0, len(lits), 200):
        part = lits[lo:lo + 200]
        vals = ck.coq_eval(IMPORTS, [f'bad_idx (fun c : bytes * option (N * list ent_t * (N * N)) => check_decode_p g_dcfg g_rprog (fst c) (snd c)) 0 {coq_list(part)}'],
                           name='vpkdec', preamble=PRE)
        if vals is None:
            ck.obligation('correspondence:decode', False, 'model could not be evaluated')
            ck.tie_broken.append('correspondence VPK decode: model evaluation failed')
            return
        bad += [lo + i for i in parse_coq_N_list(vals[0])]
    ck.obligation('correspondence:decode', not bad,
                  f'{len(lits)} directory files written by the implementation, damaged copies and version-2 copies ({nbad_files} it rejects), decoded '
                  f'by Fmt/VpkDirRead.v rexec over the program compiled from load_dirfile (version, entries, footer) vs load_dirfile: {len(bad)} disagreements')
    if bad:
        ck.tie_broken.append('correspondence VPK directory decode (Fmt/VpkDir.v dec_file vs VPK.load_dirfile)')
        ck.extra['decode_disagreement'] = {'literal': lits[bad[0]][:3000]}


def corr_names(ck: Ck) -> None:
    """Fmt/VpkName.v file_parts / join_parts vs _get_file_parts / _join_file_parts."""
    from srctools.vpk import _get_file_parts, _join_file_parts
    n = bud(ck, 1000, 6000, 20000)
    forms = []
    for nm in NAME_POOL + TRAILING_DOT + BAD_NAMES:
        for k in 's23':
            forms.append(make_form(nm, k))
    alph = 'ab./\\ .'
    while len(forms) < n:
        ln = ck.rng.choice([0, 1, 2, 3, 4, 5, 7, 10])
        s = ''.join(ck.rng.choice(alph) for _ in range(ln))
        r = ck.rng.random()
        if r < 0.5:
            forms.append(s)
        elif r < 0.75:
            cut = ck.rng.randrange(0, len(s) + 1)
            forms.append((s[:cut], s[cut:]))
        else:
            c1 = ck.rng.randrange(0, len(s) + 1)
            c2 = ck.rng.randrange(c1, len(s) + 1)
            forms.append((s[:c1], s[c1:c2], s[c2:]))
    lits = []
    for f in forms:
        got = _get_file_parts(f)
        joined = _join_file_parts(*got)
        if isinstance(f, str):
            fl = f'NStr {coq_bytes(enc(f))}'
        elif len(f) == 2:
            fl = f'NPair {coq_bytes(enc(f[0]))} {coq_bytes(enc(f[1]))}'
        else:
            fl = f'NTriple {coq_bytes(enc(f[0]))} {coq_bytes(enc(f[1]))} {coq_bytes(enc(f[2]))}'
        lits.append(f'({fl}, {c_key(got)}, {coq_bytes(enc(joined))})')
        ck.count('corr_name_forms')
        ck.hist('name_form_kind', 'str' if isinstance(f, str) else len(f))
        if got != ('', '', ''):
            ck.seen(('nm', f))
    bad = []
    for lo in range(0, len(lits), 500):
        part = lits[lo:lo + 500]
        vals = ck.coq_eval(IMPORTS + ['SV.Fmt.VpkName', 'SV.Fmt.VpkNameSplit'], [
            'bad_idx (fun c : nameform * key * bytes => andb (key_eqb (file_parts_g posix_normpath g_ext_split g_parts (fst (fst c))) (snd (fst c))) '
            f'(match join_k g_join_table (snd (fst c)) with Some j => bytes_eqb j (snd c) | None => false end)) 0 {coq_list(part)}'], name='vpknames', preamble=PRE)
        if vals is None:
            ck.obligation('correspondence:names', False, 'model could not be evaluated')
            ck.tie_broken.append('correspondence VPK names: model evaluation failed')
            return
        bad += [lo + i for i in parse_coq_N_list(vals[0])]
    ck.obligation('correspondence:names', not bad,
                  f'{len(lits)} name forms, Fmt/VpkNameJoin.v file_parts_g over the translated description and split statement of _get_file_parts / join_k over the '
                  f'translated table of _join_file_parts vs the two functions: {len(bad)} disagreements')
    if bad:
        ck.tie_broken.append('correspondence VPK names (Fmt/VpkName.v vs _get_file_parts)')
        ck.extra['names_disagreement'] = {'form': repr(forms[bad[0]]), 'impl': repr(_get_file_parts(forms[bad[0]]))}


# ------------------------------------------------------------------------------------------------ NUL-terminated strings
def corr_nullstr(ck: Ck) -> None:
    """Fmt/VpkNullStr.v over the translated code shape (g_ncodec) vs iter_nullstr / _write_nullstring on in-memory files: the strings
    the generator yields, the position it leaves the file at, or that it raises."""
    import io
    from srctools import vpk as vpkmod
    n = bud(ck, 100, 300, 1500)
    rng = ck.rng
    lens = [0, 1, 1, 2, 3, 7, 31, 32, 33, 63, 64, 65]

    def rstr() -> bytes:
        r = rng.random()
        if r < 0.08:
            return b''
        if r < 0.16:
            return rng.choice([b' ', b'  ', b' a', b'\x80\xff', b'\xfe'])
        ln = rng.choice(lens) if r < 0.7 else rng.choice(LONG_LENGTHS[:12]) if r < 0.8 else rng.randrange(0, 300)
        ch = rng.choice([b'a', b'F', b'/', b'.', b' ', b'\xff', b'\x01'])
        return ch * ln if rng.random() < 0.7 else bytes(rng.choice(b'ab/. _\x7f\x80\xff') for _ in range(ln))
    streams: list[bytes] = []
    fixed = [b'', b'\x00', b' \x00\x00', b'abc', b'abc\x00', b'a\x00b\x00\x00rest', b'a\x00b', b'\x00\x00', b' ', b'  \x00\x00']
    for ln in LONG_LENGTHS + [254, 258]:       # every boundary length between other strings; 255..257 also alone and unterminated
        fixed.append(b'k\x00' + b'F' * ln + b'\x00s\x00\x00tail')
        if ln in (255, 256, 257):
            fixed += [b'e' * ln + b'\x00\x00', b'x' * ln, b'a\x00' + b's' * ln + b'\x00' + b'e' * ln + b'\x00\x00']
    streams += fixed
    while len(streams) < n:
        sec = [rstr() for _ in range(rng.choice([0, 1, 1, 2, 3, 5]))]
        b = b''.join((s or b' ') + b'\x00' for s in sec)
        r = rng.random()
        if r < 0.7:
            b += b'\x00' + bytes(rng.randrange(256) for _ in range(rng.choice([0, 0, 1, 18, 40])))
        elif r < 0.85 and b:
            b = b[:rng.randrange(len(b))]          # truncated: may end without a terminator
        streams.append(b)
    lits = []
    for b in streams[:n + len(fixed)]:
        f = io.BytesIO(b)
        try:
            with impl_deadline():
                got = [x.encode('ascii', 'surrogateescape') for x in vpkmod.iter_nullstr(f)]
            ex = f'(Some ({coq_list(c_dg(dg(x)) for x in got) if got else "@nil (N * N)"}, {len(b) - f.tell()}))'
            ck.hist('nullstr_stream', 'section read' + (' (a string of >= 255 bytes)' if any(len(x) >= 255 for x in got) else ''))
            if got:
                ck.seen(('ns', b))
        except ImplTimeout as e:
            ck.violation('implementation-hangs:iter_nullstr', f'iter_nullstr does not finish on a {len(b)}-byte stream: {e}', {'stream_hex': b.hex()[:4000], 'how': 'list(srctools.vpk.iter_nullstr(io.BytesIO(bytes.fromhex(stream_hex))))'})
            continue
        except Exception:      # noqa
            ex = 'None'
            ck.hist('nullstr_stream', 'generator raises')
        lits.append(f'({cbytes(b)}, {ex})')
        ck.count('corr_nullstr_streams')
    wl = []
    for s in ['', ' ', 'a', 'txt', 'a b', '\udc80\udcff', 'x' * 255, 'x' * 256, 'F' * 1000] + [rstr().decode('ascii', 'surrogateescape') for _ in range(30)]:
        if '\x00' in s:
            continue
        f = io.BytesIO()
        vpkmod._write_nullstring(f, s)
        wl.append(f'({cbytes(enc(s))}, {cbytes(f.getvalue())})')
        ck.count('corr_nullstr_written')
    bad: list[int] = []
    for lo in range(0, len(lits), 120):
        vals = ck.coq_eval(IMPORTS, [f'bad_idx (fun c : bytes * option (list (N * N) * N) => check_nullstr_dg g_ncodec (fst c) (snd c)) 0 {coq_list(lits[lo:lo + 120])}']
                           + ([f'bad_idx (fun c : bytes * bytes => check_wcstr g_ncodec (fst c) (snd c)) 0 {coq_list(wl)}'] if lo == 0 else []),
                           name='vpknullstr', preamble=PRE)
        if vals is None:
            ck.obligation('correspondence:nullstr', False, 'model could not be evaluated')
            ck.tie_broken.append('correspondence VPK null-terminated strings: model evaluation failed')
            return
        bad += [lo + i for i in parse_coq_N_list(vals[0])]
        if lo == 0:
            bad += [-1 - i for i in parse_coq_N_list(vals[1])]
    ck.obligation('correspondence:nullstr', not bad,
                  f'{len(lits)} byte streams (sections of strings of length 0..5000 incl. 255/256/257, truncated and arbitrary tails) through iter_nullstr and '
                  f'{len(wl)} strings through _write_nullstring vs Fmt/VpkNullStr.v over the translated code shape: {len(bad)} disagreements')
    if bad:
        ck.tie_broken.append('correspondence VPK null-terminated strings (Fmt/VpkNullStr.v vs iter_nullstr/_write_nullstring)')
        ck.extra['nullstr_disagreement'] = {'literal': (lits[bad[0]] if bad[0] >= 0 else wl[-1 - bad[0]])[:2000]}


# ------------------------------------------------------------------------------------------------ nested dicts
def corr_nested(ck: Ck) -> None:
    """SM/VpkNested.v ndel over the clean-up program compiled from VPK.__delitem__ vs the implementation's _fileinfo dicts:
    which deletes raise KeyError and the key structure (dict order, empty dicts included) left behind."""
    from srctools.vpk import VPK
    n = bud(ck, 100, 400, 1500)
    rng = ck.rng
    exts, dirs, stems = ['t', 'u', ''], ['a', 'b', '', 'a/b'], ['x', 'y', 'z']
    lits = []
    d = tempfile.mkdtemp(prefix='c13t_', dir=os.environ.get('VERIF_SCRATCH', '/var/tmp'))

    def shape(v) -> str:
        return coq_list(f'({coq_bytes(enc(e))}, ' + coq_list(f'({coq_bytes(enc(p))}, ' + (coq_list(coq_bytes(enc(nm)) for nm in fs) if fs else '@nil (list N)') + ')'
                                                            for p, fs in ds.items()) + ')' if ds else f'({coq_bytes(enc(e))}, @nil (list N * list (list N)))'
                        for e, ds in v._fileinfo.items()) if v._fileinfo else '@nil (list N * list (list N * list (list N)))'
    try:
        for j in range(n):
            v = VPK(os.path.join(d, 'n.vpk'), mode='w')
            pool = [(rng.choice(dirs), rng.choice(stems), rng.choice(exts)) for _ in range(rng.choice([1, 2, 3, 5, 8]))]
            for k in pool:
                if k not in v:
                    v.new_file(k)
            before = shape(v)
            ks = [rng.choice(pool) if rng.random() < 0.8 else (rng.choice(dirs), rng.choice(stems), rng.choice(exts)) for _ in range(rng.choice([1, 2, 3, 6]))]
            oks = []
            for k in ks:
                try:
                    del v[k]
                    oks.append(True)
                except KeyError:
                    oks.append(False)
            lits.append(f'({before}, {coq_list(c_key(k) for k in ks)}, {coq_list("true" if o else "false" for o in oks)}, {shape(v)})')
            ck.count('corr_nested_deletes')
            ck.hist('nested_delete', f'{sum(oks)} of {len(ks)} deletes succeed')
            if any(oks) and len(v):
                ck.seen(('nd', tuple(pool), tuple(ks)))
    finally:
        shutil.rmtree(d, ignore_errors=True)
    vals = ck.coq_eval(IMPORTS, ['bad_idx (fun c : shape_t * list key * list bool * shape_t => let \'(s, ks, oks, a) := c in check_ndel g_del_prog s ks oks a) 0 '
                                 + coq_list(lits)], name='vpknested', preamble=PRE)
    if vals is None:
        ck.obligation('correspondence:nested-delete', False, 'model could not be evaluated')
        ck.tie_broken.append('correspondence VPK nested dicts: model evaluation failed')
        return
    bad = parse_coq_N_list(vals[0])
    ck.obligation('correspondence:nested-delete', not bad,
                  f'{len(lits)} archives x 1..6 deletes: SM/VpkNested.v ndel over the clean-up program compiled from __delitem__ vs the '
                  f'_fileinfo dicts of the implementation (KeyError or not, keys left at all three levels in dict order): {len(bad)} disagreements')
    if bad:
        ck.tie_broken.append('correspondence VPK nested dicts (SM/VpkNested.v vs VPK.__delitem__)')
        ck.extra['nested_disagreement'] = {'literal': lits[bad[0]][:1500]}
    # new_file and del mixed, from an empty archive: SM/VpkNestedMap.v nrun over the translated get-or-create descriptions and clean-up
    lits2 = []
    d = tempfile.mkdtemp(prefix='c13t_', dir=os.environ.get('VERIF_SCRATCH', '/var/tmp'))
    rk = lambda: (rng.choice(dirs), rng.choice(stems), rng.choice(exts))
    try:
        for j in range(n):
            v = VPK(os.path.join(d, 'm.vpk'), mode='w')
            ops, oks = [], []
            for _ in range(rng.choice([2, 4, 8, 14])):
                k = rk()
                if rng.random() < 0.65:
                    ops.append(f'NIns {c_key(k)}')
                    try:
                        v.new_file(k)
                        oks.append(True)
                    except (FileExistsError, KeyError):
                        oks.append(False)
                else:
                    ops.append(f'NDel {c_key(k)}')
                    try:
                        del v[k]
                        oks.append(True)
                    except KeyError:
                        oks.append(False)
            probes = [(k, k in v) for k in (rk() for _ in range(4))]
            lits2.append(f'({coq_list(ops)}, {coq_list("true" if o else "false" for o in oks)}, {shape(v)}, '
                         + coq_list(f'({c_key(k)}, {"true" if b else "false"})' for k, b in probes) + ')')
            ck.count('corr_nested_histories')
            ck.hist('nested_history', f'{len(ops)} operations, {len(v)} files at the end' if len(ops) <= 4 else f'{len(ops)} operations')
            if len(v) and not all(oks):
                ck.seen(('nm', tuple(ops)))
    finally:
        shutil.rmtree(d, ignore_errors=True)
    vals = ck.coq_eval(IMPORTS, ['bad_idx (fun c : list nop * list bool * shape_t * list (key * bool) => let \'(ops, oks, a, pr) := c in '
                                 'check_nrun g_ins_ext g_ins_dir g_ins_exists_check g_del_prog ops oks a pr) 0 ' + coq_list(lits2)], name='vpknestedmap', preamble=PRE)
    if vals is None:
        ck.obligation('correspondence:nested-map', False, 'model could not be evaluated')
        ck.tie_broken.append('correspondence VPK nested map: model evaluation failed')
        return
    bad = parse_coq_N_list(vals[0])
    ck.obligation('correspondence:nested-map', not bad,
                  f'{len(lits2)} sequences of 2..14 new_file/del from an empty archive: SM/VpkNestedMap.v nrun (translated get-or-create steps of new_file, '
                  f'clean-up of __delitem__) vs the implementation (which calls raise, keys at all three levels in dict order, 4 membership probes each): '
                  f'{len(bad)} disagreements')
    if bad:
        ck.tie_broken.append('correspondence VPK nested map (SM/VpkNestedMap.v vs VPK.new_file/__delitem__/__contains__)')
        ck.extra['nested_map_disagreement'] = {'literal': lits2[bad[0]][:1500]}


# ------------------------------------------------------------------------------------------------ archive file names
NAME_SUFFIXES = ['_dir.vpk', '.vpk', '', '_dir', 'dir.vpk', '_DIR.vpk', '.vpk_dir.vpk', '_dir.vpk.vpk', '_dir_dir.vpk', '__dir.vpk']
NAME_INDEXES = [0, 1, 7, 10, 99, 100, 999, 1000, 32766]


def arch_sites_impl(fname: str, idxs: list[int]) -> tuple:
    """What the implementation's three get_arch_filename sites really open for the VPK file name `fname`:
    (_dir_prefix, [[name appended to by FileInfo.write, name opened by read, name opened by verify] per index])."""
    from srctools.vpk import VPK
    d = tempfile.mkdtemp(prefix='c13n_', dir=os.environ.get('VERIF_SCRATCH', '/var/tmp'))
    try:
        vpk = VPK(os.path.join(d, fname), mode='w', dir_data_limit=0)
        out = []
        for i in idxs:
            before = set(os.listdir(d))
            vpk.add_file(f'f{i}.x', b'abc', arch_index=i)
            made = sorted(set(os.listdir(d)) - before)
            if len(made) > 1:
                raise RuntimeError(f'one write created {made}')
            info = vpk[f'f{i}.x']
            for m in made:
                os.remove(os.path.join(d, m))
            if not made:        # singular VPK: the data stayed in the file itself; point the entry at archive i to reach the read sites
                info.arch_index, info.arch_len, info.offset = i, 1, 0
            opened = []
            for fn in (info.read, info.verify):
                try:
                    fn()
                    opened.append(None)
                except FileNotFoundError as e:
                    opened.append(os.path.relpath(e.filename, d))
            out.append([made[0] if made else None] + opened)
        return vpk._dir_prefix, out
    finally:
        shutil.rmtree(d, ignore_errors=True)


def c_ostr(x) -> str:
    return 'None' if x is None else f'(Some {coq_str(x)})'


def corr_archnames(ck: Ck) -> list[str]:
    """Fmt/VpkArchName.v over the translated configuration vs the files the implementation's sites open."""
    n = bud(ck, 70, 150, 700)
    names = [b + sfx for b in BASES for sfx in NAME_SUFFIXES]
    ck.rng.shuffle(names)
    names = ['world_dir.vpk', 'pak01_dir.vpk', 'x.vpk', 'a_dir.vpk', '_dir.vpk', 'r_dir.vpk', 'did_dir.vpk'] + names
    alph = '_dir.vpka0'
    while len(names) < n * 2:
        nm = ''.join(ck.rng.choice(alph) for _ in range(ck.rng.choice([1, 2, 4, 6, 9, 12])))
        if ck.rng.random() < 0.6:
            nm += ck.rng.choice(['_dir.vpk', '.vpk', 'r_dir.vpk'])
        names.append(nm)
    seen, lits, kept = set(), [], []
    for nm in names:
        if nm in seen or nm in ('.', '..') or len(lits) >= n:
            continue
        seen.add(nm)
        idxs = ck.rng.sample(NAME_INDEXES, 2)
        try:
            dp, sites = arch_sites_impl(nm, idxs)
        except Exception as e:      # noqa
            ck.notes.append(f'corr_archnames: implementation run failed for {nm!r}: {e!r}')
            continue
        ex = f'({c_ostr(dp)}, {coq_list(coq_list(c_ostr(x) for x in row) for row in sites)})'
        lits.append(f'({coq_str(nm)}, {coq_list(str(i) for i in idxs)}, {ex})')
        kept.append((nm, idxs, dp, sites))
        ck.count('corr_archive_names')
        ck.hist('archive_name_kind', 'directory' if dp is not None else 'singular')
        if dp is not None:
            ck.seen(('an', nm, tuple(idxs)))
    vals = ck.coq_eval(IMPORTS, [
        'bad_idx (fun c : list N * list N * (option (list N) * list (list (option (list N)))) => '
        f'check_archname g_ncfg (fst (fst c)) (snd (fst c)) (snd c)) 0 {coq_list(lits)}'], name='vpkarch', preamble=PRE)
    if vals is None:
        ck.obligation('correspondence:archive-names', False, 'model could not be evaluated')
        ck.tie_broken.append('correspondence VPK archive names: model evaluation failed')
        return []
    bad = parse_coq_N_list(vals[0])
    ck.obligation('correspondence:archive-names', not bad,
                  f'{len(lits)} VPK file names x 2 indexes: Fmt/VpkArchName.v over the translated sites (_dir_prefix, file appended to by '
                  f'FileInfo.write, files opened by read/verify) vs the files the implementation really opens: {len(bad)} disagreements')
    if kept:
        ck.sample({'vpk file name': kept[0][0], 'indexes': kept[0][1], '_dir_prefix': kept[0][2], 'write/read/verify open': kept[0][3]})
    out = []
    if bad:
        ck.tie_broken.append('correspondence VPK archive names (Fmt/VpkArchName.v vs get_arch_filename sites)')
        ck.extra['archname_disagreement'] = {'name': kept[bad[0]][0], 'indexes': kept[bad[0]][1], 'impl': repr(kept[bad[0]][2:])}
    # oracle on the same observations, independent of the model: the writer's file is the file both readers open
    for nm, idxs, dp, sites in kept:
        for i, row in zip(idxs, sites):
            if row[0] is not None and (row[1] != row[0] or row[2] != row[0]):
                out.append(nm)
                ck.violation('archive-name-mismatch', f'VPK {nm!r}, archive index {i}: FileInfo.write appends to {row[0]!r}, read opens {row[1]!r}, '
                             f'verify opens {row[2]!r}', {'fname': nm, 'indexes': [i], 'how': 'checks.c13.arch_sites_impl(fname, indexes)'})
                break
    return out


# ------------------------------------------------------------------------------------------------ main
STAGE_DEADLINE_S = 900      # backstop for a whole stage (each takes 2-15 s in the quick tier, up to ~4 min in the thorough tier)


def staged(ck: Ck, fn) -> None:
    """Run one stage; a call into the implementation that does not return (per-call deadline inside the stage, or this backstop) ends
    as a violation with what was running, never as a hung check."""
    try:
        with impl_deadline(STAGE_DEADLINE_S):
            fn(ck)
    except ImplTimeout as e:
        ck.violation('implementation-hangs', f'stage {fn.__name__}: {e}', {'stage': fn.__name__, 'how': f'checks.c13.{fn.__name__} with a deadline'})


def run(ck: Ck) -> None:
    ck.rule = ('histories: random sequences of new/add/write/del/write_dirfile/reopen(r,w,a)/with-block exit (normal, exception)/load_dirfile() on '
               'the same object over a pool of names that collide, 5% with a tree string (folder, nested folder path, stem, extension) of a boundary '
               'length 127..5000 '
               '(empty folder/extension parts, three name forms, normalised paths) with sizes clustered around dir_limit, 1024 and '
               '65535/65536 up to 300000, limits None/0/1/4/8/64/1024/70000, indexes None/0/1/.../32766 and out-of-range, _dir and '
               'singular archives, always ending in write_dirfile + reopen; non-trivial = at least one file exists at the end and '
               'at least 3 operation kinds occur; distinct by full history. decode: files written by the implementation and '
               'truncated/byte-flipped copies, version-2 copies (header patched, 16 arbitrary bytes inserted) and bad-version copies, '
               'non-trivial = at least one entry loads. names: pool + random strings over "ab./\\\\ ", non-trivial = not all parts empty. '
               'archive names: VPK file names = bases ending in/containing characters of "_dir.vpk" x suffixes (_dir.vpk, .vpk, none, _dir, '
               'dir.vpk, _DIR.vpk, ...) + random strings over "_dir.vpka0", two distinct indexes from 0..32766 each; observed = _dir_prefix and '
               'the file each of the three get_arch_filename sites really opens; non-trivial = a directory VPK. NUL-terminated streams: '
               'sections of strings incl. lengths around 255/256 and damaged streams. nested dicts: 1..8 files over 3 extensions x 4 folders x 3 '
               'stems then 1..6 deletes; sequences of 2..14 new_file/del from an empty archive with 4 membership probes. folders: add_folder over 3 '
               'directory trees x 5 prefixes, extract_all; add_file/new_file with root= (6 cases), script_write on the 3 trees. Rejected calls (read-only '
               'archive, index out of range, existing / missing / unrepresentable name) are part of the histories: the caller carries on after the error. '
               'failed reload: a saved archive whose directory file is truncated from outside, load_dirfile() raising half-way, the file restored, '
               'load_dirfile() again; non-trivial = the first load raised.')
    ck.trusted.append('hand-written models Fmt/VpkDir.v, Fmt/VpkDirV2.v, SM/Vpk.v, Fmt/VpkName.v, string primitives of Fmt/VpkArchName.v (tied by '
                      'differential correspondence on every run); zlib.crc32 incl. its chaining property; posixpath.normpath; '
                      'translate/c13_archname.py, c13_nullstr.py, c13_nested.py, c13_api.py, c13_names.py, c13_dirprog.py; hand-written SM/VpkApi.v, SM/VpkNested.v, '
                      'SM/VpkNestedMap.v, Fmt/VpkNullStr.v (tied by the translated descriptions and by correspondence)')
    ck.assumptions += [
        'the data values written in one history, together with the empty string, have pairwise different CRC-32 unless equal (premise collision_free of c13_vpk_refines_map: FileInfo.write skips a write whose checksum equals the stored one; checked with zlib on every generated history, see input_distribution.refinement_premise)',
        'no archive or directory field exceeds 32 bits (write_dirfile would raise struct.error; the refinement is stated for histories whose run is not None)',
        'fresh directory: no numbered archive files exist before the history starts; one process at a time; numbered archives are append-only files (open mode "ab", offset = seek(0, SEEK_END): translated site archive_appended_at_end_and_read_at_offset)',
        'the state machine SM/Vpk.v is the implementation: tied by correspondence on sampled histories and by the translated sites, not by proof',
    ]
    _T0 = __import__('time').time()
    ok_t = ck.translate('VpkPlace_gen', c13_vpk.translate)
    ok_t = ck.translate('VpkArchName_gen', c13_archname.translate) and ok_t
    ok_t = ck.translate('VpkNullStr_gen', c13_nullstr.translate) and ok_t
    ok_t = ck.translate('VpkNested_gen', c13_nested.translate) and ok_t
    ok_t = ck.translate('VpkApi_gen', c13_api.translate) and ok_t
    ok_t = ck.translate('VpkNames_gen', c13_names.translate) and ok_t
    ok_t = ck.translate('VpkDirProg_gen', c13_dirprog.translate) and ok_t
    built = ok_t and ck.build(['Props/C13.vo', 'SM/VpkCorr.vo', 'Gen/VpkPlace_gen.vo', 'Gen/VpkArchName_gen.vo', 'Gen/VpkNullStr_gen.vo', 'Gen/VpkNested_gen.vo', 'Gen/VpkApi_gen.vo', 'Gen/VpkNames_gen.vo', 'Gen/VpkDirProg_gen.vo'])
    if os.environ.get('C13_TIMING'):
        print(f'  [timing] translate+build: {__import__("time").time() - _T0:.1f}s'); _T0 = __import__('time').time()
    if built:
        ck.theorems('Props/C13.v')
        if os.environ.get('C13_TIMING'):
            print(f'  [timing] theorems: {__import__("time").time() - _T0:.1f}s'); _T0 = __import__('time').time()
        ck.instance_obligations(IMPORTS + ['SV.Fmt.VpkNameSplit', 'SV.SM.VpkProperty', 'SV.Props.C13'], {
            'format_constants_in_range': 'dcfg_ok g_dcfg',
            'reader_and_writer_use_the_same_dir_sentinel': 'N.eqb g_dir_index_read g_dir_index_write',
            'reader_and_writer_use_the_same_terminator': 'N.eqb g_term_read g_term_write',
            'entry_layout_written_is_IHHIIH': 'nlist_eqb g_entry_widths_write entry_widths_expected',
            'entry_layout_read_is_IHHIIH': 'nlist_eqb g_entry_widths_read entry_widths_expected',
            'entry_field_order_matches': 'g_entry_fields_match',
            'zero_arch_len_resets_offset': 'g_zero_len_resets_offset',
            'empty_string_is_a_space_on_both_sides': 'andb (bytes_eqb (nc_blank_r g_ncodec) (32%N :: nil)) (bytes_eqb (nc_blank_w g_ncodec) (32%N :: 0%N :: nil))',
            'preload_capped_at_16_bits': 'andb g_preload_capped (match g_max_preload with Some m => N.leb m 65535 | None => false end)',
            'dir_tail_goes_to_footer_data': 'g_tail_to_footer',
            # premise of c13_write_placement_is_table: the table obtained by executing FileInfo.write on symbolic values
            'write_placement_table_matches_model': 'place_table_ok g_place_table',
            'write_with_unchanged_checksum_has_no_effect': 'g_same_crc_skips',
            'read_and_verify_take_the_bytes_from_where_write_put_them': 'read_table_ok g_read_table',
            'archive_index_validated': 'g_chk_idx',
            # FileInfo.write executed in the rejection scenarios (read-only / index out of range / both): premise of c13_guarded_write_is_model,
            # c13_rejected_write_stores_nothing, c13_write_step_is_generated_tables
            'write_validations_all_precede_the_first_store': 'rej_table_ok g_rej_table',
            'add_file_validates_the_index_before_the_entry_is_created': 'g_add_file_checks_index_first',
            'unrepresentable_names_rejected': 'g_chk_name',
            'instance_satisfies_theorem_premises': 'andb (vcfg_ok (g_vcfg true (Some 1024%N))) (vcfg_ok (g_vcfg false None))',
            'ext_split_is_at_the_last_dot': 'split_kind_ok g_ext_split',
            # the two name helpers executed symbolically (Gen/VpkNames_gen.v): premises of c13_join_table_is_model /
            # c13_get_parts_description_is_model / c13_generated_listed_name_resolves
            'join_file_parts_puts_the_separators_where_the_parts_are': 'join_table_ok g_join_table',
            'get_file_parts_takes_the_parts_from_the_three_forms': 'gparts_ok g_parts',
            'fileinfo_filename_is_join_file_parts': 'g_fileinfo_filename_is_join',
            'every_name_argument_is_resolved_by_get_file_parts': 'g_names_resolved_by_get_file_parts',
            # archive file names (Gen/VpkArchName_gen.v): premises of c13_dir_prefix_exact / c13_arch_names_coincide / c13_arch_filename_*
            'filename_setter_removes_the_tested_suffix': 'setter_ok g_ncfg',
            'write_site_prefix_is_the_dir_prefix': 'site_ok g_ncfg (n_writer g_ncfg)',
            'read_sites_prefix_is_the_dir_prefix': 'forallb (site_ok g_ncfg) (n_readers g_ncfg)',
            'dir_suffix_same_in_get_arch_filename_and_setter': 'bytes_eqb (n_dir_suffix g_ncfg) (n_suffix g_ncfg)',
            'numbered_archives_distinct_from_dir_file': 'numbered_ok g_ncfg',
            'arch_naming_instance_satisfies_theorem_premises': 'ncfg_ok g_ncfg',
            'archive_sites_same_folder_and_index': 'andb g_index_args_ok g_sites_join_folder',
            'archive_appended_at_end_and_read_at_offset': 'g_archive_append_at_end',
            'deprecated_file_prefix_setter_consistent': 'g_prefix_setter_consistent',
            # the statement structure of write_dirfile / load_dirfile (Gen/VpkDirProg_gen.v): premises of c13_write_dirfile_program_is_encoder /
            # c13_load_dirfile_program_is_decoder / c13_dirfile_programs_roundtrip; the finer ones point at one site
            # the hypotheses of c13_property, all at once, for the objects generated from today's source (both kinds of archive)
            'c13_property_hypotheses_hold_for_todays_source':
                'andb (c13_hyps g_exit_table (g_vcfg true (Some 1024%N)) g_place_table g_read_table g_ins_ext g_ins_dir g_del_prog g_ncodec g_wprog g_rprog g_ext_split g_parts g_join_table g_ncfg) '
                '(c13_hyps g_exit_table (g_vcfg false None) g_place_table g_read_table g_ins_ext g_ins_dir g_del_prog g_ncodec g_wprog g_rprog g_ext_split g_parts g_join_table g_ncfg)',
            'c13_property_r5_hypotheses_hold_for_todays_source':
                'andb (c13_hyps_r5 g_exit_table (g_vcfg true (Some 1024%N)) g_place_table g_read_table g_ins_ext g_ins_dir g_del_prog g_ncodec g_wprog g_rprog g_ext_split g_parts g_join_table g_ncfg g_rej_table g_walks_filenames g_walks_fileinfos) '
                '(c13_hyps_r5 g_exit_table (g_vcfg false None) g_place_table g_read_table g_ins_ext g_ins_dir g_del_prog g_ncodec g_wprog g_rprog g_ext_split g_parts g_join_table g_ncfg g_rej_table g_walks_filenames g_walks_fileinfos)',
            'write_dirfile_program_is_the_directory_encoder': 'wprog_ok g_wprog',
            'write_dirfile_refuses_version_2_before_opening_the_file': 'g_write_refuses_v2',
            'write_dirfile_loops_ext_folder_file_sorted': 'andb (w_nest_ok g_wprog) (w_sorted g_wprog)',
            'write_dirfile_skips_empty_dicts': 'andb (w_ext_skip g_wprog) (w_dir_skip g_wprog)',
            'write_dirfile_header_mark_then_length_patched_after_footer': 'andb (if list_eq_dec wop_eq_dec (w_before g_wprog) (w_before wprog_pinned) then true else false) '
                                                                          '(if list_eq_dec wop_eq_dec (w_after g_wprog) (w_after wprog_pinned) then true else false)',
            'write_dirfile_one_nul_after_each_level': 'andb (if list_eq_dec wop_eq_dec (w_dir_post g_wprog) (w_dir_post wprog_pinned) then true else false) '
                                                      '(if list_eq_dec wop_eq_dec (w_ext_post g_wprog) (w_ext_post wprog_pinned) then true else false)',
            'write_dirfile_string_then_entry_then_preload': 'andb (if list_eq_dec wop_eq_dec (w_file_body g_wprog) (w_file_body wprog_pinned) then true else false) '
                                                            '(andb (if list_eq_dec wop_eq_dec (w_ext_pre g_wprog) (w_ext_pre wprog_pinned) then true else false) '
                                                            '(if list_eq_dec wop_eq_dec (w_dir_pre g_wprog) (w_dir_pre wprog_pinned) then true else false))',
            'load_dirfile_program_is_the_directory_decoder': 'rprog_ok g_rprog',
            'load_dirfile_header_checks_v2_skip_then_mark': 'if list_eq_dec rop_eq_dec (r_before g_rprog) (r_before rprog_pinned) then true else false',
            'load_dirfile_loops_ext_folder_file_stored_in_that_nesting': 'andb (r_nest_ok g_rprog) (andb (if list_eq_dec rop_eq_dec (app (r_ext_pre g_rprog) (app (r_dir_pre g_rprog) (r_dir_post g_rprog))) nil then true else false) true)',
            'load_dirfile_entry_sentinels_terminator_preload': 'if list_eq_dec fop_eq_dec (r_file_body g_rprog) (r_file_body rprog_pinned) then true else false',
            'load_dirfile_early_exit_after_extension_then_footer': 'andb (if list_eq_dec rop_eq_dec (r_ext_post g_rprog) (r_ext_post rprog_pinned) then true else false) '
                                                                   '(if list_eq_dec rop_eq_dec (r_after g_rprog) (r_after rprog_pinned) then true else false)',
            # the decision tables have a meaning of their own (SM/VpkPlaceTable.v): premises of c13_write_table_is_write_info / c13_read_table_is_read_info
            # are write_placement_table_matches_model / read_and_verify_take_the_bytes_from_where_write_put_them above
            # NUL-terminated strings of the tree (Gen/VpkNullStr_gen.v): premises of c13_nullstr_*
            'nullstr_reader_reads_strings_of_any_length': 'reader_ok (nc_reader g_ncodec)',
            'nullstr_writer_terminates_with_one_nul': 'bytes_eqb (nc_term g_ncodec) (0%N :: nil)',
            'nullstr_reader_dispatch_blank_end_string': 'nc_dispatch g_ncodec',
            'nullstr_same_text_codec_on_both_sides': 'nc_same_codec g_ncodec',
            'nullstr_instance_satisfies_theorem_premises': 'ncodec_ok g_ncodec',
            # nested dicts (Gen/VpkNested_gen.v): premise of c13_nested_delete_is_flat_delete
            'del_cleanup_pops_only_empty_dicts': 'prog_safe g_del_prog',
            'del_cleanup_leaves_no_empty_dict': 'prog_tidy g_del_prog',
            'del_checks_writable_before_touching': 'g_del_checks_writable_first',
            'del_missing_file_raises_keyerror': 'g_del_keyerror',
            'nested_dicts_indexed_ext_folder_name_everywhere': 'g_nest_order_ext_folder_name',
            # premises of c13_nested_map_lookup_after_new_file
            'new_file_reuses_or_creates_the_extension_dict': 'goc_ok g_ins_ext',
            'new_file_reuses_or_creates_the_folder_dict': 'goc_ok g_ins_dir',
            'new_file_rejects_an_existing_name': 'g_ins_exists_check',
            # API around the state machine (Gen/VpkApi_gen.v): premises of c13_api_refines_map / c13_with_block_saves, guards, listing walks
            'exit_saves_iff_no_exception_and_writable': 'exit_table_ok g_exit_table',
            'open_mode_writable_is_w_and_a': 'mode_table_ok g_writable_r g_writable_w g_writable_a',
            'check_writable_raises_iff_not_writable': 'g_check_writable_raises_iff_not_writable',
            'guard_before_any_effect_new_file': 'g_guard_new_file',
            'guard_before_any_effect_add_file': 'g_guard_add_file',
            'guard_before_any_effect_add_folder': 'g_guard_add_folder',
            'guard_before_any_effect_delitem': 'g_guard_delitem',
            'guard_before_any_effect_write_dirfile': 'g_guard_write_dirfile',
            'guard_before_any_effect_fileinfo_write': 'g_guard_fileinfo_write',
            'no_other_method_stores_into_the_archive': 'g_no_other_mutating_method',
            'load_dirfile_empties_the_object_before_reading': 'g_load_dirfile_resets_first',
            'listing_iter_walks_every_file': 'g_walk_iter',
            'listing_len_counts_every_file': 'g_walk_len',
            'listing_filenames_default_walks_every_file': 'g_walk_filenames',
            'listing_fileinfos_default_walks_every_file': 'g_walk_fileinfos',
            # the same two methods executed with their arguments given: premise of c13_listing_tables_list_matching
            'listing_filenames_with_arguments_selects_extension_and_folder_prefix': 'walks_ok g_walks_filenames',
            'listing_fileinfos_with_arguments_selects_extension_and_folder_prefix': 'walks_ok g_walks_fileinfos',
            # premise of c13_extract_all_writes_every_file
            'extract_all_writes_every_file_under_its_listed_name': 'walk_ok false false g_extract_walk',
            'tree_strings_all_go_through_the_codec': 'andb g_tree_strings_read_by_iter_nullstr g_tree_strings_written_by_write_nullstring',
        }, name='vpkinst')
        import time as _t
        t0 = _t.time()
        if os.environ.get('C13_TIMING'):
            print(f'  [timing] instance obligations: {t0 - _T0:.1f}s')
        for fn in (corr_archnames, corr_nullstr, corr_nested, corr_machine, corr_decode, corr_names):
            staged(ck, fn)
            if os.environ.get('C13_TIMING'):
                print(f'  [timing] {fn.__name__}: {_t.time() - t0:.1f}s'); t0 = _t.time()
    t0 = __import__('time').time()
    staged(ck, search)
    staged(ck, folder_stream)
    staged(ck, failed_reload_stream)
    staged(ck, root_and_script_stream)
    if os.environ.get('C13_TIMING'):
        print(f'  [timing] search: {__import__("time").time() - t0:.1f}s')
    keys = {v['key'] for v in ck.violations}
    # failed obligations are explained when the search exhibits the corresponding concrete history
    if any(k.startswith(('content-mismatch:dir-tail', 'verify-failed:dir-tail', 'content-mismatch:limit-over-64k-dir-tail')) for k in keys):
        ck.explain('instance:dir_tail_goes_to_footer_data')
    if 'write_dirfile-exception' in keys or any('over-64k' in k or 'limit-none' in k for k in keys):
        ck.explain('instance:preload_capped_at_16_bits')
    if 'arch-index-unrepresentable' in keys:
        ck.explain('instance:archive_index_validated')
    if 'name-unrepresentable' in keys:
        ck.explain('instance:unrepresentable_names_rejected')
    if keys - {'name-trailing-dot'}:
        # a concrete failing history on the implementation explains a broken format/site obligation or correspondence
        ck.explain('correspondence:')
        ck.explain('instance:')
        ck.explain('translate:')


def replay(data: dict) -> int:
    r = data['replay']
    if 'case' in r:
        case = r['case']
        case = {'cfg': case['cfg'], 'ops': [tuple(tuple(x) if isinstance(x, list) else x for x in o) for o in case['ops']]}
        print('case:', case)
        print('oracle:', check_case(case))
        got = run_impl(case)
        for op, s, e in zip(case['ops'], got['steps'], run_spec(case)):
            print(op, '-> impl code', s['code'], s['err'] or '', '| expected code', e['code'])
            print('    impl  :', s['obs'])
            print('    expect:', {k: (dg(v), True) for k, v in e['map'].items()})
        print('filenames():', got['names'])
        return 0
    for k in ('folder_case', 'root_case', 'script_case'):
        if k in r:
            print(r[k])
            return 0
    if 'fname' in r:
        dp, sites = arch_sites_impl(r['fname'], list(r['indexes']))
        print('VPK file name:', r['fname'], '-> _dir_prefix', repr(dp))
        for i, row in zip(r['indexes'], sites):
            print(f'  archive {i}: FileInfo.write appends to {row[0]!r}; read opens {row[1]!r}; verify opens {row[2]!r}')
        return 0
    print(r)
    return 0
