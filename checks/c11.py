"""C11 — every BSP lump writer is the inverse of its reader; values that do not fit are rejected."""
from __future__ import annotations

import os
import random
import struct
from typing import Any

from harness import c11_util as U
from harness.common import REPO, Ck, coq_list, parse_coq_N_list
from translate import c11_formats, c11_glue

MANIFEST = dict(
    technique='Rocq proof (struct pack/unpack model for all formats, RLE codec, index builders with key functions, work-list loops over '
              'index tables, texture string table, entity lump text, visibility row size, bit fields, flag splits, main overlay block, '
              'PHYSCOLLIDE blocks, DeferredWrites) + generic theorems over format/layout/guard/dispatch/field-order/template/dedup-key/'
              'helper-property/loop-shape/rebuild-order/physics-header tables regenerated from bsp.py, binformat.py and vmf.py by fail-closed '
              'ast translators + vm_compute correspondence (struct, RLE, row size, find_or_insert/extend with and without key, texture table, '
              'entity lump, PHYSCOLLIDE, DeferredWrites; byte-exact) + static-prop format selection tabulated by EXECUTING the heads of '
              '_lmp_read_props / _lmp_write_props over the ast for every (BSP version, header number, record size, format named), compared '
              'exhaustively with the implementation + field-by-field save/re-read oracle incl. histories (file with empty tables read first; '
              'nothing read; format named; save rejected, value repaired in place, saved again) + the commit order of save() as a generated event list',
    text='Theorems in Props/C11.v (65): for every struct format of the modelled language and every fitting record unpack(pack v) = v; '
         'pack succeeds only if every integer is inside its field (out-of-range raises); Ns fields pad and silently truncate, '
         'so a guarded site never truncates; run-length decoding inverts encoding for every byte list, alone and at its offset '
         'inside the lump; an integer expression that passes the decision procedure rowsize_ok equals ceil(n/8) for EVERY cluster count and '
         'then every visibility row is read back through its stored offset; the texture string table returns every NUL-free name of '
         'admissible length at its stored offset whatever storage was shared (searching the bare name is refuted); the entity lump text '
         'is read back exactly for every list of well-formed keyvalues and outputs with either separator when keys, values and output text '
         'fields are escaped (raw keys are refuted); find_or_insert / find_or_extend return indexes that denote the requested items; a '
         'de-duplicating table with ANY key function answers every request with the record of the requested object as soon as the key '
         'determines the record (key_determines; a key by material name is refuted), and the index packed into the referring record leads '
         'the reader back to that record (reference_roundtrip); the loop of a writer over the LIVE list its own find_or_insert appends to '
         '(_lmp_write_nodes) is a work-list closure: when it ends there is exactly one record per table entry at its own index, no object '
         'has two indexes, the listed roots keep their positions, every stored index resolves to the object referred to, the table holds '
         'exactly the objects reachable from the roots, and it ends after at most |reachable|+1 steps (a loop over a snapshot of the list '
         'is refuted: an index is handed out, the record is never written); every loop shape that passes wl_entry_ok has that closure '
         'property; LUMP_REBUILD_ORDER runs every writer that appends to another view before the writer of that view, and then the whole save() '
         'pass - one work-list writer per lump over one table per lump - leaves every list entry of every lump with exactly one record at its '
         'own index and every stored index resolving in the FINAL list of its target lump (save_cross_reference_closure; a reference to a '
         'lump rebuilt earlier is refuted); hi << k | lo is '
         'inverted by shift and mask; a value split over several fields '
         'by helper properties is put together again when the parts tile the bits and the last is unmasked (a masked high part is refuted); '
         'a boolean stored as one of two codes comes back iff the reader compares with the true-code; the main overlay block (3 values, face '
         'array with padding, 22 floats) written by four pack calls is byte for byte the block the reader unpacks and every position is read '
         'back into the attribute it came from, for every face count; every list of physics blocks the PHYSCOLLIDE format can hold (model '
         'index, solids as length + bytes, keyvalues text + NUL, sentinel header) is read back unchanged when both sides use one order of '
         'the four header values, one sentinel and one order of the sections (a swapped header is refuted); a file written with '
         'DeferredWrites (slots reserved, set later, filled in at the end) is the file of a two-pass writer in which every slot holds the '
         'value set last for its key (a slot never set is an error); the sprite dictionary entry of a sprite / shape detail prop is read back slot by slot when both sides name one attribute component per slot (sprite_dict_roundtrip); '
         'the static-prop FORMAT - chosen by the reader of one file from (BSP version, header number, record size), recorded in the BSP object and '
         'used by the writer of the next - is found again by a fresh reader of the saved file in every history that leads to the writer: the lump '
         'was EMPTY when read (the guess made from the header number alone), the lump was never read (the writer\'s fallback and the header '
         'number it sets), the caller named the format (kept by the reader of an empty lump, written under its own header number, found again '
         'when no other format shares header number and record size) - static_prop_format_property, generic over the generated tables; a '
         'first-match guess and a header number left as the opened file had it are refuted; the rebuild loop of save(), read as a list of events '
         '(view leaves the cache / a point that can raise / bytes stored), keeps every view in the cache until nothing can raise for it any more, '
         'so a save() rejected by a value that does not fit leaves the object as it was and can be repeated (rejected_save_keeps_the_view; '
         'popping the view first is refuted). '
         'Generic over the tables generated from today\'s source: every reader/writer site '
         'pair of every lump uses one layout in each of the five layout tables; for 23 record variants (planes, vertexes, primitives, faces, '
         'brush sides, brushes, leaf water data, leafs, nodes, texdata, texinfo, brush models, cubemaps, overlay fades/system levels, the three '
         'detail-prop classes; VitaminSource and v19 variants) the FULL field order of reader and writer agree label by label and the format has exactly that many '
         'values (record_roundtrip); every static-prop version has equal field ladders of the declared size; the overlay face block has the '
         'reader\'s size for every face count; each detail-prop class is written by its own branch; all 28 index tables of the writers have a '
         'key that determines the record; all 8 loops over local index tables reach every entry; the rebuild order is topological for the 28 '
         'append edges. The premises are kernel-checked for '
         'today\'s source on every run (296 obligations). Models are compared byte-exactly with CPython struct, runlength_encode/decode, '
         'binformat.find_or_* (with key functions), binformat.DeferredWrites, _lmp_write/read_textures, write_ent_data/_lmp_read_ents (output '
         'delays / times given as Python ints or bools must be written as decimal numerals with that value, evaluated in Coq), the '
         'PHYSCOLLIDE lump of _lmp_write/read_bmodels; generated lump contents (incl. '
         'near-duplicate objects, and objects reachable ONLY through references of other objects - grafted sub-trees of nodes, leafs, faces, '
         'original faces, brushes, sides, planes, texinfo, texdata at depth >= 2) are assigned to all 20 views '
         'of a base BSP in 7 layouts x 13 static-prop versions, saved, re-read and compared field by field; in a fifth of the worlds the '
         're-read objects are then changed in place and the same BSP object is saved and re-read again; the re-read file has to say by itself '
         'which static-prop format it holds (only V11-in-a-v20-file / Mesa-elsewhere, which no file can tell apart, are named to the reader); '
         'histories: a file whose static-prop / detail-prop / overlay / cubemap tables are empty is read view by view, then a world is '
         'assigned to the same object (every layout x every header number), the same with nothing read, the same with the format named '
         'before the empty lump is read; values that do not fit must raise - and after the rejection the value is repaired in place and the same '
         'object saved again: the second save must write the whole world (7 layouts x 7 views); '
         'every call into the implementation runs under a time limit (a hang is reported as a failing input).',
    note='Partial: instance-name prefixes of outputs and mapversion are searched, not modelled; the static-prop format tables are produced '
         'by a small interpreter (translate/c11_propver.py: if / for over the enum / break / try-except / assignments / helper methods; '
         'fail-closed outside that language) - it is CHECKED, not trusted: every row is compared with the running implementation; what stays '
         'trusted there is that the record loops use the locals `version` / `vers_num` the tables end with (the per-format ladders are '
         'generated separately: prop_layout_agree). Two formats share (header 11, 80 bytes): which one a file holds is decided by the BSP '
         'version alone (20 = Black Mesa\'s variant), so V11 records in a v20 file / Mesa records elsewhere are outside the claim unless the '
         'caller names the format to the reader. The '
         'keyvalues text inside a physics block is opaque (its syntax is C01\'s). The work-list theorem is about the loop shape read from the '
         'source (which list is iterated, live or snapshot, where the finder closure is used); that the body turns EVERY reference of the '
         'record into an index through the finder is covered by record_fields_agree:nodes. Field orders are generated by a name-based '
         'data-flow analysis of each reader/writer (translate/c11_records.py, c11_overlayrec.py) whose '
         'reader/writer site pairing and branch flags (is_vitamin, has_ambient) are hand-written tables (site ordinals count sites of the '
         'normalised tree in tree order). translate/c11_norm.py (struct.Struct constants, single-use pure locals, table-entry aliases, '
         'module constants, early continue, negated if/else; `list(E)` around a loop iterable is dropped only when the function never grows E) '
         'is trusted: it moves a pure expression past pure assignments to other names only. '
         'Hard-wired besides STREAMS/RECORDS: ADMITTED (texture names distinct after casefold), REDUNDANT (Overlay.face_count = len(faces)), '
         'the lists of pure functions. Hand models tied by correspondence only: Bin/BspDeferred.v (DeferredWrites; only defer(write=True) is '
         'modelled, the form bsp.py uses - checked by an obligation for the visibility writer), Fmt/BspPhys.v reader/writer loops (their '
         'configuration is read from the source). f fields are modelled as 32-bit '
         'patterns (CPython float<->float32 conversion trusted). math.ceil(n / 8) is modelled as exact rational ceiling (float division by 8 is '
         'exact below 2^53). The quoted-string scanner used by the entity lump model is Fmt/VmfText.hs (hand model of Tokenizer string '
         'scanning owned by C06), tied here by comparing ent_read with _lmp_read_ents. Entity-lump well-formedness: no ESC in values, no plain '
         'value with exactly four commas, output fields free of the separator in use. Known finding water-leaf-info-writer-uses-self belongs to C10.',
)

IMPORTS = ['Coq.Lists.List', 'Coq.Strings.String', 'Coq.NArith.NArith', 'Coq.ZArith.ZArith', 'Coq.Bool.Bool',
           'SV.Bin.LE', 'SV.Bin.Struct', 'SV.Bin.RLE', 'SV.Bin.FindInsert', 'SV.Fmt.BspFormatsSpec', 'SV.Fmt.BspDedup', 'SV.Gen.BspFormats_gen']
IMPORTS_GLUE = ['Coq.Lists.List', 'Coq.Strings.String', 'Coq.NArith.NArith', 'Coq.ZArith.ZArith', 'Coq.Bool.Bool',
                'SV.Bin.LE', 'SV.Bin.Struct', 'SV.Bin.RLE', 'SV.Fmt.BspFormatsSpec', 'SV.Fmt.BspVisRow', 'SV.Fmt.BspTexStrings',
                'SV.Fmt.BspRecords', 'SV.Fmt.VmfText', 'SV.Fmt.BspEntLump', 'SV.Fmt.BspDedup', 'SV.Fmt.BspFlagSplit', 'SV.Fmt.BspOverlayRec', 'SV.Fmt.BspWorklist', 'SV.Fmt.BspPhys', 'SV.Bin.BspDeferred', 'SV.Fmt.BspSpriteDict', 'SV.Fmt.BspPropVersion', 'SV.Fmt.BspSaveCommit', 'SV.Gen.BspFormats_gen', 'SV.Gen.BspGlue_gen']
PRE = '''Import ListNotations. Open Scope string_scope. Open Scope list_scope.
Fixpoint nl_eqb (a b : list N) : bool := match a, b with [], [] => true | x :: a', y :: b' => N.eqb x y && nl_eqb a' b' | _, _ => false end.
Fixpoint natl_eqb (a b : list nat) : bool := match a, b with [], [] => true | x :: a', y :: b' => Nat.eqb x y && natl_eqb a' b' | _, _ => false end.
Definition val_eqb (a b : value) : bool := match a, b with VInt x, VInt y => Z.eqb x y | VFloat x, VFloat y => N.eqb x y | VBool x, VBool y => Bool.eqb x y | VBytes x, VBytes y => nl_eqb x y | _, _ => false end.
Fixpoint vals_eqb (a b : list value) : bool := match a, b with [], [] => true | x :: a', y :: b' => val_eqb x y && vals_eqb a' b' | _, _ => false end.
Definition on_eqb (a b : option (list N)) : bool := match a, b with Some x, Some y => nl_eqb x y | None, None => true | _, _ => false end.
Fixpoint bad_idx {A} (f : A -> bool) (n : N) (l : list A) : list N := match l with [] => [] | x :: r => (if f x then [] else [n]) ++ bad_idx f (n + 1) r end.
Definition chk_pack (c : string * list value * option (list N)) : bool :=
  let '(s, vs, e) := c in match parse_fmt s with None => false | Some f =>
    on_eqb (pack f vs) e && (if fits f vs then match pack f vs with Some bs => match unpack f bs with Some vs' => vals_eqb vs vs' | None => false end | None => false end else true) end.
Definition chk_unpack (c : string * list N * list value) : bool :=
  let '(s, bs, vs) := c in match parse_fmt s with None => false | Some f => match unpack f bs with Some vs' => vals_eqb vs vs' | None => false end end.
Definition chk_enc (c : list N * list N) : bool := nl_eqb (rle_encode (fst c)) (snd c).
Definition chk_dec (c : (option nat * nat * list N) * option (list N)) : bool := let '((w, st, d), e) := c in on_eqb (rle_decode w st d) e.
Definition chk_fi (c : list N * list N * (list N * list nat)) : bool :=
  let '(l, ks, (fl, is)) := c in let '(s, r) := fi_run (fi_init l) ks in nl_eqb (items s) fl && natl_eqb r is.
Definition chk_fe (c : list N * list (list N) * (list N * list nat)) : bool :=
  let '(l, subs, (fl, is)) := c in let '(k, r) := fe_run find_or_extend_bounded l subs in nl_eqb k fl && natl_eqb r is.
Fixpoint pl_eqb (a b : list (N * N)) : bool := match a, b with [], [] => true | (x, p) :: a', (y, q) :: b' => N.eqb x y && N.eqb p q && pl_eqb a' b' | _, _ => false end.
Definition chk_dd (c : list (N * N) * list (N * N) * (list (N * N) * list nat)) : bool :=
  let '(l, xs, (fl, is)) := c in
  let '(s, r) := dd_run (fun p : N * N => fst p) N.eqb (dd_init (fun p : N * N => fst p) l) xs in pl_eqb (fst s) fl && natl_eqb r is.
'''


def nlist(b) -> str:
    return '[' + ';'.join(str(int(x)) for x in b) + ']%N'


def natlist(b) -> str:
    return '[' + ';'.join(str(int(x)) for x in b) + ']%nat'


# ------------------------------------------------------------------------------------------------ struct correspondence
CODES = {'b': (True, 1), 'B': (False, 1), 'h': (True, 2), 'H': (False, 2), 'i': (True, 4), 'I': (False, 4)}


def fmt_fields(fmt: str) -> list[str]:
    """value fields of a '<' format as codes ('s12' for 12s)"""
    import re
    out: list[str] = []
    for cnt, c in re.findall(r'(\d*)([a-zA-Z?])', fmt.lstrip('<')):
        n = int(cnt) if cnt else 1
        if c == 's':
            out.append(f's{n}')
        elif c == 'x':
            pass
        else:
            out += [c] * n
    return out


def gen_value(rng: random.Random, code: str, bad: bool) -> tuple[Any, str]:
    """A Python value for one field and its Coq literal."""
    if code in CODES:
        signed, w = CODES[code]
        lo, hi = (-(1 << (8 * w - 1)), (1 << (8 * w - 1)) - 1) if signed else (0, (1 << (8 * w)) - 1)
        if bad:
            v = rng.choice([hi + 1, lo - 1, hi + rng.randint(1, 1 << 33), lo - rng.randint(1, 1 << 33)])
        else:
            v = rng.choice([lo, hi, 0, 1, rng.randint(lo, hi), rng.randint(lo, hi)])
            if rng.random() < 0.04:
                b = rng.random() < 0.5
                return b, f'VBool {"true" if b else "false"}'
        return v, f'VInt ({v})'
    if code == 'f':
        while True:
            bits = rng.choice([0, 0x80000000, 0x3F800000, 0x7F800000, 0xFF800000, 1, 0x7F7FFFFF, rng.getrandbits(32)])
            x = struct.unpack('<f', struct.pack('<I', bits))[0]
            if x == x:
                return x, f'VFloat {bits}'
    if code == '?':
        k = rng.random()
        if k < 0.7:
            b = rng.random() < 0.5
            return b, f'VBool {"true" if b else "false"}'
        if k < 0.85:
            v = rng.choice([0, 1, 2, -1, 255])
            return v, f'VInt ({v})'
        bs = bytes(rng.randint(0, 255) for _ in range(rng.choice([0, 1, 3])))
        return bs, f'VBytes {nlist(bs)}'
    if code.startswith('s'):
        n = int(code[1:])
        ln = rng.choice([n, n, 0, max(0, n - 1), n + 1, n + rng.randint(1, 9), rng.randint(0, n)])
        bs = bytes(rng.randint(0, 255) for _ in range(ln))
        return bs, f'VBytes {nlist(bs)}'
    raise ValueError(code)


def py_to_coq_value(v: Any, code: str) -> str:
    if code in CODES:
        return f'VInt ({v})'
    if code == 'f':
        return f'VFloat {struct.unpack("<I", struct.pack("<f", v))[0]}'
    if code == '?':
        return f'VBool {"true" if v else "false"}'
    return f'VBytes {nlist(v)}'


def corr_struct(ck: Ck, side: dict) -> None:
    fmts: set[str] = set()
    for ss in side.get('sites', {}).values():
        for s in ss:
            if s[2] == 'lit' and isinstance(s[3], str):
                fmts.add(s[3])
    for lay in side.get('layouts', {}).values():
        fmts.update(lay.values())
    for v in side.get('prop_versions', {}).values():
        fmts.update(v['read'] + v['write'])
    fmts.add(side.get('overlay', {}).get('reader', '<i'))
    src_fmts = sorted(fmts)
    n = ck.budget(400, 7000)
    pack_cases, unpack_cases = [], []
    rng = ck.rng
    for i in range(n):
        if i < len(src_fmts) * 2:
            fmt = src_fmts[i % len(src_fmts)]
        elif rng.random() < 0.5:
            fmt = rng.choice(src_fmts)
        else:
            parts = []
            for _ in range(rng.randint(1, 7)):
                c = rng.choice('bBhHiIf?xs')
                cnt = rng.choice(['', '', '1', '2', '3', str(rng.randint(0, 12))])
                parts.append(cnt + c + rng.choice(['', '', ' ']))
            fmt = '<' + ''.join(parts)
        native = not fmt.startswith('<')
        fields = fmt_fields(fmt)
        bad = rng.random() < 0.25
        badpos = rng.randrange(len(fields)) if bad and fields else -1
        arity = rng.random() < 0.05
        vals, lits = [], []
        for k, c in enumerate(fields):
            v, lit = gen_value(rng, c, k == badpos and c in CODES)
            vals.append(v)
            lits.append(lit)
        if arity:
            if vals and rng.random() < 0.5:
                vals.pop()
                lits.pop()
            else:
                vals.append(0)
                lits.append('VInt (0)')
        try:
            out: bytes | None = struct.pack(fmt, *vals)
        except (struct.error, OverflowError):
            out = None
        pack_cases.append(f'({_cs(fmt)}, {coq_list(lits)}, {"None" if out is None else "Some " + nlist(out)})')
        ck.count('struct_pack_cases')
        ck.hist('struct_outcome', 'error' if out is None else 'bytes')
        ck.hist('struct_format_origin', 'source' if fmt in fmts else 'random')
        ck.seen(('pack', fmt, tuple(lits)))
        if out is not None and not native:
            # the reading direction on the implementation's own bytes, and on arbitrary bytes for float-free formats
            data = out
            if 'f' not in fields and rng.random() < 0.5:
                data = bytes(rng.randint(0, 255) for _ in range(len(out)))
            got = struct.unpack(fmt, data)
            unpack_cases.append(f'({_cs(fmt)}, {nlist(data)}, {coq_list(py_to_coq_value(v, c) for v, c in zip(got, fields))})')
            ck.count('struct_unpack_cases')
    ck.sample({'struct_pack_case(format, values, CPython bytes or None=error)': pack_cases[len(src_fmts) * 2 + 1][:400]})
    bad_p, bad_u = yield [('chk_pack', 'string * list value * option (list N)', pack_cases, 'struct_pack', None, None),
                          ('chk_unpack', 'string * list N * list value', unpack_cases, 'struct_unpack', None, None)]
    if bad_p is None or bad_u is None:
        ck.obligation('correspondence:struct', False, 'model could not be evaluated')
        ck.tie_broken.append('correspondence struct: model evaluation failed')
        return
    ck.obligation('correspondence:struct', not bad_p and not bad_u,
                  f'{len(pack_cases)} pack cases ({len(src_fmts)} formats of bsp.py + random formats; 25% with an out-of-range integer, '
                  f'5% wrong arity) and {len(unpack_cases)} unpack cases, Bin/Struct.v (vm_compute) vs CPython struct, byte-exact: '
                  f'{len(bad_p)} + {len(bad_u)} disagreements')
    if bad_p or bad_u:
        ck.tie_broken.append('correspondence struct model vs CPython struct')
        ck.extra['struct_disagreement'] = {'pack': [pack_cases[i][:500] for i in bad_p[:3]], 'unpack': [unpack_cases[i][:500] for i in bad_u[:3]]}


def _cs(s: str) -> str:
    return '"' + s + '"'


def _eval_cases(ck: Ck, fn: str, ty: str, cases: list[str], name: str, imports: list[str] | None = None,
                pre: str | None = None) -> list[int] | None:
    bad: list[int] = []
    for lo in range(0, len(cases), 400):
        part = cases[lo:lo + 400]
        vals = ck.coq_eval(imports or IMPORTS, [f'bad_idx (fun c : {ty} => {fn} c) 0 {coq_list(part)}'], name=f'{name}{lo}',
                           preamble=PRE if pre is None else pre)
        if vals is None:
            return None
        bad += [lo + i for i in parse_coq_N_list(vals[0])]
    return bad


def start_correspondences(ck: Ck, gens: list) -> tuple[Any, list]:
    """Each correspondence is a generator: it produces its cases on the implementation (main thread, in the fixed order that keeps
    ck.rng deterministic), yields the evaluation requests for the model, and is resumed (finish_correspondences) with the lists of
    disagreeing cases.  The coqc runs of all correspondences overlap with each other (at most 4 at a time) and with whatever the main
    thread does until finish_correspondences is called (the search on the implementation)."""
    from concurrent.futures import ThreadPoolExecutor
    pending = []
    ex = ThreadPoolExecutor(max_workers=4)
    for g in gens:
        name = getattr(g, '__name__', 'correspondence')
        try:
            # the cases are produced by calling the implementation: a fault that makes it loop (a decoder that does not advance, a
            # table search that never ends) must end as a failing input, not as a hung check.  Producing the cases of one
            # correspondence takes 1-8 s (quick) / up to 2 min (thorough) on a loaded machine.
            with U.time_limit(ck.budget(150, 3000)):
                reqs = next(g)
        except StopIteration:
            continue
        except Exception as e:      # noqa: BLE001
            # an unexpected exception raised INSIDE the implementation while the cases are produced is a finding with a replay (the
            # call stack), not an internal error of the check; an exception raised by the check's own code is re-raised
            tb = __import__('traceback').extract_tb(e.__traceback__)
            if not tb or '/srctools/' not in tb[-1].filename:
                ex.shutdown(wait=False, cancel_futures=True)
                raise
            ck.obligation('correspondence:' + name.replace('corr_', ''), False, f'the implementation raised {type(e).__name__} while the cases were produced')
            ck.violation('crash:' + name, f'{type(e).__name__}: {e} raised inside the implementation on an input generated by {name}'[:300],
                         {'stage': name, 'error': f'{type(e).__name__}: {e}'[:300], 'how': f'checks/c11.py {name}: run the check',
                          'stack': [f'{f.filename.split("/")[-1]}:{f.lineno} {f.name}' for f in tb][-6:]})
            ck.explain('correspondence:' + name.replace('corr_', ''))
            continue
        except U.ImplTimeout as e:
            ck.obligation('correspondence:' + name.replace('corr_', ''), False, f'the implementation did not return while the cases were produced: {e}')
            ck.violation('hang:' + name, f'a call into the implementation made by {name} did not return ({e}); the call stack at the time is in the replay',
                         {'stage': name, 'how': f'checks/c11.py {name}: run the check; the stage calls the implementation on generated inputs',
                          'stack': [f'{f.filename.split("/")[-1]}:{f.lineno} {f.name}' for f in __import__('traceback').extract_tb(e.__traceback__)][-6:]})
            ck.explain('correspondence:' + name.replace('corr_', ''))
            continue
        pending.append((g, [ex.submit(_eval_cases, ck, fn, ty, cases, name, imp, pre) for fn, ty, cases, name, imp, pre in reqs]))
    return ex, pending


def finish_correspondences(ex: Any, pending: list) -> None:
    try:
        for g, futs in pending:
            try:
                g.send([f.result() for f in futs])
            except StopIteration:
                pass
    finally:
        ex.shutdown(wait=True)


def theorems_parallel(ck: Ck, props_file: str, chunks: int = 4) -> None:
    """ck.theorems (Print Assumptions of every theorem of the Props file), cheaper: every single query walks the whole dependency
    closure again (0.4-1 s per theorem, 25 s of CPU for 55 theorems).  First ONE query for the tuple of all theorems: its assumptions are
    the union of theirs, so "Closed under the global context" for the tuple means closed for each.  Only if that is not the answer the
    theorems are queried one by one (split over several coqc processes)."""
    import re
    from concurrent.futures import ThreadPoolExecutor

    from harness.common import ROCQ, _split_assumptions
    names = re.findall(r"^\s*(?:Theorem|Lemma|Corollary)\s+([A-Za-z0-9_']+)", (ROCQ / props_file).read_text(), re.M)
    mod = 'SV.' + props_file[:-2].replace('/', '.')
    rc, out = ck.coq_scratch(f'Require Import {mod}.\nDefinition all_theorems_of_the_file := ({", ".join(names)}).\n'
                             'Print Assumptions all_theorems_of_the_file.\n', 'assumptions_all')
    if rc == 0 and _split_assumptions(out, 1)[0] == [] and 'Closed under the global context' in out:
        for n in names:
            ck.axioms[n] = []
            ck.obligation(f'theorem:{n}', True, 'Qed; axioms: none (closed under the global context; one Print Assumptions of the tuple of all '
                                                f'{len(names)} theorems of {props_file})')
        return
    parts = [names[i::chunks] for i in range(chunks) if names[i::chunks]]

    def one(k: int) -> tuple[int, str]:
        return ck.coq_scratch(f'Require Import {mod}.\n' + ''.join(f'Print Assumptions {n}.\n' for n in parts[k]), f'assumptions{k}')
    with ThreadPoolExecutor(max_workers=chunks) as ex:
        res = list(ex.map(one, range(len(parts))))
    for part, (rc, out) in zip(parts, res):
        if rc != 0:
            ck.obligation(f'assumptions:{props_file}', False, out[-2000:])
            ck.tie_broken.append(f'Print Assumptions failed for {props_file}')
            continue
        for n, b in zip(part, _split_assumptions(out, len(part))):
            ck.axioms[n] = b
            ck.obligation(f'theorem:{n}', True, 'Qed; axioms: ' + ('none (closed under the global context)' if not b else ', '.join(b)))


# ------------------------------------------------------------------------------------------------ RLE correspondence
def gen_row(rng: random.Random) -> bytes:
    out = bytearray()
    for _ in range(rng.choice([0, 1, 2, 4, 8])):
        run = rng.choice([1, 1, 2, 3, 7, 254, 255, 256, 257, 509, 510, 511, 700])
        if rng.random() < 0.5:
            out += bytes(run)
        else:
            out += bytes(rng.randint(1, 255) for _ in range(min(run, 9)))
    return bytes(out)


def corr_rle(ck: Ck) -> None:
    from srctools.bsp import runlength_decode, runlength_encode
    n = ck.budget(140, 2000)
    enc, dec = [], []
    rng = ck.rng
    corpus = [b'', b'\0', b'\1', bytes(255), bytes(256), bytes(510), bytes(511) + b'\7', b'\1\0\0\2' + bytes(300)]
    for i in range(n):
        d = corpus[i] if i < len(corpus) else gen_row(rng)
        with U.time_limit(U.IMPL_TIME_LIMIT):
            e = bytes(runlength_encode(d))
        enc.append(f'({nlist(d)}, {nlist(e)})')
        ck.count('rle_encode_cases')
        ck.hist('rle_row_len', min(len(d) // 100 * 100, 2000))
        if d.count(0) and len(d) > 1:
            ck.seen(('rle', d))
        # decoding: the row inside a lump (prefix + row + following rows), with the reader's offset and length
        pre = bytes(rng.randint(0, 255) for _ in range(rng.choice([0, 0, 3, 9])))
        rest = b''.join(bytes(runlength_encode(gen_row(rng))) for _ in range(rng.choice([0, 1, 2])))
        stream = pre + e + rest
        k = rng.random()
        if k < 0.5:
            mc, want = (len(d) * 8 - rng.choice([0, 0, 1, 7]) if d else 0), None
        elif k < 0.7:
            mc = rng.randint(0, max(1, len(d) * 8 + 20))
        elif k < 0.8:
            mc = -1
        else:   # malformed: arbitrary bytes, possibly a dangling zero
            stream = bytes(rng.choice([0, 0, 1, 2, 255]) for _ in range(rng.randint(0, 12)))
            pre = stream[:rng.randint(0, len(stream))]
            mc = rng.choice([-1, rng.randint(0, 64)])
        mc = max(mc, -1)
        try:
            with U.time_limit(U.IMPL_TIME_LIMIT):
                r: bytes | None = bytes(runlength_decode(stream, len(pre), mc))
        except IndexError:
            r = None
        want_s = 'None' if mc == -1 else f'Some {(mc + 7) // 8}%nat'
        dec.append(f'(({want_s}, {len(pre)}%nat, {nlist(stream)}), {"None" if r is None else "Some " + nlist(r)})')
        ck.count('rle_decode_cases')
        ck.hist('rle_decode_outcome', 'IndexError' if r is None else 'bytes')
    ck.sample({'rle_encode_case(row, implementation bytes)': enc[7][:300]})
    be, bd = yield [('chk_enc', 'list N * list N', enc, 'rle_enc', None, None),
                    ('chk_dec', '(option nat * nat * list N) * option (list N)', dec, 'rle_dec', None, None)]
    if be is None or bd is None:
        ck.obligation('correspondence:rle', False, 'model could not be evaluated')
        ck.tie_broken.append('correspondence RLE: model evaluation failed')
        return
    ck.obligation('correspondence:rle', not be and not bd,
                  f'{len(enc)} rows encoded and {len(dec)} streams decoded (offsets, cluster limits, malformed streams), Bin/RLE.v vs '
                  f'runlength_encode/runlength_decode, byte-exact: {len(be)} + {len(bd)} disagreements')
    if be or bd:
        ck.tie_broken.append('correspondence RLE model vs bsp.runlength_encode/decode')
        ck.extra['rle_disagreement'] = {'enc': [enc[i][:400] for i in be[:3]], 'dec': [dec[i][:400] for i in bd[:3]]}


# ------------------------------------------------------------------------------------------------ row size + texture table
PRE_GLUE = '''Import ListNotations. Open Scope list_scope.
Fixpoint bad_idx {A} (f : A -> bool) (n : N) (l : list A) : list N := match l with [] => [] | x :: r => (if f x then [] else [n]) ++ bad_idx f (n + 1) r end.
Fixpoint natl_eqb (a b : list nat) : bool := match a, b with [], [] => true | x :: a', y :: b' => Nat.eqb x y && natl_eqb a' b' | _, _ => false end.
Definition onl_eqb (a b : option (list N)) : bool := match a, b with Some x, Some y => nl_eqb x y | None, None => true | _, _ => false end.
Fixpoint onls_eqb (a b : list (option (list N))) : bool := match a, b with [], [] => true | x :: a', y :: b' => onl_eqb x y && onls_eqb a' b' | _, _ => false end.
Definition chk_row (c : Z * Z) : bool := Z.eqb (reval vis_row_reader (fst c)) (snd c).
Definition chk_tex (c : list (list N) * (list N * list nat) * list (option (list N))) : bool :=
  let '(names, (d, o), rd) := c in let '(ss, sa, _, win) := tex_cfg in
  let '(d', o') := tex_write ss sa names in nl_eqb d d' && natl_eqb o o' && onls_eqb (map (tex_read win d') o') rd.
'''


def corr_rowsize(ck: Ck) -> None:
    """The translated row-size expression against runlength_decode itself: decoding a long run of non-zero bytes with
    max_clusters = n returns exactly ret_bytes bytes.  Directly also: two rows back to back must be read back."""
    from srctools.bsp import runlength_decode, runlength_encode
    hi = ck.budget(200, 1200)
    probe = bytes([1]) * (hi // 8 + 40)
    cases = []
    for n in range(0, hi):
        with U.time_limit(U.IMPL_TIME_LIMIT):
            got = len(runlength_decode(probe, 0, n))
        cases.append(f'(({n})%Z, ({got})%Z)')
        ck.count('row_size_cases')
        # the property itself on the implementation: a row of ceil(n/8) bytes followed by another row
        w = (n + 7) // 8
        row = bytes((37 * n + 11 * i) % 251 + 1 if (i + n) % 3 else 0 for i in range(w))
        nxt = bytes((91 * n + 7 * i) % 255 + 1 for i in range(max(w, 1)))
        with U.time_limit(U.IMPL_TIME_LIMIT):
            data = bytes(runlength_encode(row)) + bytes(runlength_encode(nxt))
            back = bytes(runlength_decode(data, 0, n))
        if back != row and n > 0:      # a lump with no clusters has no rows
            ck.violation('visibility:row-size:' + ('multiple-of-8' if n % 8 == 0 else f'count-mod-8={n % 8}'),
                         f'a visibility row for {n} clusters ({w} bytes) followed by the next row is read back as {len(back)} bytes',
                         {'clusters': n, 'row': list(row), 'next_row': list(nxt), 'read_back': list(back),
                          'how': 'runlength_decode(runlength_encode(row) + runlength_encode(next_row), 0, clusters)'})
    [bad] = yield [('chk_row', 'Z * Z', cases, 'rowsize', IMPORTS_GLUE, PRE_GLUE)]
    if bad is None:
        ck.obligation('correspondence:vis_row_size', False, 'model could not be evaluated')
        ck.tie_broken.append('correspondence row size: model evaluation failed')
        return
    ck.obligation('correspondence:vis_row_size', not bad,
                  f'translated expression `{ck.extra.get("translated", {}).get("BspGlue_gen", {}).get("vis_row_reader")}` evaluated in Coq vs '
                  f'len(runlength_decode(non-zero bytes, 0, n)) for every n < {hi}: {len(bad)} disagreements')
    if bad:
        ck.tie_broken.append('correspondence translated row-size expression vs runlength_decode')


def corr_tex(ck: Ck, base: str) -> None:
    """Model of the texture string table (configured with what the translator read) vs _lmp_write_textures/_lmp_read_textures,
    exhaustively for all lists of at most 3 names of at most 2 letters over {A, B} (399 lists) plus random longer ones;
    directly: every name must be read back."""
    import itertools

    import srctools.bsp as B
    b = B.BSP(base)
    alpha = [b'', b'A', b'B', b'AA', b'AB', b'BA', b'BB']
    lists: list[list[bytes]] = []
    for k in (1, 2, 3):
        lists += [list(t) for t in itertools.product(alpha, repeat=k)]
    rng = ck.rng
    for _ in range(ck.budget(60, 1500)):
        pool = [bytes(rng.choice(b'AB/_\xe9') for _ in range(rng.choice([1, 2, 3, 5, 9]))) for _ in range(4)]
        names = []
        for _ in range(rng.randint(2, 7)):
            x = rng.choice(pool)
            k = rng.random()
            names.append(x if k < 0.4 else x[rng.randrange(len(x)):] if k < 0.6 else x[:rng.randrange(len(x) + 1)] if k < 0.8
                         else x + rng.choice(pool))
        lists.append(names)
    cases = []
    for names in lists:
        strs = [n.decode('ascii', 'surrogateescape') for n in names]
        data = b._lmp_write_textures(strs)
        table = b.lumps[B.BSP_LUMPS.TEXDATA_STRING_TABLE].data
        offs = list(struct.unpack(f'<{len(table) // 4}i', table))
        try:
            back: list[str] | None = list(b._lmp_read_textures(data))
        except ValueError:
            back = None
        ck.count('texture_table_cases')
        ck.hist('texture_table_shared', 'shared' if len(set(offs)) < len(offs) or len(data) < sum(len(n) + 1 for n in names) else 'all-new')
        if len(data) < sum(len(n) + 1 for n in set(names)):
            ck.seen(('tex', tuple(names)))
        if back != strs:
            wrong = [i for i, (x, y) in enumerate(zip(strs, back or []))if x != y]
            cls = 'unreadable' if back is None else 'name-inside-earlier-name'
            ck.violation('textures:string-table:' + cls,
                         f'texture names {strs!r} are read back as {back!r} (offsets {offs}, data {data!r})',
                         {'names': strs, 'read_back': back, 'offsets': offs, 'first_wrong': wrong[:1],
                          'how': 'bsp._lmp_write_textures(names); bsp._lmp_read_textures(result)'})
        rd = '[' + ';'.join('None' if back is None else f'Some {nlist(x.encode("ascii", "surrogateescape"))}' for x in (back or strs)) + ']'
        if back is not None:
            cases.append(f'({coq_list(nlist(n) for n in names)}, ({nlist(data)}, {natlist(offs)}), {rd})')
    ck.sample({'texture_table_case(names, (data block, offsets), names read back)': cases[30][:300]})
    [bad] = yield [('chk_tex', 'list (list N) * (list N * list nat) * list (option (list N))', cases, 'tex', IMPORTS_GLUE, PRE_GLUE)]
    if bad is None:
        ck.obligation('correspondence:texdata_strings', False, 'model could not be evaluated')
        ck.tie_broken.append('correspondence texture string table: model evaluation failed')
        return
    ck.obligation('correspondence:texdata_strings', not bad,
                  f'{len(cases)} name lists (all 399 lists of <= 3 names of <= 2 letters over {{A,B}} + random lists with prefixes, tails, '
                  f'concatenations), Fmt/BspTexStrings.v configured from the source vs _lmp_write_textures/_lmp_read_textures '
                  f'(data block, offsets, names read back): {len(bad)} disagreements')
    if bad:
        ck.tie_broken.append('correspondence texture string table model vs bsp.py')
        ck.extra['tex_disagreement'] = [cases[i][:400] for i in bad[:3]]


# ------------------------------------------------------------------------------------------------ entity lump text
PRE_ENT = PRE_GLUE + '''
Definition is_digit (c : N) : bool := (48 <=? c)%N && (c <=? 57)%N.
Definition digits (l : list N) : bool := match l with [] => false | _ => forallb is_digit l end.
Fixpoint dropws (l : list N) : list N := match l with c :: r => if (c =? 32)%N || (c =? 9)%N || (c =? 10)%N then dropws r else l | [] => [] end.
Definition trim (l : list N) : list N := rev (dropws (rev (dropws l))).
Definition int_ok (l0 : list N) : bool := let l := trim l0 in match l with 45%N :: r => digits r | 43%N :: r => digits r | _ => digits l end.
Definition float_ok (l0 : list N) : bool := let l := trim l0 in match l with [] => false | _ => forallb (fun c => is_digit c || (c =? 46)%N || (c =? 45)%N || (c =? 43)%N || (c =? 101)%N) l end
  && existsb is_digit l.
Fixpoint nls_eqb (a b : list (list N)) : bool := match a, b with [], [] => true | x :: a', y :: b' => nl_eqb x y && nls_eqb a' b' | _, _ => false end.
Definition item_eqb (a b : item) : bool := match a, b with IKV k v, IKV k' v' => nl_eqb k k' && nl_eqb v v' | IOut n f, IOut n' f' => nl_eqb n n' && nls_eqb f f' | _, _ => false end.
Fixpoint items_eqb (a b : list item) : bool := match a, b with [], [] => true | x :: a', y :: b' => item_eqb x y && items_eqb a' b' | _, _ => false end.
Fixpoint ents_eqb (a b : list (list item)) : bool := match a, b with [], [] => true | x :: a', y :: b' => items_eqb x y && ents_eqb a' b' | _, _ => false end.
(* keyvalues first (in order), then outputs (in order): what the implementation's Entity keeps *)
Definition canon (e : list item) : list item := filter (fun i => match i with IKV _ _ => true | _ => false end) e ++ filter (fun i => match i with IOut _ _ => true | _ => false end) e.
Definition chk_ent_write (c : bool * list (list item) * list N) : bool :=
  let '(comma, ents, bytes) := c in nl_eqb (write_ents ent_cfg (if comma then COMMA else ent_output_sep) ents) bytes.
Definition chk_ent_read (c : list N * option (list (list item))) : bool :=
  let '(bytes, expect) := c in
  match ent_read float_ok int_ok bytes, expect with
  | Some got, Some want => ents_eqb (map canon got) want
  | None, None => true
  | _, _ => false
  end.
(* the value of a decimal numeral: digits, optionally after one '-' *)
Fixpoint dec_acc (l : list N) (acc : Z) : option Z := match l with [] => Some acc | c :: r => if is_digit c then dec_acc r (acc * 10 + Z.of_N (c - 48)%N)%Z else None end.
Definition dec_val (l : list N) : option Z := match l with [] => None | 45%N :: [] => None | 45%N :: r => option_map Z.opp (dec_acc r 0%Z) | _ => dec_acc l 0%Z end.
Definition chk_ent_int (c : Z * list N) : bool := match dec_val (snd c) with Some z => Z.eqb z (fst c) | None => false end.
Definition chk_ent_ok (c : list N * bool) : bool :=
  let '(bytes, ok) := c in Bool.eqb (match ent_read float_ok int_ok bytes with Some _ => true | None => false end) ok.
'''


def corr_ent(ck: Ck) -> None:
    """write_ents (template modes read from the source) vs BSP.write_ent_data byte for byte; ent_read vs _lmp_read_ents on the
    written lumps (content) and on damaged lumps (accepted / rejected).  Directly: what is written must be read back."""
    import srctools.bsp as B
    from srctools.vmf import VMF, Entity, Output
    rng = ck.rng
    n = ck.budget(60, 800)

    def bs(x: str) -> bytes:
        return x.encode('ascii', 'surrogateescape')

    def txt(alpha: str, lens=(0, 1, 2, 4, 7)) -> str:
        return ''.join(rng.choice(alpha) for _ in range(rng.choice(lens)))
    A_KEY = 'abK_1 "\\nt\t\n\udce9'
    A_VAL = 'abc01 "\\n\t\n\udce9,;'
    wr, rd, okc = [], [], []
    dmg_msgs: list[str] = []
    nums: list[str] = []
    nums_src: list[tuple] = []
    # delays as callers give them: floats, integer-valued floats, Python ints (whole seconds; multiples of ten), bools
    DELAYS = [0.0, 1.0, 0.5, 2.25, 10.0, 0.125, 1e6, 100.0, 30.0, 0, 1, 10, 100, 30, 20, 1000, 7, 12, True, False]
    for i in range(n):
        comma = rng.random() < 0.5
        vmf = VMF()
        vmf.spawn['classname'] = 'worldspawn'
        ents = [vmf.spawn]
        for _ in range(rng.choice([0, 1, 2, 3])):
            e = Entity(vmf, {'classname': rng.choice(['info_target', 'logic_relay'])})
            vmf.add_ent(e)
            ents.append(e)
        for e in ents:
            for _ in range(rng.choice([0, 1, 2, 4])):
                k = txt(A_KEY, (1, 2, 3, 5))
                if k.casefold() in ('classname', 'model', 'mapversion') or k == '\0':
                    continue
                if rng.random() < 0.2:      # a value that looks like an output in the old style
                    parts = [txt('ab1', (0, 1, 2)) for _ in range(3)] + [rng.choice(['1', '0', '25', 'x', '', 'a1']), rng.choice(['1', '-1', '7', 'y', ''])]
                    v = ','.join(parts)
                else:
                    v = txt(A_VAL)
                    if v.count(',') == 4:
                        v = v.replace(',', ';')
                e[k] = v
            for _ in range(rng.choice([0, 0, 1, 2])):
                fa = 'abT1 "\\n\t\udce9' + ('' if comma else ',')
                e.add_out(Output(txt(fa, (1, 3, 6)), txt(fa), txt(fa), txt(fa + ('\n' if True else '')),
                                 rng.choice(DELAYS), times=rng.choice([-1, 1, 5, 0, 10, 100]), comma_sep=comma))
                o = e.outputs[-1]
                # the number format of the output line, judged on its own: a delay / times given as a Python int (or bool) n must be
                # written as a decimal numeral denoting n (the two last fields of the line cannot contain the separator)
                line = o.as_keyvalue()
                flds = line.rstrip('\n').rstrip('"').rsplit(',' if comma else Output.SEP, 2)
                for nm, val, text_ in (('delay', o.delay, flds[-2] if len(flds) == 3 else line), ('times', o.times, flds[-1])):
                    if isinstance(val, int):
                        nums.append(f'(({int(val)})%Z, {nlist(bs(text_))})')
                        nums_src.append((nm, val, comma, line))
                        ck.count('ent_lump_int_number_cases')
                        ck.hist('ent_lump_int_delay', repr(val) if nm == 'delay' else 'times')
        model = []
        for e in ents:
            its = [f'IKV {nlist(bs(k))} {nlist(bs(v))}' for k, v in e.items()]
            its += [f'IOut {nlist(bs(o.exp_out()))} {coq_list(nlist(bs(x)) for x in (o.target, o.exp_in(), o.params, format(o.delay, "g"), str(o.times)))}'
                    for o in e.outputs]
            model.append(coq_list(its))
        data = B.BSP.write_ent_data(vmf, comma, _show_dep=False)
        wr.append(f'({"true" if comma else "false"}, {coq_list(model)}, {nlist(data)})')
        ck.count('ent_lump_write_cases')
        ck.hist('ent_lump_separator', 'comma' if comma else 'esc')
        if any(c in data for c in b'\\'):
            ck.seen(('ent', data))
        b = B.BSP.__new__(B.BSP)
        b.out_comma_sep = None
        try:
            back = b._lmp_read_ents(data)
        except Exception as exc:   # noqa: BLE001
            back = None
            err = f'{type(exc).__name__}: {exc}'[:160]

        def canon(e) -> list:
            return [('kv', k, v) for k, v in e.items()] + [('out', o.exp_out(), o.target, o.exp_in(), o.params, format(o.delay, 'g'), o.times) for o in e.outputs]
        want = [canon(e) for e in ents]
        got = None if back is None else [canon(e) for e in [back.spawn] + list(back.entities)]
        looks_like_output = any(v.count(',') == 4 for e in ents for _, v in e.items())
        if got != want and not looks_like_output:
            bad = next((j for j, (x, y) in enumerate(zip(want, got or [])) if x != y), 0)
            specials = sorted({c for e in ents for k, _ in e.items() for c in k if c in '"\\'})
            cls = ('key-with-quote-or-backslash' if specials and (back is None or [x for x in want[bad] if x[0] == 'kv'] != [x for x in (got[bad] if got and bad < len(got) else []) if x[0] == 'kv'])
                   else 'unreadable' if back is None else 'content')
            ck.violation('ents:text:' + cls,
                         f'entity lump written by write_ent_data is read back {"with an error (" + err + ")" if back is None else "differently"}: '
                         f'entity #{bad} wrote {want[bad]!r}' + ('' if got is None or bad >= len(got) else f', read {got[bad]!r}'),
                         {'lump': list(data), 'comma_sep': comma, 'entity': bad, 'wrote': repr(want[bad]),
                          'how': 'bsp._lmp_read_ents(bytes(lump)) after BSP.write_ent_data(vmf, comma_sep)'})
        # reading direction of the model: the written lump (content), and a damaged copy (accepted or not)
        if back is not None and all(len({k.casefold() for k, _ in e.items()}) == len(list(e.items())) for e in ents):
            rd.append(f'({nlist(data)}, Some {coq_list(model_canon(e) for e in [back.spawn] + list(back.entities))})')
            ck.count('ent_lump_read_cases')
        dmg = bytearray(data)
        first_end = data.index(b'}\n') + 2     # the worldspawn block stays intact: its classname test is not text-layer
        if first_end >= len(data) - 1:
            continue
        for _ in range(rng.choice([1, 1, 2])):
            k = rng.random()
            pos = rng.randrange(first_end, len(dmg))
            if k < 0.4:
                del dmg[pos]
            elif k < 0.7:
                dmg.insert(pos, rng.choice(b'{}"\n '))
            else:
                dmg[pos] = rng.choice(b'{}"x')
        if 0 in dmg[:-1] or b'/' in dmg or any(c in dmg for c in b"[]()=:+#'") or b'\r' in dmg:
            continue        # comment / operator / bare-word syntax of the tokenizer is outside the model
        b2 = B.BSP.__new__(B.BSP)
        b2.out_comma_sep = None
        msg = ''
        try:
            b2._lmp_read_ents(bytes(dmg))
            ok = True
        except Exception as exc:   # noqa: BLE001
            ok = False
            msg = str(exc)
        if 'must be worldspawn' in msg:
            continue        # the classname test of the first entity is not part of the text layer model
        dmg_msgs.append(msg)
        if not _bare_words(bytes(dmg)):
            okc.append(f'({nlist(dmg)}, {"true" if ok else "false"})')
            ck.count('ent_lump_damaged_cases')
            ck.hist('ent_lump_damaged_outcome', 'accepted' if ok else 'rejected')
    ck.sample({'ent_lump_case(comma_sep, entities as items, bytes written by write_ent_data)': wr[3][:400]})
    b1, b2_, b3, b4 = yield [('chk_ent_write', 'bool * list (list item) * list N', wr, 'ent_w', IMPORTS_GLUE, PRE_ENT),
                         ('chk_ent_read', 'list N * option (list (list item))', rd, 'ent_r', IMPORTS_GLUE, PRE_ENT),
                         ('chk_ent_ok', 'list N * bool', okc, 'ent_d', IMPORTS_GLUE, PRE_ENT),
                         ('chk_ent_int', 'Z * list N', nums, 'ent_n', IMPORTS_GLUE, PRE_ENT)]
    if b4 is None:
        ck.obligation('correspondence:ent_output_int_numbers', False, 'model could not be evaluated')
        ck.tie_broken.append('correspondence entity lump int numbers: model evaluation failed')
    else:
        ck.obligation('correspondence:ent_output_int_numbers', not b4,
                      f'{len(nums)} delay / times fields given as Python ints or bools, as Output.as_keyvalue writes them with either separator: '
                      f'each is a decimal numeral whose value (dec_val, evaluated in Coq) is the int: {len(b4)} disagreements')
        for i in b4[:1]:
            nm, val, comma_, line = nums_src[i]
            ck.violation('ents:text:int-number',
                         f'Output.{nm} = {val!r} (a Python {type(val).__name__}) is written as {line!r}: the {nm} field is not a decimal numeral denoting {int(val)}',
                         {'field': nm, 'value': repr(val), 'comma_sep': comma_, 'line': line,
                          'how': f'Output("OnTrigger", "t", "Kill", "", {val!r} as {nm}, comma_sep={comma_}).as_keyvalue(); the {nm} field must denote {int(val)}'})
            ck.explain('correspondence:ent_output_int_numbers')
    if b1 is None or b2_ is None or b3 is None:
        ck.obligation('correspondence:ent_lump', False, 'model could not be evaluated')
        ck.tie_broken.append('correspondence entity lump: model evaluation failed')
        return
    ck.obligation('correspondence:ent_lump', not b1 and not b2_ and not b3,
                  f'{len(wr)} entity lists written (Fmt/BspEntLump.v write_ents with the modes read from bsp.py/vmf.py vs write_ent_data, byte for byte), '
                  f'{len(rd)} written lumps read (ent_read vs _lmp_read_ents: keys, values, outputs field by field), {len(okc)} damaged lumps '
                  f'(accepted/rejected): {len(b1)} + {len(b2_)} + {len(b3)} disagreements')
    if b1 or b2_ or b3:
        ck.tie_broken.append('correspondence entity lump model vs bsp.py')
        ck.extra['ent_disagreement'] = {'write': [wr[i][:500] for i in b1[:2]], 'read': [rd[i][:500] for i in b2_[:2]],
                                        'damaged': [(bytes(int(x) for x in okc[i].split(']')[0][2:].split(';') if x).decode('latin1'), okc[i].split(',')[-1]) for i in b3[:6]]}


def model_canon(e) -> str:
    def bs(x: str) -> bytes:
        return x.encode('ascii', 'surrogateescape')
    its = [f'IKV {nlist(bs(k))} {nlist(bs(v))}' for k, v in e.items()]
    its += [f'IOut {nlist(bs(o.exp_out()))} {coq_list(nlist(bs(x)) for x in (o.target, o.exp_in(), o.params, format(o.delay, "g"), str(o.times)))}'
            for o in e.outputs]
    return coq_list(its)


def _bare_words(data: bytes) -> bool:
    """Does the lump contain text outside quotes other than braces and white space (the tokenizer's bare strings)?"""
    inq = False
    i = 0
    while i < len(data):
        c = data[i]
        if inq:
            if c == 0x5c:
                i += 1
            elif c == 0x22:
                inq = False
        elif c == 0x22:
            inq = True
        elif c not in b'{} \n\t' and not (c == 0 and i == len(data) - 1):
            return True
        i += 1
    return False


# ------------------------------------------------------------------------------------------------ DeferredWrites correspondence
PRE_DW = PRE_GLUE + '''
Definition chk_dw (c : list dop * option (list N)) : bool := onl_eqb (dwhole (fst c)) (snd c).
'''


def corr_deferred(ck: Ck):
    """Bin/BspDeferred.v (dwhole) vs binformat.DeferredWrites over a BytesIO: random sequences of write / defer(write=True) /
    set_data calls followed by write(); the resulting file byte for byte, or the error (slot never set, key never deferred)."""
    from io import BytesIO

    from srctools.binformat import DeferredWrites
    rng = ck.rng
    cases = []
    for i in range(ck.budget(150, 2500)):
        buf = BytesIO()
        dw = DeferredWrites(buf)
        ops = []
        fmts: dict[int, int] = {}
        ok = True
        shape = rng.random()
        for _ in range(rng.choice([1, 3, 6, 10])):
            k = rng.random()
            key = rng.randint(0, 3)
            try:
                if k < 0.35:
                    bs = bytes(rng.randint(0, 255) for _ in range(rng.choice([0, 1, 2, 5])))
                    buf.write(bs)
                    ops.append(f'DWrite {nlist(bs)}')
                elif k < 0.65:
                    if key in fmts and shape < 0.8:
                        key = max(fmts) + 1         # mostly fresh keys; sometimes a key is deferred twice
                    n = rng.choice([1, 2])
                    dw.defer(key, '<' + 'i' * n, True)
                    fmts[key] = n
                    ops.append(f'DDefer {key} {4 * n}')
                else:
                    if fmts and rng.random() < 0.9:
                        key = rng.choice(sorted(fmts))
                    vals = [rng.randint(-5, 1 << 20) for _ in range(fmts.get(key, 1))]
                    ops.append(f'DSet {key} {nlist(struct.pack("<" + "i" * len(vals), *vals))}')
                    dw.set_data(key, *vals)
            except KeyError:
                ok = False
                break
        if ok and shape > 0.25:
            # finish properly: every slot gets a value
            for key in sorted(fmts):
                if rng.random() < 0.85:
                    vals = [rng.randint(0, 1 << 16) for _ in range(fmts[key])]
                    ops.append(f'DSet {key} {nlist(struct.pack("<" + "i" * len(vals), *vals))}')
                    dw.set_data(key, *vals)
        out: bytes | None = None
        if ok:
            try:
                with U.time_limit(U.IMPL_TIME_LIMIT):
                    dw.write()
                out = buf.getvalue()
            except ValueError:
                out = None
        cases.append(f'({coq_list(ops)}, {"None" if out is None else "Some " + nlist(out)})')
        ck.count('deferred_writes_cases')
        ck.hist('deferred_writes_outcome', 'file' if out is not None else 'error')
        if out is not None and len(fmts) >= 2:
            ck.seen(('dw', tuple(ops)))
    ck.sample({'deferred_writes_case(calls, resulting file or None=error)': cases[min(5, len(cases) - 1)][:400]})
    [bad] = yield [('chk_dw', 'list dop * option (list N)', cases, 'dw', IMPORTS_GLUE, PRE_DW)]
    if bad is None:
        ck.obligation('correspondence:deferred_writes', False, 'model could not be evaluated')
        ck.tie_broken.append('correspondence DeferredWrites: model evaluation failed')
        return
    ck.obligation('correspondence:deferred_writes', not bad,
                  f'{len(cases)} call sequences (write / defer(write=True) / set_data, then write(); keys deferred twice, slots never set, '
                  f'keys never deferred included), Bin/BspDeferred.v dwhole vs binformat.DeferredWrites over BytesIO, byte for byte: {len(bad)} disagreements')
    if bad:
        ck.tie_broken.append('correspondence DeferredWrites model vs binformat.py')
        ck.extra['deferred_disagreement'] = [cases[i][:500] for i in bad[:3]]


# ------------------------------------------------------------------------------------------------ PHYSCOLLIDE correspondence
PRE_PHYS = PRE_GLUE + '''
Fixpoint nls_eqb (a b : list (list N)) : bool := match a, b with [], [] => true | x :: a', y :: b' => nl_eqb x y && nls_eqb a' b' | _, _ => false end.
Definition pb_eqb (a b : pblock) : bool := Z.eqb (pb_index a) (pb_index b) && nls_eqb (pb_solids a) (pb_solids b) && nl_eqb (pb_kvs a) (pb_kvs b).
Fixpoint pbs_eqb (a b : list pblock) : bool := match a, b with [], [] => true | x :: a', y :: b' => pb_eqb x y && pbs_eqb a' b' | _, _ => false end.
Definition mk (x : Z * list (list N) * list N) : pblock := let '(i, s, k) := x in {| pb_index := i; pb_solids := s; pb_kvs := k |}.
Definition chk_phys_w (c : list (Z * list (list N) * list N) * list N) : bool :=
  let '(wo, _, ws, _, _, _, _, _) := phys_config in onl_eqb (write_blocks wo ws (map mk (fst c))) (Some (snd c)).
Definition chk_phys_r (c : list N * list (Z * list (list N) * list N)) : bool :=
  let '(_, ro, _, rs, _, _, _, strip) := phys_config in
  match read_blocks (S (S (List.length (snd c)))) ro rs strip (fst c) with Some bl => pbs_eqb bl (map mk (snd c)) | None => false end.
'''


def corr_phys(ck: Ck, base: str):
    """Fmt/BspPhys.v (configured with the header order / sentinel / section order read from the source) vs the PHYSCOLLIDE lump
    that _lmp_write_bmodels produces (byte for byte) and what _lmp_read_bmodels reads from it (model index, solids, text)."""
    from weakref import WeakKeyDictionary

    import srctools.bsp as B
    from srctools.keyvalues import Keyvalues
    from srctools.math import Vec
    from srctools.vmf import VMF, Entity
    rng = ck.rng
    wc, rc = [], []
    b = B.BSP(base)
    node = b.nodes[0]
    for i in range(ck.budget(40, 600)):
        vmf = VMF()
        vmf.spawn['classname'] = 'worldspawn'
        ents = [vmf.spawn]
        for _ in range(rng.choice([0, 1, 2, 4])):
            e = Entity(vmf, {'classname': 'func_brush'})
            vmf.add_ent(e)
            ents.append(e)
        bm: Any = WeakKeyDictionary()
        want = []
        for k, e in enumerate(ents):
            m = B.BModel(Vec(), Vec(), Vec(), node, [])
            kind = rng.random()
            if kind < 0.7:
                m._phys_solids = [bytes(rng.randint(0, 255) for _ in range(rng.choice([0, 1, 4, 13, 300]))) for _ in range(rng.choice([1, 1, 2, 3]))]
                if rng.random() < 0.8:
                    m.phys_keyvalues = Keyvalues.root(Keyvalues('solid', [Keyvalues('index', str(rng.randint(0, 9))), Keyvalues('mass', '1.5')]),
                                                      *([Keyvalues('materialtable', [])] if rng.random() < 0.5 else []))
            elif kind < 0.8:
                m.phys_keyvalues = Keyvalues.root(Keyvalues('staticsolid', [Keyvalues('index', '0')]))       # text without solids
            bm[e] = m
            if m._phys_solids or m.phys_keyvalues is not None:
                text = m.phys_keyvalues.serialise().encode('ascii') if m.phys_keyvalues is not None else b''
                want.append((k, [bytes(x) for x in m._phys_solids], text))
        b.ents = vmf
        with U.time_limit(U.IMPL_TIME_LIMIT):
            chunks = b''.join(b._lmp_write_bmodels(bm))
        data = b.lumps[B.BSP_LUMPS.PHYSCOLLIDE].data

        def lit(blocks: list) -> str:
            return coq_list(f'(({k})%Z, {coq_list(nlist(x) for x in ss)}, {nlist(t)})' for k, ss, t in blocks)
        wc.append(f'({lit(want)}, {nlist(data)})')
        ck.count('physcollide_write_cases')
        ck.hist('physcollide_blocks', len(want))
        if len(want) >= 2:
            ck.seen(('phys', data))
        try:
            with U.time_limit(U.IMPL_TIME_LIMIT):
                back = b._lmp_read_bmodels(chunks)
            got = [(k, [bytes(x) for x in back[e]._phys_solids], back[e].phys_keyvalues.serialise().encode('ascii'))
                   for k, e in enumerate(ents) if back[e]._phys_solids or back[e].phys_keyvalues is not None]
        except Exception as exc:   # noqa: BLE001
            got = None
            err = f'{type(exc).__name__}: {exc}'[:200]
        if got != want:
            ck.violation('bmodels:physcollide:' + ('unreadable' if got is None else 'content'),
                         f'physics blocks written by _lmp_write_bmodels are read back {"with " + err if got is None else "differently"}: wrote '
                         f'{[(k, [len(x) for x in ss], t) for k, ss, t in want]!r:.300}' + ('' if got is None else f', read {[(k, [len(x) for x in ss], t) for k, ss, t in got]!r:.300}'),
                         {'blocks': [[k, [list(x) for x in ss], t.decode('ascii')] for k, ss, t in want], 'lump': list(data),
                          'how': 'checks/c11.py corr_phys: one BModel per entity with these solids / keyvalues; _lmp_write_bmodels; _lmp_read_bmodels'})
        else:
            rc.append(f'({nlist(data)}, {lit(got)})')
            ck.count('physcollide_read_cases')
    ck.sample({'physcollide_case(blocks (model index, solids, text), lump bytes)': wc[min(3, len(wc) - 1)][:400]})
    b1, b2 = yield [('chk_phys_w', 'list (Z * list (list N) * list N) * list N', wc, 'phys_w', IMPORTS_GLUE, PRE_PHYS),
                    ('chk_phys_r', 'list N * list (Z * list (list N) * list N)', rc, 'phys_r', IMPORTS_GLUE, PRE_PHYS)]
    if b1 is None or b2 is None:
        ck.obligation('correspondence:physcollide', False, 'model could not be evaluated')
        ck.tie_broken.append('correspondence PHYSCOLLIDE: model evaluation failed')
        return
    ck.obligation('correspondence:physcollide', not b1 and not b2,
                  f'{len(wc)} lists of brush models with physics data (0-3 solids of 0-300 bytes, keyvalues text or none): Fmt/BspPhys.v write_blocks '
                  f'configured from the source vs the PHYSCOLLIDE lump of _lmp_write_bmodels, byte for byte; {len(rc)} lumps read: read_blocks vs '
                  f'_lmp_read_bmodels (index, solids, text): {len(b1)} + {len(b2)} disagreements')
    if b1 or b2:
        ck.tie_broken.append('correspondence PHYSCOLLIDE model vs bsp.py')
        ck.extra['phys_disagreement'] = {'write': [wc[i][:500] for i in b1[:2]], 'read': [rc[i][:500] for i in b2[:2]]}


# ------------------------------------------------------------------------------------------------ find_or_* correspondence
def corr_find(ck: Ck) -> None:
    from srctools.binformat import find_or_extend, find_or_insert
    n = ck.budget(300, 3000)
    fi, fe = [], []
    rng = ck.rng
    for i in range(n):
        hi = rng.choice([2, 4, 9])
        init = [rng.randint(0, hi) for _ in range(rng.choice([0, 1, 3, 6]))]
        reqs = [rng.randint(0, hi + 2) for _ in range(rng.choice([1, 4, 9]))]
        lst = list(init)
        f = find_or_insert(lst, lambda x: x)
        idx = [f(k) for k in reqs]
        fi.append(f'({nlist(init)}, {nlist(reqs)}, ({nlist(lst)}, {natlist(idx)}))')
        ck.count('find_or_insert_cases')
        subs = [[rng.randint(0, hi) for _ in range(rng.choice([0, 1, 2, 2, 3]))] for _ in range(rng.choice([1, 3, 6]))]
        if i == 0:
            init, subs = [], [[1, 2], [2, 3]]
        lst2 = list(init)
        g = find_or_extend(lst2, lambda x: x)
        idx2 = [g(list(s)) for s in subs]
        fe.append(f'({nlist(init)}, {coq_list(nlist(s) for s in subs)}, ({nlist(lst2)}, {natlist(idx2)}))')
        ck.count('find_or_extend_cases')
        if len(set(idx2)) > 1:
            ck.seen(('fe', tuple(init), tuple(map(tuple, subs))))
        # direct oracle: every (first, count) must select the requested run of the final table
        for s, k in zip(subs, idx2):
            if s and lst2[k:k + len(s)] != s:
                ck.violation('find_or_extend:tail-overlap',
                             'find_or_extend returned a position where the table does not hold the requested items',
                             {'initial': init, 'requests': subs, 'indexes': idx2, 'final_table': lst2,
                              'how': 'binformat.find_or_extend(list(initial), lambda x: x) applied to each request'})
        for k_, ix in zip(reqs, idx):
            if lst[ix] != k_:
                ck.violation('find_or_insert:wrong-index', 'find_or_insert returned an index holding another key',
                             {'initial': init, 'requests': reqs, 'indexes': idx, 'final_table': lst})
    # find_or_insert with a key function that reads PART of the item: items (key, payload); the table of Fmt/BspDedup.v
    dd = []
    for i in range(n):
        hi = rng.choice([2, 4, 9])
        init = [(rng.randint(0, hi), rng.randint(0, 3)) for _ in range(rng.choice([0, 1, 3, 6]))]
        reqs = [(rng.randint(0, hi + 2), rng.randint(0, 3)) for _ in range(rng.choice([1, 4, 9]))]
        lst3 = list(init)
        h = find_or_insert(lst3, lambda x: x[0])
        idx3 = [h(k) for k in reqs]
        pl = lambda xs: '[' + ';'.join(f'({a},{b})' for a, b in xs) + ']%N'      # noqa: E731
        dd.append(f'({pl(init)}, {pl(reqs)}, ({pl(lst3)}, {natlist(idx3)}))')
        ck.count('find_or_insert_keyed_cases')
        if any(lst3[ix] != k_ for k_, ix in zip(reqs, idx3)):
            ck.seen(('dd', tuple(init), tuple(reqs)))      # non-trivial: some request was answered with ANOTHER record of equal key
    ck.sample({'find_or_extend_case(initial, requests, (final table, indexes))': fe[1][:300]})
    b1, b2, b3 = yield [('chk_fi', 'list N * list N * (list N * list nat)', fi, 'fi', None, None),
                        ('chk_fe', 'list N * list (list N) * (list N * list nat)', fe, 'fe', None, None),
                        ('chk_dd', 'list (N * N) * list (N * N) * (list (N * N) * list nat)', dd, 'dd', None, None)]
    if b3 is None:
        b1 = None
    else:
        b1 = None if b1 is None else b1 + [len(fi) + j for j in b3]
        fi = fi + dd
    if b1 is None or b2 is None:
        ck.obligation('correspondence:find', False, 'model could not be evaluated')
        ck.tie_broken.append('correspondence find_or_insert/extend: model evaluation failed')
        return
    ck.obligation('correspondence:find', not b1 and not b2,
                  f'{len(fi)} find_or_insert (half of them with a key function that reads part of the item: Fmt/BspDedup.v dd_run) and '
                  f'{len(fe)} find_or_extend request sequences, Bin/FindInsert.v (with the bound test read '
                  f'from binformat.py) vs implementation: {len(b1)} + {len(b2)} disagreements')
    if b1 or b2:
        ck.tie_broken.append('correspondence find_or_insert/find_or_extend model vs binformat')
        ck.extra['find_disagreement'] = {'fi': [fi[i][:300] for i in b1[:3]], 'fe': [fe[i][:300] for i in b2[:3]]}


# ------------------------------------------------------------------------------------------------ oracle
def corr_propver(ck: Ck, base: str, glue: dict) -> None:
    """The tables of translate/c11_propver.py (made by executing the heads of _lmp_read_props / _lmp_write_props over the ast) against
    the running implementation, EXHAUSTIVELY: every BSP version x header number 0..15 x format named beforehand for an empty lump; x
    every record size for a lump with one (all-zero) record; every recorded format for the writer (record size written)."""
    import srctools.bsp as B
    from srctools.math import Angle, Vec
    from translate import c11_propver
    t = c11_propver.LAST_TABLES
    if not t or not glue.get('prop_version_choice'):
        return
    SV = B.StaticPropVersion
    b = B.BSP(base)
    b.visleafs      # (parsed now, in the file's own layout: the calls below change `version` under the object's feet)
    leaf_w = struct.calcsize('<' + b.lump_layout['STATICPROPLEAF'].format[1])
    bad: list[str] = []

    def fmt_of(nm: str) -> Any:
        return SV[nm] if nm else SV[t['unknown']]

    def bsp_version(n: int) -> Any:
        try:
            return B.VERSIONS(n)
        except ValueError:
            return n

    def read(bv: int, hdr: int, data: bytes, pre: str) -> str:
        b.version = bsp_version(bv)
        b.static_prop_version = fmt_of(pre)
        try:
            with U.time_limit(U.IMPL_TIME_LIMIT):
                list(b._lmp_read_props(hdr, data))
        except Exception as e:      # noqa: BLE001
            return '!' + type(e).__name__
        v = b.static_prop_version
        return '' if v is SV[t['unknown']] else v.name
    empty = struct.pack('<iii', 0, 0, 0)
    for bv, hdr, pre, want in t['empty']:
        got = read(bv, hdr, empty, pre)
        ck.count('prop_format_table_rows_compared')
        if got != want:
            bad.append(f'empty lump, BSP version {bv}, header {hdr}, named {pre or "-"}: table {want or "-"}, implementation {got or "-"}')
    for bv, hdr, size, pre, want, _dec, _lad in t['sized']:
        data = struct.pack('<i', 1) + b'm'.ljust(128, b'\0') + struct.pack('<i', 0) + struct.pack('<i', 1) + bytes(size)
        got = read(bv, hdr, data, pre)
        ck.count('prop_format_table_rows_compared')
        # (a record of the wrong size that the head does not reject may fail later: only the head is tabulated)
        if got != want and not (want.startswith('!') and got.startswith('!')):
            bad.append(f'one record of {size} bytes, BSP version {bv}, header {hdr}, named {pre or "-"}: table {want or "-"}, implementation {got or "-"}')
    sizes = {m[0]: m[2] for m in t['members']}
    for pre, rec, written, _lad, hw in t['writer']:
        b.version = B.VERSIONS.HL2_EP1
        b.static_prop_version = fmt_of(pre)
        b.game_lumps[b'sprp'].version = 255
        try:
            with U.time_limit(U.IMPL_TIME_LIMIT):
                data = bytes(b._lmp_write_props([B.StaticProp('m', Vec(), Angle())]))
            (nm,) = struct.unpack_from('<i', data, 0)
            (nl,) = struct.unpack_from('<i', data, 4 + 128 * nm)
            got_size = len(data) - (4 + 128 * nm + 4 + leaf_w * nl + 4)
            got = (b.static_prop_version.name, got_size, b.game_lumps[b'sprp'].version)
        except Exception as e:      # noqa: BLE001
            got = ('!' + type(e).__name__, 0, 255)
        ck.count('prop_format_table_rows_compared')
        if got != (rec, sizes.get(written, 0), hw):
            bad.append(f'writer, recorded before {pre or "-"}: table records {rec}, writes in {written} ({sizes.get(written, 0)} bytes), header number '
                       f'{hw} (255 = left as it was); implementation {got}')
    ck.obligation('correspondence:prop_version_choice', not bad,
                  f'{len(t["empty"]) + len(t["sized"]) + len(t["writer"])} table rows (every BSP version x header number x record size x format named) '
                  f'against _lmp_read_props / _lmp_write_props: {len(bad)} disagreements' + (': ' + '; '.join(bad[:5]) if bad else ''))
    if bad:
        ck.tie_broken.append('correspondence static-prop format tables vs _lmp_read_props / _lmp_write_props')


def version_histories(ck: Ck, base: str, wd: str) -> None:
    """Histories in which the format / version the WRITER uses was chosen by the READER of an earlier file: a file whose static-prop,
    detail-prop, overlay and cubemap tables are EMPTY is read (every layout x every header number that a static-prop format has),
    a world is assigned to the same object, saved, and re-read by a fresh object.  Nobody names the static-prop format."""
    import srctools.bsp as B
    hdrs = sorted({v.version for v in B.StaticPropVersion if v.name in U.PROP_VERSIONS})
    feats_pool = ['water', 'hdr', 'physics', 'outputs', 'fresh_objects', 'shared_objects', 'near_duplicates', 'grafted', 'hi_bytes']
    rounds = ck.budget(1, 6)
    for rnd in range(rounds):
        for cfg in U.CONFIGS:
            for hdr in hdrs:
                feats = set() if rnd == 0 else {f for f in feats_pool if ck.rng.random() < 0.35}
                seed = ck.rng.getrandbits(40)
                res, g, chosen = U.from_empty(base, wd, cfg, hdr, seed, feats, 3 if rnd == 0 else ck.rng.choice([2, 4, 6]))
                ck.count('histories_read_empty_then_assign')
                ck.hist('history_header_number', str(hdr))
                ck.hist('history_format_chosen_for_empty_lump', chosen)
                ck.seen(('from_empty', cfg, hdr, seed))
                # the same file opened by an object that never reads anything: a world is assigned, saved, re-read
                # (quick tier: every header number in one layout per round, rotating; thorough: every layout)
                res2: dict[str, str] = {}
                g2, chosen2 = None, '?'
                if ck.thorough or len(ck.tie_broken) or U.CONFIGS.index(cfg) == (hdr + rnd) % len(U.CONFIGS):
                    res2, g2, chosen2 = U.from_empty(base, wd, cfg, hdr, seed, feats, 3 if rnd == 0 else 4, read_first=False)
                    ck.count('histories_never_read_then_assign')
                for view, diff in res2.items():
                    key = f'never-read-then-assign:{view}' + (f':header-{hdr}' if view == 'props' or view.startswith('!') else '')
                    ck.violation(key, f'a file (static-prop header number {hdr}, layout {cfg}) is opened, a world is assigned without any view being read, '
                                      f'saved (static props written as {chosen2}) and re-read by a fresh object: {diff}',
                                 {'history': 'never_read', 'cfg': cfg, 'header': hdr, 'seed': seed, 'feats': sorted(feats),
                                  'size': g2.size if g2 is not None else 3, 'hview': view, 'chosen': chosen2, 'diff': diff,
                                  'how': 'harness.c11_util.from_empty(base, dir, cfg, header, seed, feats, size, read_first=False); ./check C11 --replay <this file>'})
                # the caller names a format of this header number before the empty lump is read (one format per layout and round, rotating)
                cands = [v.name for v in B.StaticPropVersion if v.version == hdr and v.name in U.PROP_VERSIONS]
                nm = cands[(U.CONFIGS.index(cfg) + rnd) % len(cands)]
                res3, g3, chosen3 = U.from_empty(base, wd, cfg, hdr, seed, feats, 3, named=nm)
                ck.count('histories_named_then_read_empty_then_assign')
                for view, diff in res3.items():
                    key = f'named-then-read-empty:{view}' + (f':{nm}' if view == 'props' or view.startswith('!') else '')
                    ck.violation(key, f'static_prop_version = {nm} is set on a file with an empty static-prop lump (header number {hdr}, layout {cfg}), the lump is '
                                      f'read, a world is assigned and saved; re-read by a fresh object: {diff}',
                                 {'history': 'named', 'cfg': cfg, 'header': hdr, 'seed': seed, 'feats': sorted(feats), 'named': nm,
                                  'size': g3.size if g3 is not None else 3, 'hview': view, 'chosen': chosen3, 'diff': diff,
                                  'how': 'harness.c11_util.from_empty(base, dir, cfg, header, seed, feats, size, named=named); ./check C11 --replay <this file>'})
                for view, diff in res.items():
                    where = 'v20' if cfg == 'v20' else 'not-v20'
                    key = f'from-empty-lump:{view}' + (f':header-{hdr}:bsp-{where}' if view == 'props' or view.startswith('!') else '')
                    ck.violation(key, f'a file with an empty static-prop lump (header number {hdr}, layout {cfg}) is read, a world is assigned to the same '
                                      f'BSP object and saved; re-read by a fresh object: {diff}',
                                 {'history': 'from_empty', 'cfg': cfg, 'header': hdr, 'seed': seed, 'feats': sorted(feats),
                                  'size': g.size if g is not None else 3, 'hview': view, 'chosen': chosen, 'diff': diff,
                                  'how': 'harness.c11_util.from_empty(base, dir, cfg, header, seed, feats, size); ./check C11 --replay <this file>'})


def retry_histories(ck: Ck, base: str, wd: str) -> None:
    """Error path of the rejection: a value that does not fit makes save() raise; the caller repairs the value in place and saves the
    SAME object again.  Whatever the first save left behind, the second must write the world."""
    rounds = ck.budget(1, 8)
    for rnd in range(rounds):
        for i, cfg in enumerate(U.CONFIGS):
            for view in U.BREAKABLE:
                res = None
                for k in range(40):
                    seed = ck.rng.getrandbits(40)
                    g = U.Gen(seed, cfg, U.PROP_VERSIONS[(i * 3 + k + rnd) % len(U.PROP_VERSIONS)], {'model_detail', 'sprite_detail', 'water', 'physics'},
                              3 if rnd == 0 else ck.rng.choice([2, 4, 6]))
                    res = U.retry_after_reject(base, wd, g, view)
                    if res is not None:
                        break
                if res is None:
                    continue        # (no value of this view is rejected in this layout: e.g. 40000 clusters fit the chaos layout)
                ck.count('histories_rejected_save_then_repair_then_save')
                ck.hist('history_rejected_view', view)
                ck.seen(('retry', cfg, view, g.seed))
                for v2, diff in res.items():
                    ck.violation(f'retry-after-rejected-save:{view}:{v2}',
                                 f'{view}[0].{U.BREAKABLE[view][0]} = {U.BREAKABLE[view][1]} makes save() raise ({cfg}); the value is repaired in place and the same '
                                 f'object is saved again; re-read by a fresh object: {diff}',
                                 {'history': 'retry', 'cfg': cfg, 'prop_ver': g.prop_ver, 'seed': g.seed, 'feats': sorted(g.feats), 'size': g.size,
                                  'bad_view': view, 'hview': v2, 'diff': diff,
                                  'how': 'harness.c11_util.retry_after_reject(base, dir, Gen(seed, cfg, prop_ver, feats, size), bad_view); ./check C11 --replay <this file>'})


def classify(view: str, diff: str, feats: set[str], g: U.Gen) -> str:
    if view == 'water_leaf_info' and diff.startswith('water_leaf_info: length') and diff.endswith('!= 0'):
        return 'water-leaf-info-writer-uses-self'
    extra = ''
    if view in ('visleafs', 'nodes') and 'float_bounds' in feats:
        extra = ':chaos'
    if view == 'props':
        extra = ':' + g.prop_ver
    return f'{view}{extra}:' + ('+'.join(sorted(feats)) or 'plain')


def shrink(base: str, wd: str, g: U.Gen, view: str) -> U.Gen:
    def fails(x: U.Gen) -> bool:
        try:
            return view in U.roundtrip(base, wd, x)
        except Exception:   # noqa: BLE001
            return False
    cur = g
    for f in sorted(g.feats):
        cand = U.Gen(cur.seed, cur.cfg, cur.prop_ver, cur.feats - {f}, cur.size)
        if fails(cand):
            cur = cand
    for size in (1, 2):
        if size < cur.size:
            cand = U.Gen(cur.seed, cur.cfg, cur.prop_ver, cur.feats, size)
            if fails(cand):
                cur = cand
                break
    return cur


def search(ck: Ck, base: str, wd: str) -> None:
    n = ck.budget(448, 11000)
    feats_all = [f for f in U.FEATURES if f not in ('big_runs', 'many', 'resave')]
    found: dict[str, tuple] = {}
    rng = ck.rng
    for i in range(n):
        cfg = U.CONFIGS[i % len(U.CONFIGS)]
        pv = U.PROP_VERSIONS[(i // len(U.CONFIGS)) % len(U.PROP_VERSIONS)]
        feats = {f for f in feats_all if rng.random() < 0.5}
        if i % 97 == 5:
            feats.add('many')
        if i % 331 == 7:
            feats.add('big_runs')
        if i % 5 == 3:
            feats.add('resave')     # the re-read objects are changed in place and the same BSP object is saved a second time
        g = U.Gen(rng.getrandbits(40), cfg, pv, feats, rng.choice([2, 4, 4, 7]))
        if i < 2 * len(U.CONFIGS):
            # directed: distinct objects that agree in part of their attributes, alone, in every layout (2 worlds each)
            g = U.Gen(g.seed, cfg, pv, {'near_duplicates'}, 3)
            feats = set(g.feats)
        elif i < 4 * len(U.CONFIGS):
            # directed: objects reachable only through references (sub-trees of new nodes, new leafs, faces, original faces, brushes,
            # sides, planes, texinfo, texdata below listed objects), alone, in every layout (2 worlds each)
            g = U.Gen(g.seed, cfg, pv, {'grafted', 'resave'} if i >= 3 * len(U.CONFIGS) else {'grafted'}, 3)
            feats = set(g.feats)
        res = U.roundtrip(base, wd, g)
        ck.count('worlds_saved_and_reread')
        ck.hist('layout', cfg)
        ck.hist('static_prop_version', pv)
        for f in feats:
            ck.hist('features', f)
        if len(feats) >= 3:
            ck.seen(('world', g.seed, cfg, pv))
        for view, diff in res.items():
            # the same view already failed with a minimal feature set that this world contains: same cause, do not shrink again
            if any(v == view and sm.feats <= feats and (sm.cfg == cfg or ':chaos' not in k) for k, (sm, v, _) in found.items()):
                ck.count('repeat_failures_not_shrunk')
                continue
            small = shrink(base, wd, g, view)
            d2 = U.roundtrip(base, wd, small).get(view, diff)
            key = classify(view, d2, small.feats, small)
            if key not in found or small.size < found[key][0].size:
                found[key] = (small, view, d2)
    ck.extra['oracle_violation_keys'] = sorted(found)
    for key, (g, view, diff) in found.items():
        ck.violation(key, f'view {view} differs after save and re-read ({g.cfg}, static props {g.prop_ver}): {diff}',
                     {'seed': g.seed, 'cfg': g.cfg, 'prop_ver': g.prop_ver, 'feats': sorted(g.feats), 'size': g.size, 'view': view,
                      'diff': diff, 'how': 'harness.c11_util.roundtrip(base, dir, Gen(seed, cfg, prop_ver, feats, size)); '
                                           './check C11 --replay <this file>'})
    g0 = U.Gen(12345, 'v20', 'V10', {'model_detail', 'shape_detail', 'outputs', 'physics', 'water'}, 4)
    w = g0.build()
    ck.sample({'generated_world(view: number of items)': {v: (len(w[v]) if hasattr(w[v], '__len__') else str(type(w[v]).__name__)) for v in U.VIEWS
                                                          if w[v] is not None}, 'cfg': 'v20', 'static_props': 'V10'})


def _world_with(base: str, need: list[str], cfg: str, pv: str, feats: set[str]) -> U.Gen:
    for seed in range(1000, 1400):
        g = U.Gen(seed, cfg, pv, feats, 4)
        w = g.build()
        if all(w[v] for v in need):
            return g
    raise RuntimeError(f'no world with {need}')


def reject_probes(ck: Ck, base: str, wd: str) -> None:
    """Values that do not fit their on-disk field must make save() raise (or, if they do fit, come back equal)."""
    import contextlib
    import io
    import shutil

    import srctools.bsp as B
    from srctools.math import Vec
    probes: list[tuple[str, str, str, set[str], list[str], Any]] = [
        ('props.model-name-128-bytes', 'v20', 'V10', set(), ['props'], lambda w: setattr(w['props'][0], 'model', 'm' * 128)),
        ('props.model-name-300-bytes', 'v20', 'V5', set(), ['props'], lambda w: setattr(w['props'][0], 'model', 'models/' + 'x' * 293)),
        ('detail_props.model-name-129-bytes', 'v20', 'V5', {'model_detail'}, ['detail_props'], lambda w: setattr(w['detail_props'][0], 'model', 'd' * 129)),
        ('textures.name-128-chars', 'v20', 'V5', set(), ['texinfo'], lambda w: setattr(w['texinfo'][0]._info, 'mat', 't' * 128)),
        ('faces.light_styles-5-bytes', 'v20', 'V5', set(), ['orig_faces'], lambda w: setattr(w['orig_faces'][0], 'light_styles', b'abcde')),
        ('faces.light_styles-2-bytes', 'chaos', 'V5', set(), ['orig_faces'], lambda w: setattr(w['orig_faces'][0], 'light_styles', b'ab')),
        ('visleafs.ambient-25-bytes', 'v19', 'V5', set(), ['visleafs'], lambda w: setattr(w['visleafs'][0], '_ambient', bytes(range(25)))),
        ('visibility.row-one-byte-longer', 'v20', 'V5', set(), ['visibility'], lambda w: w['visibility'].potentially_visible[0].append(7)),
        ('visibility.row-one-byte-shorter', 'v20', 'V5', set(), ['visibility'], lambda w: w['visibility'].potentially_audible[0].pop()),
        ('cubemaps.size-2^31', 'v20', 'V5', set(), ['cubemaps'], lambda w: setattr(w['cubemaps'][0], 'size', 1 << 31)),
        ('cubemaps.origin-2^31', 'v20', 'V5', set(), ['cubemaps'], lambda w: setattr(w['cubemaps'][0], 'origin', Vec(float(1 << 31), 0, 0))),
        ('overlays.id-2^31', 'v20', 'V5', set(), ['overlays'], lambda w: setattr(w['overlays'][0], 'id', 1 << 31)),
        ('overlays.65-faces', 'v20', 'V5', set(), ['overlays'], lambda w: (setattr(w['overlays'][0], 'faces', list(range(65))), setattr(w['overlays'][0], 'face_count', 65))),
        ('brushes.dispinfo-40000', 'v20', 'V5', set(), ['brushes'], lambda w: [setattr(s, '_dispinfo', 40000) for b in w['brushes'] for s in b.sides] or 1 / 0),
        ('visleafs.cluster-40000', 'v20', 'V5', set(), ['visleafs'], lambda w: setattr(w['visleafs'][0], 'cluster_id', 40000)),
        ('visleafs.area-256', 'v21', 'V5', set(), ['visleafs'], lambda w: setattr(w['visleafs'][0], 'area', 256)),
        ('visleafs.area-2^14-chaos', 'chaos', 'V5', set(), ['visleafs'], lambda w: setattr(w['visleafs'][0], 'area', 1 << 15)),
        ('visleafs.min_water_dist-70000', 'l4d2', 'V5', set(), ['visleafs'], lambda w: setattr(w['visleafs'][0], 'min_water_dist', 70000)),
        ('visleafs.mins-40000', 'infra', 'V5', set(), ['visleafs'], lambda w: setattr(w['visleafs'][0], 'mins', Vec(40000.0, 0, 0))),
        ('visleafs.negative-mins-vitamin', 'vitamin', 'V5', set(), ['visleafs'], lambda w: setattr(w['visleafs'][0], 'mins', Vec(-1.0, 0, 0))),
        ('nodes.area_ind-40000', 'v20', 'V5', set(), ['nodes'], lambda w: setattr(w['nodes'][0], 'area_ind', 40000)),
        ('planes.dist-1e40', 'v20', 'V5', set(), ['planes'], lambda w: setattr(w['planes'][0], 'dist', 1e40)),
        ('vertexes.x-1e39', 'v20', 'V5', set(), ['vertexes'], lambda w: setattr(w['vertexes'][0], 'x', 1e39)),
        ('primitives.index-70000', 'v20', 'V5', set(), ['primitives'], lambda w: w['primitives'][0].indexed_verts.append(70000)),
        ('faces.primitives-16384-of-at-most-32767', 'v20', 'V5', set(), ['faces', 'primitives'],
         lambda w: setattr(w['faces'][0], 'primitives', [B.Primitive(False, [], [])] * 16384)),
        ('faces.hammer_id-70000', 'v20', 'V5', set(), ['faces'], lambda w: (setattr(w['faces'][0], 'hammer_id', 70000), setattr(w['faces'][0].orig_face, 'hammer_id', 70000))),
        ('faces.smoothing_groups-2^32', 'v20', 'V5', set(), ['orig_faces'], lambda w: setattr(w['orig_faces'][0], 'smoothing_groups', 1 << 32)),
        ('props.solidity-256', 'v20', 'V6', set(), ['props'], lambda w: setattr(w['props'][0], 'solidity', 256)),
        ('props.flags-bit-40-of-a-32-bit-secondary-field', 'v20', 'V10', set(), ['props'],
         lambda w: setattr(w['props'][0], 'flags', B.StaticPropFlags((1 << 40) | 1))),
        ('props.flags-bit-40-of-a-32-bit-secondary-field-v11', 'v21', 'V11', set(), ['props'],
         lambda w: setattr(w['props'][0], 'flags', B.StaticPropFlags((1 << 40) | (1 << 17) | 1))),
        ('props.skin-2^31', 'v20', 'V6', set(), ['props'], lambda w: setattr(w['props'][0], 'skin', 1 << 31)),
        ('props.renderfx-256', 'v20', 'V9', set(), ['props'], lambda w: setattr(w['props'][0], 'renderfx', 256)),
        ('props.tint-300', 'v20', 'V9', set(), ['props'], lambda w: setattr(w['props'][0], 'tint', Vec(300.0, 0, 0))),
        ('props.lightmap_x-70000', 'v20', 'V_LIGHTMAP_v10', set(), ['props'], lambda w: setattr(w['props'][0], 'lightmap_x', 70000)),
        ('props.max_dx_level-70000', 'v20', 'V6', set(), ['props'], lambda w: setattr(w['props'][0], 'max_dx_level', 70000)),
        ('props.max_cpu_level-256', 'v20', 'V8', set(), ['props'], lambda w: setattr(w['props'][0], 'max_cpu_level', 256)),
        ('detail_props.leaf-70000', 'v20', 'V5', {'sprite_detail'}, ['detail_props'], lambda w: setattr(w['detail_props'][0], 'leaf', 70000)),
        ('detail_props.sway-256', 'v20', 'V5', {'shape_detail'}, ['detail_props'], lambda w: setattr(w['detail_props'][0], 'sway_amount', 256)),
        ('detail_props.shape_size-256', 'v20', 'V5', {'shape_detail'}, ['detail_props'], lambda w: setattr(w['detail_props'][0], 'shape_size', 256)),
        ('texinfo.texdata-width-2^31', 'v20', 'V5', set(), ['texinfo'], lambda w: setattr(w['texinfo'][0]._info, 'width', 1 << 31)),
        ('water_leaf_info.z-1e39', 'v20', 'V5', {'water'}, ['water_leaf_info'], lambda w: setattr(w['water_leaf_info'][0], 'surface_z', 1e39)),
    ]
    for key, cfg, pv, feats, need, mutate in probes:
        g = _world_with(base, need, cfg, pv, feats)
        w = g.build()
        ck.count('rejection_probes')
        ck.hist('rejection_probe_view', need[0])
        try:
            mutate(w)
        except Exception:   # noqa: BLE001 - a validator refusing the value at assignment is a rejection
            ck.hist('rejection_outcome', 'rejected-on-assignment')
            continue
        ver = B.StaticPropVersion[pv]
        expect = U.canon_views(w, lambda n: w[n], g.vit, ver)
        path = os.path.join(wd, 'probe.bsp')
        shutil.copy(base, path)
        try:
            b = B.BSP(path)
            U.apply_config(b, cfg)
            b.static_prop_version = ver
            b.game_lumps[b'sprp'].version = ver.version
            b.out_comma_sep = w['out_comma_sep']
        except Exception as e:      # noqa: BLE001 - the base file was read and checked a moment ago: opening a copy of it must work
            ck.violation('base-file:reopen', f'a copy of the base file cannot be opened: {type(e).__name__}: {e}'[:300],
                         {'probe': key, 'how': 'shutil.copy(base, path); BSP(path)', 'error': f'{type(e).__name__}: {e}'[:300]})
            return
        try:
            with contextlib.redirect_stdout(io.StringIO()), U.time_limit(U.IMPL_TIME_LIMIT):
                # (a validator that refuses the value when the view is assigned is a rejection as well)
                for v in ['ents'] + [v for v in U.VIEWS if v != 'ents']:
                    if not (v == 'bmodels' and w[v] is None):
                        setattr(b, v, w[v])
                b.save(path)
        except U.ImplTimeout as e:
            ck.hist('rejection_outcome', 'HANG')
            ck.violation('hang:no-reject:' + key, f'save() of a world with a value that does not fit did not return: {e}',
                         {'probe': key, 'cfg': cfg, 'prop_ver': pv, 'seed': g.seed, 'feats': sorted(feats),
                          'how': 'checks/c11.py reject_probes: build Gen(seed,...), apply the named mutation, assign all views, save'})
            continue
        except Exception:   # noqa: BLE001
            ck.hist('rejection_outcome', 'rejected-on-save')
            ck.seen(('reject', key))
            continue
        # accepted: then it must come back unchanged
        try:
            with U.time_limit(U.IMPL_TIME_LIMIT):
                b2 = B.BSP(path, {'l4d2': B.GameVersion.L4D2, 'vitamin': B.GameVersion.VITAMINSOURCE}.get(cfg))
                b2.static_prop_version = ver
                got = U.canon_views(b2, lambda n: None if (n == 'bmodels' and w['bmodels'] is None) else getattr(b2, n), g.vit, ver)
            diffs = {}
            for v in need + (['orig_faces'] if 'faces' in need else []):
                a, c = expect[v], got[v]
                if v in U.GROWING and isinstance(c, list) and len(c) >= len(a):
                    c = c[:len(a)]
                d = U.first_diff(a, c, v)
                if d:
                    diffs[v] = d
        except (Exception, U.ImplTimeout) as e:   # noqa: BLE001
            diffs = {'!read': f'{type(e).__name__}: {e}'[:200]}
        if view_is_water_only(diffs):
            diffs = {}
        if diffs:
            ck.hist('rejection_outcome', 'SILENTLY-ALTERED')
            ck.violation('no-reject:' + key, f'value that does not fit was accepted by save() and came back altered: {diffs}',
                         {'probe': key, 'cfg': cfg, 'prop_ver': pv, 'seed': g.seed, 'feats': sorted(feats), 'diff': diffs,
                          'how': 'checks/c11.py reject_probes: build Gen(seed,...), apply the named mutation, assign all views, save, re-read'})
        else:
            ck.hist('rejection_outcome', 'accepted-and-preserved')


def view_is_water_only(diffs: dict) -> bool:
    return bool(diffs) and set(diffs) == {'water_leaf_info'}


def high_precision_delay_probe(ck: Ck, base: str, wd: str) -> None:
    """Output delays are written with %g (6 significant digits)."""
    import contextlib
    import io
    import shutil

    import srctools.bsp as B
    from srctools.vmf import VMF, Output
    path = os.path.join(wd, 'delay.bsp')
    shutil.copy(base, path)
    b = B.BSP(path)
    vmf = VMF()
    vmf.spawn['classname'] = 'worldspawn'
    e = vmf.create_ent('logic_relay')
    e.add_out(Output('OnTrigger', 'x', 'Kill', '', 1234567.0))
    b.ents = vmf
    b.out_comma_sep = False
    with contextlib.redirect_stdout(io.StringIO()):
        b.save(path)
    got = B.BSP(path).ents.entities[0].outputs[0].delay
    ck.count('directed_probes')
    # Not a violation: the output text format carries six significant digits for the delay, and the properties (C06)
    # state exactly that tolerance. Recorded as an observation; a loss beyond six significant digits is reported.
    ck.extra['observation_output_delay_g6'] = {'delay': 1234567.0, 'read_back': got}
    if abs(got - 1234567.0) > 5e-6 * 1234567.0:
        ck.violation('ents:output-delay-lost-beyond-6-significant-digits',
                     f'Output delay 1234567.0 read back as {got!r}: more than six significant digits lost',
                     {'delay': 1234567.0, 'read_back': got, 'how': 'Output(..., delay=1234567.0) in bsp.ents; save; re-read'})


def int_number_probe(ck: Ck, base: str, wd: str) -> None:
    """Output.delay / Output.times are not converted by the constructor: scripts pass whole seconds as Python ints (or bools, or
    integer-valued floats).  Whatever number is assigned must come back numerically equal after save + re-read, either separator."""
    import contextlib
    import io
    import shutil

    import srctools.bsp as B
    from srctools.vmf import VMF, Output
    rng = random.Random(ck.seed ^ 0xC1106)
    pool = [0, 1, 10, 100, 30, 20, 1000, 7, 12, 250, True, False, 10.0, 100.0, 0.0, 30.0, 2.5, rng.randrange(1, 100) * 10, rng.randrange(0, 100000)]
    for comma in (False, True):
        delays = rng.sample(pool, 8) + [10, 0]
        cases = [(d, rng.choice([-1, 1, 10, 100, 0, 5])) for d in delays]
        path = os.path.join(wd, f'intnum_{int(comma)}.bsp')
        shutil.copy(base, path)
        b = B.BSP(path)
        vmf = VMF()
        vmf.spawn['classname'] = 'worldspawn'
        e = vmf.create_ent('logic_relay')
        for d, t in cases:
            e.add_out(Output('OnTrigger', 'x', 'Kill', '', d, times=t, comma_sep=comma))
        b.ents = vmf
        b.out_comma_sep = comma
        ck.count('directed_probes')
        how = (f'outputs Output("OnTrigger", "x", "Kill", "", delay, times=times, comma_sep={comma}) for (delay, times) in {cases!r} on one entity '
               f'of bsp.ents; out_comma_sep = {comma}; save; re-read')
        try:
            with contextlib.redirect_stdout(io.StringIO()):
                b.save(path)
            got = [(o.delay, o.times) for o in B.BSP(path).ents.entities[0].outputs]
        except Exception as exc:   # noqa: BLE001
            ck.violation('ents:output-int-number:unreadable',
                         f'outputs with delays {[c[0] for c in cases]!r} ({"comma" if comma else "0x1B"} separator) cannot be saved and re-read: '
                         f'{type(exc).__name__}: {exc}'[:300], {'cases': repr(cases), 'comma_sep': comma, 'how': how})
            continue
        for c in cases:
            ck.seen(('intnum', comma, repr(c)))
        bad = [(c, g) for c, g in zip(cases, got) if not (c[0] == g[0] and c[1] == g[1])]
        if len(got) != len(cases) or bad:
            ck.violation('ents:output-int-number',
                         f'output numbers are not read back ({"comma" if comma else "0x1B"} separator): '
                         + (f'assigned (delay, times) = {bad[0][0]!r}, re-read {bad[0][1]!r}' if bad else f'{len(cases)} outputs written, {len(got)} read'),
                         {'cases': repr(cases), 'read_back': repr(got), 'comma_sep': comma, 'how': how})


# ------------------------------------------------------------------------------------------------ main
def coq_strs(xs: list[str]) -> str:
    out = 'nil'
    for x in reversed(xs):
        out = f'(cons "{x}" {out})'
    return out


def guarded(ck: Ck, stage: str, fn: Any, *args: Any) -> None:
    """Run a stage of the oracle.  Calls into the implementation are wrapped where a well-formed input may legitimately fail; an
    exception that still escapes and was raised INSIDE the implementation (innermost frame in srctools) is a failing input of that
    stage, reported with its call stack - not an internal error of the check.  Exceptions of the check's own code are re-raised."""
    try:
        fn(*args)
    except Exception as e:      # noqa: BLE001
        tb = __import__('traceback').extract_tb(e.__traceback__)
        if not tb or '/srctools/' not in tb[-1].filename:
            raise
        ck.violation('crash:' + stage, f'{type(e).__name__}: {e} raised inside the implementation during {stage}'[:300],
                     {'stage': stage, 'error': f'{type(e).__name__}: {e}'[:300], 'how': f'checks/c11.py {stage}: run the check',
                      'stack': [f'{f.filename.split("/")[-1]}:{f.lineno} {f.name}' for f in tb][-8:]})
    except U.ImplTimeout as e:
        ck.violation('hang:' + stage, f'a call into the implementation during {stage} did not return: {e}',
                     {'stage': stage, 'how': f'checks/c11.py {stage}: run the check',
                      'stack': [f'{f.filename.split("/")[-1]}:{f.lineno} {f.name}' for f in __import__('traceback').extract_tb(e.__traceback__)][-8:]})


def glue_obligations(glue: dict) -> dict[str, str]:
    obs = {
        'vis_row_size_reader_is_ceil8': 'rowsize_ok vis_row_reader',
        'vis_row_size_writer_is_ceil8': 'rowsize_ok vis_row_writer',
        'vis_reader_passes_cluster_count': 'vis_reader_passes_cluster_count',
        'vis_writer_checks_row_length': 'vis_writer_checks_row_length',
        'vis_offsets_point_at_their_row_sets': ('strs_eqb (fst vis_offset_order) (snd vis_offset_order) && '
                                                'Nat.eqb (List.length (fst vis_offset_order)) 2'),
        'texdata_search_includes_terminator': 'texcfg_search_terminated tex_cfg',
        'texdata_append_is_terminated': 'texcfg_append_terminated tex_cfg',
        'texdata_guard_fits_reader_window': 'texcfg_guard_fits_window tex_cfg',
        'texdata_codec_agrees': 'tex_codec_same',
        'ent_key_is_escaped': 'entcfg_key_escaped ent_cfg',
        'ent_value_is_escaped': 'entcfg_value_escaped ent_cfg',
        'ent_output_text_fields_escaped': 'entcfg_output_ok ent_cfg',
        'ent_output_separator_is_esc': 'N.eqb ent_output_sep ESC',
    }
    for r in glue.get('records', {}):
        obs[f'record_fields_agree:{r}'] = f'record_ok_named layouts streams records "{r}"'
    for fam, members in (('faces', ['faces', 'faces_vitamin']), ('leafs', ['leafs', 'leafs_v19', 'leafs_vitamin']),
                         ('brushsides', ['brushsides', 'brushsides_vitamin']), ('texdata', ['texdata', 'texdata_vitamin']),
                         ('nodes', ['nodes']), ('bmodels', ['bmodels']), ('planes', ['planes'])):
        obs[f'record_variants_cover_every_layout:{fam}'] = f'layouts_covered_once layouts records {coq_strs(members)}'
    obs['detail_record_type_codes_agree'] = 'codes_agree detail_write_dispatch detail_record_codes'
    obs['overlay_render_order_bits_agree'] = 'overlay_bits_ok overlay_bits overlay_writer_max_faces'
    if 'overlay_record' in glue:
        obs['overlay_record_fields_agree'] = 'overlay_rec_ok overlay_reader overlay_face_count overlay_record'
        obs['overlay_head_has_one_label_per_value'] = ('match parse_fmt overlay_writer_head with Some h => '
                                                       'Nat.eqb (List.length (fst (fst (snd overlay_record)))) (nvalues h) | None => false end')
    obs['face_primitive_count_bits_agree'] = 'face_prim_bits_ok face_prim_bits'
    obs['leaf_flags_fit_below_area_shift'] = 'leaf_flags_fit leaf_area_offset leaf_flag_values'
    obs['leaf_area_shift_is_the_layout_constant_on_both_sides'] = 'leaf_area_shift_from_layout'
    obs['brushside_bevel_masks_complementary'] = 'bevel_masks_complementary'
    obs['no_value_is_masked_before_pack'] = 'Nat.eqb (List.length masked_before_pack) 0'
    obs['every_pack_call_is_a_census_site'] = 'negb (Nat.eqb pack_calls_in_census 0)'
    # the key of every de-duplicating index table (find_or_insert / find_or_extend / local dict) determines the whole record
    for t in glue.get('dedup_tables', {}):
        obs[f'dedup_key_determines_record:{t}'] = f'dedup_ok_named dedup_tables "{t}"'
    # helper properties handed to pack calls (StaticPropFlags.value_prim / value_sec): the parts tile the bits of the value
    # and the reader puts them together with the same shifts
    for o in glue.get('helper_splits', {}):
        obs[f'helper_property_split_agrees:{o}'] = ('match find (fun h : string * list fpart * list N => String.eqb (fst (fst h)) "%s") helper_splits '
                                                    'with Some (_, ps, rs) => split_ok ps rs | None => false end' % o)
    for c, f, _a, _b, _r in glue.get('bool_codes', []):
        obs[f'bool_code_agrees:{c}.{f}'] = ('forallb (fun x : string * string * N * N * N => let \'(c, f, wt, wf, rc) := x in '
                                           'negb (String.eqb c "%s" && String.eqb f "%s") || bool_code_ok (wt, wf, rc)) bool_codes' % (c, f))
    obs['bool_codes_found'] = 'negb (Nat.eqb (List.length bool_codes) 0)'
    # every loop that serialises a local index table (nodes, brush sides, edges, brush models, model / sprite dictionaries) reaches
    # the entries its own body appends, and nothing is appended after it
    for f, t, _k, _i, _a in glue.get('worklists', []):
        obs[f'index_table_loop_reaches_every_entry:{f}:{t}'] = f'wl_named worklists "{f}" "{t}"'
    # the PHYSCOLLIDE block: both sides use one order of the four header values, one sentinel, the sections in one order
    obs['phys_block_layout_agrees'] = 'phys_cfg_ok phys_config'
    obs['phys_header_is_four_int32'] = 'match parse_fmt phys_header_fmt with Some f => fmt_eqb f hdr_fmt | None => false end'
    # the offset table of the visibility lump: every slot is reserved where it is deferred (write=True), filled in (write()) before
    # the buffer is returned, and no slot is deferred twice (one key per cluster)
    obs['vis_offset_slots_reserved_and_filled'] = 'vis_deferred_usage_ok'
    # the sprite dictionary of the detail props: every class that goes through it has the same attribute component in every slot on both sides
    for c in glue.get('sprite_dict', {}):
        obs[f'sprite_dictionary_fields_agree:{c}'] = ('forallb (fun e : sprite_entry => negb (String.eqb (fst (fst e)) "%s") || '
                                                     'sprite_entry_ok (fst sprite_dict_fmts) (snd sprite_dict_fmts) e) sprite_dict' % c)
    obs['sprite_dictionary_found'] = 'sprite_dict_ok sprite_dict_fmts sprite_dict'
    obs['index_table_loops_found'] = 'negb (Nat.eqb (List.length worklists) 0)'
    # the static-prop format: chosen by the reader of one file, used by the writer of the next.  History 1, per header number: a file
    # with an EMPTY lump is read, props are assigned and saved, a fresh reader decodes with the format they were written in.
    # History 2, per format: named by the caller it is the format written, and a fresh reader finds a format of the same header number and size
    pv = glue.get('prop_version_choice', {})
    for h in sorted({m[1] for m in pv.get('members', [])}):
        obs[f'prop_format_chosen_for_empty_lump_is_found_again:header-{h}'] = f'pv_from_empty_ok_hdr pv_tables {h}%N'
    for k, m in enumerate(pv.get('members', [])):
        obs[f'prop_format_named_is_written_and_found_again:{m[0]}'] = f'forallb (fun bv => hist_named_ok pv_tables bv {k + 1}%N) pv_bsp_versions'
    # History 3, per header number of the opened file: props assigned to an object that never read the lump
    for h in range(4, 14):
        obs[f'prop_format_written_without_reading_is_found_again:header-{h}'] = f'pv_never_read_ok_hdr pv_tables {h}%N'
    obs['prop_format_tables_pass'] = 'pv_ok pv_tables'
    # error path: save() keeps a view in the cache until nothing can raise any more for it (a rejected value must not cost the view)
    obs['save_keeps_a_view_until_its_writer_succeeded'] = 'commit_ok save_events'
    obs['rebuild_order_runs_appending_writers_first'] = 'order_ok rebuild_order append_edges'
    return obs


def run(ck: Ck) -> None:
    ck.rule = ('worlds: a consistent object graph for all 20 views generated from (seed, layout in 7, static-prop version in 13, feature '
               'subset of 15, size), distinct by seed/layout/version, non-trivial = at least 3 features switched on; struct: (format, '
               'values) with formats drawn from every literal/layout format of bsp.py plus random formats, 25% carry one out-of-range '
               'integer, distinct by format+values; RLE rows built from zero/non-zero runs of lengths around 255/510, non-trivial = contains '
               'a zero and more than one byte; find_or_extend request lists over a small key range (collisions and tail overlaps frequent), '
               'non-trivial = more than one distinct index returned; rejection probes: one named out-of-field value each, non-trivial = rejected on save; '
               'texture tables: all 399 lists of <= 3 names of <= 2 letters over {A,B} + random lists built from prefixes/tails/concatenations of a '
               'pool, non-trivial = storage shared; entity lumps: 1-4 entities with keys/values/output fields over an alphabet with quote, backslash, '
               'newline, tab, high byte, commas, non-trivial = lump contains a backslash; row sizes: every cluster count below the budget; '
               'physics blocks: 1-5 brush models with 0-3 solids of 0-300 bytes and keyvalues text or none, non-trivial = at least two blocks; '
               'DeferredWrites: sequences of write / defer / set_data calls over 4 keys (keys deferred twice, slots never set, keys never '
               'deferred included), non-trivial = at least two slots and a file results; worlds with the feature grafted contain objects '
               'reachable only through references (depth >= 2), worlds with resave are changed in place after the re-read and saved again; '
               'histories: (layout in 7) x (static-prop header number in 4..13) x {empty tables read first, nothing read, format named first}, the '
               'world assigned afterwards has at least one static prop and one detail prop, distinct by layout/header/seed; static-prop '
               'format tables: the complete domain (12 BSP versions x 16 header numbers x 12 record sizes x 14 formats named), every row compared; '
               'retry histories: (layout in 7) x (view in 7 whose first object gets one value outside its field), non-trivial = the first save raised')
    ck.trusted.append('hand-written models Bin/Struct.v, Bin/RLE.v, Bin/FindInsert.v, Fmt/BspTexStrings.v, Fmt/BspEntLump.v (+ Fmt/VmfText.hs) '
                      '(tied by byte-exact correspondence on every run)')
    ck.trusted.append('translate/c11_records.py: name-based data-flow analysis that labels every struct slot with the attributes it carries; '
                      'record variants, their branch flags and layout tables are a hand-written table (RECORDS)')
    ck.trusted.append('reader/writer site pairing table STREAMS in translate/c11_formats.py (which site is the partner of which)')
    ck.trusted.append('CPython struct float <-> float32 conversion (f fields are modelled as 32-bit patterns)')
    ck.trusted.append('translate/c11_norm.py: normalisation of the source tree before the translators read it (struct.Struct constants, single-use '
                      'pure locals inlined, table-entry aliases, module constants, early continue, negated if/else); a pure expression is moved '
                      'past pure assignments to other names only')
    ck.trusted.append('translate/c11_dedup.py ADMITTED (texture names pairwise distinct after casefold), translate/c11_overlayrec.py REDUNDANT '
                      '(Overlay.face_count = len(faces)), models Fmt/BspDedup.v, Fmt/BspFlagSplit.v, Fmt/BspOverlayRec.v')
    ck.trusted.append('hand models Fmt/BspWorklist.v (Python list iteration over a growing list = position compared with the current length on '
                      'every step), Fmt/BspPhys.v, Bin/BspDeferred.v (DeferredWrites over a file that is only appended to before the final pass); '
                      'translate/c11_worklist.py (which loops walk a finder table, position-based inside/after classification), c11_phys.py')
    ck.trusted.append('Fmt/BspPropVersion.v gives the generated static-prop format tables their meaning (histories of read / write calls); the tables '
                      'themselves are compared row by row with _lmp_read_props / _lmp_write_props on every run (correspondence prop_version_choice)')
    ck.assumptions.append('x86-64 little-endian host: the few native-order formats of bsp.py (i, ii, fff) are identified with their "<" forms; '
                          'the model accepts native formats only when all fields are numbers of one size (no alignment padding possible)')
    ck.assumptions.append('math.ceil(n / 8) is modelled as the exact rational ceiling (CPython float division by 8 is exact for n < 2^53)')
    ck.assumptions.append('entity lump theorem: float()/int() acceptance of the delay/times text enters as parameters float_ok/int_ok; '
                          'values contain no ESC, no plain value has exactly four commas, output fields do not contain the separator in use')
    ck.assumptions.append('well-formedness rules of generated lump contents are listed in harness/c11_util.py (docstring) and docs/C11.md')
    import time
    tm: dict[str, float] = {}
    ck.extra['timing_s'] = tm
    t0 = time.time()

    def lap(name: str) -> None:
        nonlocal t0
        tm[name] = round(time.time() - t0, 1)
        t0 = time.time()
    ok_t = ck.translate('BspFormats_gen', c11_formats.translate)
    side = ck.extra.get('translated', {}).get('BspFormats_gen', {})
    ok_g = ck.translate('BspGlue_gen', c11_glue.translate)
    glue = ck.extra.get('translated', {}).get('BspGlue_gen', {})
    # ck.build() runs the hygiene scan of all .v files (10 s of pure Python) the first time it is called; it is run here instead, once,
    # in a thread next to the coqc processes that print the assumptions and discharge the instance obligations
    ck._hygiene_done = True
    built = ok_t and ok_g and ck.build(['Props/C11.vo', 'Gen/BspFormats_gen.vo', 'Gen/BspGlue_gen.vo'])
    from concurrent.futures import ThreadPoolExecutor
    pool = ThreadPoolExecutor(max_workers=4)
    # (a process of its own: the scan is pure Python and would otherwise share the interpreter lock with the rest of the check)
    import subprocess
    import sys
    hyg = subprocess.Popen([sys.executable, '-c', 'import json; from harness.common import scan_hygiene; print("HYGIENE-RESULT " + json.dumps(scan_hygiene()))'],
                           stdout=subprocess.PIPE, stderr=subprocess.DEVNULL, text=True)

    def hygiene_result() -> None:
        import json
        try:
            out, _ = hyg.communicate(timeout=900)
            line = [x for x in out.splitlines() if x.startswith('HYGIENE-RESULT ')][-1]
            bad = json.loads(line[len('HYGIENE-RESULT '):])
        except Exception:   # noqa: BLE001 - the helper process did not deliver: scan in this process
            hyg.kill()
            ck.hygiene()
            return
        ck.obligation('hygiene:no_admitted_axiom_parameter_or_unchecked_flag', not bad,
                      'all .v files scanned (comments removed): none found' if not bad else '; '.join(bad[:20]))
        if bad:
            ck.tie_broken.append('hygiene: ' + '; '.join(bad[:5]))
    if built:
        fut_thm = pool.submit(theorems_parallel, ck, 'Props/C11.v', 8)
        obs: dict[str, str] = {}
        for name, _appl, _r, _w in c11_formats.STREAMS:
            obs[f'lump_formats_agree:{name}'] = f'stream_ok_named layouts streams "{name}"'
        for v in side.get('prop_versions', {}):
            obs[f'prop_layout_agree:{v}'] = ('match find (fun v => let \'(n, _, _, _) := v in String.eqb n "%s") prop_versions with '
                                             'Some v => prop_ok v | None => false end' % v)
            obs[f'prop_fields_agree:{v}'] = ('match find (fun v => let \'(n, _, _) := v in String.eqb n "%s") prop_fields with '
                                             'Some v => fields_ok v | None => false end' % v)
        obs['overlay_block_agrees_for_every_face_count'] = ('overlay_ok overlay_reader overlay_writer_head overlay_writer_tail overlay_face_count '
                                                           'overlay_writer_max_faces overlay_reader_max_faces overlay_face_fmts')
        for s in side.get('ns_sites', []):
            nm = s['site']
            obs[f'ns_site_guarded:{nm}'] = ('match find (fun s => let \'(n, _, _) := s in String.eqb n "%s") ns_sites with '
                                            'Some s => %s s | None => false end' % (nm, 'ns_ok_cstring' if s['width'] == 128 else 'ns_ok'))
        for c, base_ in side.get('detail', {}).get('classes', []):
            if base_:
                obs[f'detail_kind_dispatch:{c}'] = f'class_dispatch_ok detail_classes detail_write_dispatch detail_read_dispatch "{c}"'
        obs['detail_kind_dispatch:all'] = 'dispatch_ok detail_classes detail_write_dispatch detail_read_dispatch'
        obs['find_or_extend_checks_bounds'] = 'find_or_extend_bounded'
        obs['five_layout_tables'] = 'Nat.eqb (List.length layouts) 5'
        obs['every_format_string_is_in_the_modelled_language'] = (
            'forallb (fun l => forallb (fun kv => fmt_known (snd kv)) (snd l)) layouts')
        lap('translate+build')
        fut_o1 = pool.submit(ck.instance_obligations, IMPORTS, obs)
        gobs = glue_obligations(glue)
        res = ck.instance_obligations(IMPORTS_GLUE, gobs, name='glue')
        if not res.get('vis_row_size_reader_is_ceil8', True) or not res.get('vis_row_size_writer_is_ceil8', True):
            w = ck.coq_eval(IMPORTS_GLUE, ['rowsize_witnesses vis_row_reader', 'rowsize_witnesses vis_row_writer'], name='row_wit')
            ck.extra['vis_row_size_wrong_for_cluster_counts(reader, writer; below 64)'] = w
        fut_o1.result()
        fut_thm.result()
        lap('instance_obligations+assumptions')
    pool.shutdown(wait=True)
    base: str | None = str(ck.scratch / 'base.bsp')
    try:
        with U.time_limit(U.IMPL_TIME_LIMIT_BIG):
            U.make_base(str(REPO / 'tests' / 'test_vec' / 'rot_main.bsp'), base)
    except (Exception, U.ImplTimeout) as e:      # noqa: BLE001
        # the repository's own test map cannot be read and saved any more: no world can be generated, and this is a failing input.
        # The correspondences that do not need a file still run (they may show which layer broke).
        ck.violation('base-file:read-or-save', f'the test map tests/test_vec/rot_main.bsp cannot be read, given an empty entity lump, saved and read again: '
                                               f'{type(e).__name__}: {e}'[:300],
                     {'how': 'harness.c11_util.make_base(<repo>/tests/test_vec/rot_main.bsp, <scratch>/base.bsp)', 'error': f'{type(e).__name__}: {e}'[:300]})
        base = None
    wd = str(ck.scratch)
    ex = pending = None
    ties_before = len(ck.tie_broken)
    if built:
        gens = [corr_struct(ck, side), corr_rowsize(ck), corr_rle(ck), corr_find(ck), corr_ent(ck), corr_deferred(ck)]
        if base is not None:
            gens += [corr_tex(ck, base), corr_phys(ck, base)]
        ex, pending = start_correspondences(ck, gens)
        lap('correspondence_cases')
    try:
        # the coqc runs of the correspondences go on in the background while the implementation is searched
        if base is not None:
            guarded(ck, 'reject_probes', reject_probes, ck, base, wd)
            guarded(ck, 'output_delay_probe', high_precision_delay_probe, ck, base, wd)
            guarded(ck, 'int_number_probe', int_number_probe, ck, base, wd)
            lap('reject_probes')
            guarded(ck, 'version_histories', version_histories, ck, base, wd)
            guarded(ck, 'retry_histories', retry_histories, ck, base, wd)
            if built:
                guarded(ck, 'corr_propver', corr_propver, ck, base, glue)
            lap('version_histories')
            guarded(ck, 'search', search, ck, base, wd)
            lap('search')
    finally:
        hygiene_result()        # (a hit breaks a tie: the search is then repeated with the escalated budget, below)
        if ex is not None:
            finish_correspondences(ex, pending)
        lap('hygiene+correspondence_results')
    if base is None:
        for pref in ('instance:', 'correspondence:', 'translate:', 'build:'):
            ck.explain(pref)
        return
    if len(ck.tie_broken) > ties_before and not ck.violations and not ck.thorough:
        # a correspondence broke after the search had started with the small budget and nothing concrete was found: search again
        # with the escalated budget (ck.budget now returns the thorough size)
        guarded(ck, 'search', search, ck, base, wd)
        lap('search_escalated')
    # A failed obligation is explained by a concrete violation found on the implementation.
    keys = {v['key'] for v in ck.violations}
    if any(k.startswith('detail_props') for k in keys):
        ck.explain('instance:detail_kind_dispatch')
    if any(k.startswith('visibility') or k.startswith('no-reject:visibility') or k.startswith('!') for k in keys):
        ck.explain('correspondence:deferred_writes')
    if any(k.startswith('visibility') or k.startswith('no-reject:visibility') for k in keys):
        ck.explain('correspondence:rle')
        ck.explain('correspondence:vis_row_size')
        ck.explain('instance:vis_')
    if any(k.startswith('ents') for k in keys):
        ck.explain('instance:ent_')
        ck.explain('correspondence:ent_')
    if any(k.startswith('textures') or k.startswith('texinfo') for k in keys):
        ck.explain('instance:texdata_')
        ck.explain('correspondence:texdata_strings')
    if any(k.startswith('bmodels') or k.startswith('!') for k in keys):
        ck.explain('instance:phys_')
        ck.explain('correspondence:physcollide')
    if any(k.startswith('find_or_extend') or 'tail_overlap' in k or 'shared_objects' in k for k in keys):
        ck.explain('instance:find_or_extend_checks_bounds')
        ck.explain('correspondence:find')
    for k in keys:
        if k.startswith('no-reject:props.model-name'):
            ck.explain('instance:ns_site_guarded:_lmp_write_props')
        if k.startswith('no-reject:detail_props.model-name'):
            ck.explain('instance:ns_site_guarded:_lmp_write_detail_props')
        if k.startswith('no-reject:faces.light_styles'):
            ck.explain('instance:ns_site_guarded:_write_faces_common')
        if k.startswith('no-reject:visleafs.ambient'):
            ck.explain('instance:ns_site_guarded:_lmp_write_visleafs')
    # a broken format/layout obligation is explained by a mismatch of the corresponding view
    view_of = {'faces': ['faces', 'orig_faces', 'hdr_faces'], 'leafs': ['visleafs'], 'nodes': ['nodes'], 'brushsides': ['brushes'],
               'brushes': ['brushes'], 'planes': ['planes'], 'vertexes': ['vertexes'], 'edges': ['surfedges'], 'surfedges': ['surfedges'],
               'prim': ['primitives'], 'tex': ['texinfo', 'textures'], 'bmodels': ['bmodels'], 'physcollide': ['bmodels'],
               'cubemaps': ['cubemaps'], 'overlay': ['overlays'], 'prop_dict': ['props', 'detail_props'], 'sprp': ['props'],
               'dprp': ['detail_props'], 'vis': ['visibility'], 'leafwater': ['water_leaf_info'], 'leaf': ['visleafs'], 'faceids': ['faces'],
               'texdata': ['texinfo'], 'texinfo': ['texinfo'], 'primitives': ['primitives'], 'detail': ['detail_props']}
    hit_views = {k.split(':')[0] for k in keys} | ({'!any'} if any(k.startswith('!') for k in keys) else set())
    hit_views |= {k.split(':')[1].split('.')[0] for k in keys if k.startswith('no-reject:')}
    for o in ck.obligations:
        if o['ok']:
            continue
        nm = o['name']
        if nm.startswith('instance:overlay_render_order') and hit_views & {'overlays', '!any'}:
            ck.explain(nm)
        if nm.startswith('instance:overlay_record') and hit_views & {'overlays', '!any', '!read', '!save'}:
            ck.explain(nm)
        if nm.startswith('instance:face_primitive_count') and hit_views & {'faces', 'orig_faces', 'hdr_faces', '!any'}:
            ck.explain(nm)
        if nm.startswith('instance:leaf_') and hit_views & {'visleafs', 'no-reject', '!any'}:
            ck.explain(nm)
        if nm.startswith('instance:brushside_bevel') and hit_views & {'brushes', '!any'}:
            ck.explain(nm)
        if nm.startswith('instance:helper_property_split_agrees:StaticPropFlags') and hit_views & {'props', 'no-reject', '!any'}:
            ck.explain(nm)
        if nm.startswith('instance:sprite_dictionary_') and hit_views & {'detail_props', '!any'}:
            ck.explain(nm)
        if nm.startswith('instance:bool_code_agrees:DetailProp') and hit_views & {'detail_props', '!any'}:
            ck.explain(nm)
        if nm.startswith('instance:dedup_key_determines_record:'):
            st = nm.split(':')[2].replace('_lmp_write_', '').replace('_write_', '')
            for pref, views in list(view_of.items()) + [('water_leaf_info', ['water_leaf_info']), ('visleafs', ['visleafs']),
                                                        ('hdr_faces', ['hdr_faces']), ('props', ['props'])]:
                if st.startswith(pref) and (hit_views & set(views) or '!any' in hit_views):
                    ck.explain(nm)
        if nm.startswith('translate:'):
            # a translator that fails closed names the function whose shape it did not recognise: a concrete mismatch of the view that
            # function reads / writes (or a save / re-read that fails altogether) explains it
            import re
            for m in re.finditer(r'_lmp_(?:write|read)_(\w+)|(_write_faces_common|_read_faces_common)|\b(save)\(\)|(write_ent_data|Output\.\w+|escape_text)',
                                 o.get('detail', '')):
                # (write_ent_data / Output.as_keyvalue / Output.SEP / escape_text: the text of the entity lump)
                st = m.group(1) or ('faces' if m.group(2) else 'ents' if m.group(4) else '')
                if m.group(3) and hit_views:
                    ck.explain(nm)
                for pref, views in list(view_of.items()) + [('props', ['props']), ('detail_props', ['detail_props']), ('visleafs', ['visleafs']),
                                                            ('water_leaf_info', ['water_leaf_info']), ('visibility', ['visibility']),
                                                            ('ents', ['ents']), ('textures', ['textures', 'texinfo'])]:
                    if st and st.startswith(pref) and (hit_views & set(views) or hit_views & {'!any', '!read', '!save'}):
                        ck.explain(nm)
        if nm.startswith('instance:index_table_loop_reaches_every_entry:'):
            # a loop that does not reach the entries appended to its table: objects met only through references get an index but no
            # record - the re-read fails (index past the end of the lump) or the view of the writer / of a referring lump differs
            st = nm.split(':')[2].replace('_lmp_write_', '').replace('_write_', '')
            for pref, views in list(view_of.items()) + [('props', ['props']), ('detail_props', ['detail_props'])]:
                if st.startswith(pref) and (hit_views & set(views) or hit_views & {'!any', '!read', '!save'}):
                    ck.explain(nm)
        if nm.startswith('instance:rebuild_order_runs_appending_writers_first') and (hit_views & {'!any', '!read', '!save'} or any(
                'grafted' in k or 'fresh_objects' in k or 'tail_overlap' in k for k in keys)):
            ck.explain(nm)
        if nm.startswith('instance:lump_formats_agree:') or nm.startswith('instance:record_fields_agree:'):
            st = nm.split(':', 2)[2]
            for pref, views in view_of.items():
                if st.startswith(pref) and (hit_views & set(views) or '!any' in hit_views or '!save' in hit_views or '!read' in hit_views):
                    ck.explain(nm)
        if nm.startswith('instance:save_keeps_a_view') and any(k.startswith('retry-after-rejected-save') for k in keys):
            ck.explain(nm)
        if nm.startswith('instance:prop_format_') and (any(k.startswith('from-empty-lump:props') or k.startswith('from-empty-lump:!') or k.startswith('props')
                                                            or k.startswith('never-read-then-assign:props') or k.startswith('never-read-then-assign:!')
                                                            or k.startswith('named-then-read-empty:props') or k.startswith('named-then-read-empty:!')
                                                            for k in keys) or hit_views & {'!read', '!save'}):
            ck.explain(nm)
        if nm.startswith('instance:prop_layout_agree:') or nm.startswith('instance:prop_fields_agree:'):
            if 'props' in hit_views or '!save' in hit_views or '!read' in hit_views:
                ck.explain(nm)
        if nm.startswith('instance:overlay_block') and ('overlays' in hit_views or '!save' in hit_views or '!read' in hit_views):
            ck.explain(nm)


def replay(data: dict) -> int:
    import tempfile
    r = data['replay']
    wd = tempfile.mkdtemp(prefix='sv_c11_replay_', dir='/var/tmp')
    base = os.path.join(wd, 'base.bsp')
    U.make_base(str(REPO / 'tests' / 'test_vec' / 'rot_main.bsp'), base)
    try:
        if r.get('history') == 'retry':
            res = U.retry_after_reject(base, wd, U.Gen(r['seed'], r['cfg'], r['prop_ver'], set(r['feats']), r['size']), r['bad_view'])
            print('implementation (rejected save, value repaired in place, second save, re-read) differences per view:', res or 'none')
            return 1 if res and r['hview'] in res else 0
        if r.get('history') in ('from_empty', 'never_read', 'named'):
            res, _g, chosen = U.from_empty(base, wd, r['cfg'], r['header'], r['seed'], set(r['feats']), r['size'], read_first=r['history'] != 'never_read',
                                           named=r.get('named'))
            print('format chosen after reading the empty lump:', chosen)
            print('implementation (read empty, assign, save, re-read) differences per view:', res or 'none')
            return 1 if r['hview'] in res else 0
        if 'seed' in r and 'view' in r:
            g = U.Gen(r['seed'], r['cfg'], r['prop_ver'], set(r['feats']), r['size'])
            res = U.roundtrip(base, wd, g)
            print('implementation (save + re-read) differences per view:', res or 'none')
            w = g.build()
            print('world sizes:', {v: len(w[v]) for v in U.VIEWS if hasattr(w[v], '__len__')})
            return 1 if r['view'] in res else 0
        if 'names' in r:
            import srctools.bsp as B
            b = B.BSP(base)
            data = b._lmp_write_textures(list(r['names']))
            try:
                back: Any = list(b._lmp_read_textures(data))
            except ValueError as e:
                back = f'ValueError: {e}'
            print('names written', r['names'], 'data block', data, 'names read back', back)
            return 1 if back != list(r['names']) else 0
        if 'clusters' in r:
            from srctools.bsp import runlength_decode, runlength_encode
            row, nxt = bytes(r['row']), bytes(r['next_row'])
            back = bytes(runlength_decode(bytes(runlength_encode(row)) + bytes(runlength_encode(nxt)), 0, r['clusters']))
            print('clusters', r['clusters'], 'row', row, 'read back', back)
            return 1 if back != row else 0
        if 'lump' in r:
            import srctools.bsp as B
            b = B.BSP.__new__(B.BSP)
            b.out_comma_sep = None
            try:
                v = b._lmp_read_ents(bytes(r['lump']))
                ents = [v.spawn] + list(v.entities)
                print('entity', r['entity'], 'wrote', r['wrote'], 'read', [('kv', k, x) for k, x in ents[r['entity']].items()],
                      [(o.exp_out(), o.target, o.exp_in(), o.params, o.delay, o.times) for o in ents[r['entity']].outputs])
            except Exception as e:   # noqa: BLE001
                print('lump', bytes(r['lump']), 'is read with', type(e).__name__, e)
            return 1
        if 'cases' in r and 'comma_sep' in r:
            import ast
            import contextlib
            import io

            import srctools.bsp as B
            from srctools.vmf import VMF, Output
            cases = ast.literal_eval(r['cases'])
            path = os.path.join(wd, 'intnum.bsp')
            shutil_copy = __import__('shutil').copy
            shutil_copy(base, path)
            b = B.BSP(path)
            vmf = VMF()
            vmf.spawn['classname'] = 'worldspawn'
            e = vmf.create_ent('logic_relay')
            for d, t in cases:
                e.add_out(Output('OnTrigger', 'x', 'Kill', '', d, times=t, comma_sep=r['comma_sep']))
            b.ents = vmf
            b.out_comma_sep = r['comma_sep']
            try:
                with contextlib.redirect_stdout(io.StringIO()):
                    b.save(path)
                got = [(o.delay, o.times) for o in B.BSP(path).ents.entities[0].outputs]
            except Exception as e2:   # noqa: BLE001
                print('assigned (delay, times)', cases, 'save + re-read raises', type(e2).__name__, e2)
                return 1
            print('assigned (delay, times)', cases, 're-read', got)
            return 1 if len(got) != len(cases) or any(c[0] != g[0] or c[1] != g[1] for c, g in zip(cases, got)) else 0
        if 'line' in r and 'field' in r:
            import ast

            from srctools.vmf import Output
            val = ast.literal_eval(r['value'])
            o = Output('OnTrigger', 't', 'Kill', '', val if r['field'] == 'delay' else 0.0, times=val if r['field'] == 'times' else -1, comma_sep=r['comma_sep'])
            line = o.as_keyvalue()
            text_ = line.rstrip('\n').rstrip('"').rsplit(',' if r['comma_sep'] else Output.SEP, 2)[-2 if r['field'] == 'delay' else -1]
            print('Output.' + r['field'], '=', repr(val), 'is written as', repr(line), '- field text', repr(text_))
            try:
                return 0 if int(text_) == int(val) and text_.strip() == text_ else 1
            except ValueError:
                return 1
        if 'blocks' in r:
            from weakref import WeakKeyDictionary

            import srctools.bsp as B
            from srctools.keyvalues import Keyvalues
            from srctools.math import Vec
            from srctools.vmf import VMF, Entity
            b = B.BSP(base)
            vmf = VMF()
            vmf.spawn['classname'] = 'worldspawn'
            n_models = max([k for k, _, _ in r['blocks']] + [0]) + 1
            ents = [vmf.spawn]
            for _ in range(n_models - 1):
                e = Entity(vmf, {'classname': 'func_brush'})
                vmf.add_ent(e)
                ents.append(e)
            bm: Any = WeakKeyDictionary()
            for k, e in enumerate(ents):
                bm[e] = B.BModel(Vec(), Vec(), Vec(), b.nodes[0], [])
            for k, ss, t in r['blocks']:
                bm[ents[k]]._phys_solids = [bytes(x) for x in ss]
                bm[ents[k]].phys_keyvalues = Keyvalues.parse(t) if t else None
            b.ents = vmf
            chunks = b''.join(b._lmp_write_bmodels(bm))
            print('PHYSCOLLIDE lump written:', b.lumps[B.BSP_LUMPS.PHYSCOLLIDE].data)
            try:
                back = b._lmp_read_bmodels(chunks)
                got = [[k, [list(x) for x in back[e]._phys_solids], back[e].phys_keyvalues.serialise()] for k, e in enumerate(ents)
                       if back[e]._phys_solids or back[e].phys_keyvalues is not None]
            except Exception as e:   # noqa: BLE001
                print('read back with', type(e).__name__, e)
                return 1
            print('wrote', r['blocks'], 'read', got)
            return 1 if got != r['blocks'] else 0
        if 'requests' in r:
            from srctools.binformat import find_or_extend
            lst = list(r['initial'])
            f = find_or_extend(lst, lambda x: x)
            idx = [f(list(s)) for s in r['requests']]
            print('indexes', idx, 'final table', lst, 'selected', [lst[i:i + len(s)] for i, s in zip(idx, r['requests'])])
            return 0
        print(r)
        return 0
    finally:
        import shutil
        shutil.rmtree(wd, ignore_errors=True)
