"""C02 — escape_text and the tokenizer are exact inverses on every string."""
from __future__ import annotations

import itertools
import json
from typing import Any

from harness import c02_util as U
from harness.common import VERIF, Ck, coq_list, coq_str, parse_coq_N_list, parse_coq_nested
from translate import c02_hstring, c02_tables

MANIFEST = dict(
    technique='Rocq proof generic over the escape tables (induction over the string; tables AND the shape of escape_text regenerated '
              'from tokenizer.py, side conditions kernel-checked; the loop of _handle_string read from the source as a decision table by '
              'abstract execution, proved equal to the hand model when its rows are the model\'s) + exhaustive code-point / small-scope correspondence + in-kernel '
              'small-scope enumeration of the model of the code + oracle search (incl. histories: state carried from one tokenizer to the next); '
              'round 4: _get_token / _handle_comment read from the source as decision trees proved equal to the hand model when they pass eight '
              'boolean conditions, a state census, and the whole property in one theorem for the three functions as written; '
              'round 5: histories of calls (escape_text in the other mode first, fresh interpreters), options set through the public attributes '
              'after construction / between tokens (oracle, correspondence with the constructor form, option census), an escape_text state census, '
              'look-ahead regexes modelled, one option vector per call in the trace theorem',
    text='Theorems in Props/C02.v, for every string (list of code points), both multiline modes, every option vector with '
         'allow_escapes, any starting line and any text following the closing quote: tokenizing DQ+escape(s)+DQ yields exactly '
         'STRING s then EOF for ever (flat input and the chunked reader state of the real class, any chunking); the escaped '
         'text decomposes into raw characters and backslash+symbol units whose raw units are never a double quote or CR, and '
         'in single-line mode contains no LF/CR at all. escape_text itself is translated into a pipeline of whole-string steps '
         '(regex substitution with the table callback - all matches or the first n -, str.replace, each conditional on multiline); if the steps of a mode are '
         'exactly one substitution (obligation escape_text_is_one_table_substitution_*) the pipeline IS the per-character model '
         '(c02_escape_text_is_charwise) and the inverse law holds for the function as written (c02_escape_text_tokenize_inverse); a '
         'post-processing pipeline is refuted by a computed witness. Tokenizer._handle_string is executed on abstract values for every '
         'combination its loop body can distinguish (class of the character x last_was_cr x allow_escapes x class of the character after '
         'a backslash: 32 rows); a table of such rows has a meaning as a reader program (hs_interp), and if the rows are the model\'s '
         '(obligation handle_string_rows_are_the_model) that program IS the hand model handle_string on every input, flat or chunked '
         '(c02_handle_string_table_is_model*), so the inverse law holds for both functions as written (c02_inverse_as_written). '
         'Round 4: _get_token and _handle_comment are executed on abstract values segment by segment (outer loop, four inner loops, entry of '
         '_handle_comment, its two loops) into decision trees; if the trees compute the model\'s functions on every consistent abstract '
         'environment (eight obligations) their interpretation IS the hand model get_token on every input, flat and chunked; '
         'c02_property_as_written composes everything: pipeline read from escape_text + trees + rows of _handle_string, under the named '
         'boolean conditions, give exactly STRING s then EOF for ever for every string, both modes and ANY chunking. A state census '
         '(no data attribute bound in the class body, no self attribute / module name outside line_num, _last_was_cr, the options and the '
         'reader read or written, constant tables never mutated) backs the premise that nothing outlives a call. '
         'Round 5: the options are public settable attributes read by every call: tokens_flat_opts gives a trace one option vector per call, '
         'c02_inverse_options_read_at_call_time / c02_one_call_as_written say that escapes need to be enabled only during the call that reads '
         'the string, from any reader state left by earlier calls; that the class really reads the attributes at call time is the obligation '
         'tokenizer_options_are_read_from_the_public_attribute_at_call_time (option census of __init__ and the class body) and the '
         'correspondence options_by_attribute (constructor form vs every option inverted at construction and set by setattr). escape_text is '
         'modelled as a function of (text, multiline): the obligation escape_text_uses_no_state_outliving_the_call (census of escape_text, its '
         'callback and helpers: decorators, global, mutable module-level objects, shared defaults) backs that. A regex alternative X(?!Y) is '
         'modelled (PSubLA: X is copied when Y follows); such a pipeline is never one table substitution (c02_lookahead_refuted). When the body '
         'of escape_text is outside the statement language, translate:escape_text fails by name and a per-character stand-in sampled from the '
         'implementation keeps every other obligation and correspondence evaluated. '
         'The theorems are generic over the tables; the conditions '
         '(every escape decodes back, no symbol is a line feed, DQ/CR/backslash always escaped, LF escaped in single-line mode, '
         'DQ is not an operator) are discharged by vm_compute for the tables regenerated from the source on every run. '
         'The model of the code (pipeline + tokenizer model) is enumerated inside Coq on all strings over the 14-character escape '
         'alphabet up to length 3 (any counterexample is replayed on the implementation); escape_text is compared with the model on '
         'every code point 0..0x10FFFF in both modes and on all strings over that alphabet up to length 4; the string-reading '
         'loop of the model is compared with the real Tokenizer on every text DQ+w, w up to length 4, with and without escapes.',
    note='Trusted: Coq kernel + vm_compute (incl. primitive Uint63 for checksums), translate/c02_tables.py, translate/c02_hstring.py (the '
         'abstract executor of the _handle_string loop body: fail-closed on anything outside its statement language), translate/c02_gettoken.py '
         '(the same for the segments of _get_token / _handle_comment, and the state census), the hand model '
         'Text/Tokenizer.v (tied by exhaustive small-scope differential runs and now by the table / the trees read from the source), CPython re/str '
         '(a regex that is an alternation of single characters substitutes per character; str.replace is leftmost non-overlapping). '
         'The Cython twins (_tokenizer.pyx) cannot be built here and are not covered. Embedding in VMF/BSP/DMX files is '
         'covered only through the compositional theorem (any rest of input) and Tokenizer/Keyvalues.parse-level search.',
)

ESC_ALPHA = ['\\', '"', "'", '\r', '\n', '\t', '\v', '\b', '\f', '\a', '?', '/', 'n', 'x']
NAMES = {'\\': 'backslash', '"': 'dquote', "'": 'apostrophe', '\r': 'CR', '\n': 'LF', '\t': 'TAB', '\v': 'VT', '\b': 'BS',
         '\f': 'FF', '\a': 'BEL', '?': 'qmark', '/': 'slash'}
BITS_ESC = 0b0000110      # string_parens + allow_escapes (the defaults)
BITS_NOESC = 0b0000010


def cname(c: str) -> str:
    return NAMES.get(c, 'ascii' if c.isascii() and c.isprintable() else f'U+{ord(c):04X}')


# ------------------------------------------------------------------------------------------------ oracle on the implementation
def units_bad(esc: str, multiline: bool) -> str | None:
    """Scan the escaped text unit-wise (raw char / backslash+symbol). Returns the name of a violation or None."""
    i = 0
    while i < len(esc):
        c = esc[i]
        if c == '\\':
            if i + 1 >= len(esc):
                return 'dangling-backslash'
            if esc[i + 1] in '\r\n':
                return 'linebreak-symbol'
            i += 2
            continue
        if c == '"':
            return 'raw-dquote'
        if c == '\r':
            return 'raw-CR'
        if c == '\n' and not multiline:
            return 'raw-LF'
        i += 1
    if not multiline and ('\n' in esc or '\r' in esc):
        return 'linebreak-in-single-line'
    return None


VIAS = ('ctor', 'attr', 'switch')
VIA_SUFFIX = {'attr': '-options-by-attribute', 'switch': '-options-switched-between-tokens'}


def oracle(s: str, multiline: bool, pre: str = '', post: str = '', cut: int | None = None, bits: int = BITS_ESC, via: str = 'ctor') -> str | None:
    """The property on the real code. Returns None if it holds, else a short description.  Every call is bounded in time: a fault
    that makes escape_text or the tokenizer loop is a failing input ('no result within ... s'), not a hung check.
    `via`: how the tokenizer gets its options (they are documented, settable attributes, and "with escapes enabled" does not say how):
    'ctor' = constructor arguments; 'attr' = constructed with every option the other way round, then set through the attributes;
    'switch' = constructed the other way round, the tokens of `pre` are read that way, THEN the attributes are set (between tokens)."""
    try:
        with U.time_limit():
            return _oracle(s, multiline, pre, post, cut, bits, via)
    except U.ImplTimeout:
        U.note_hang('oracle', (s, multiline, pre, post, cut, bits, via))
        return f'hang: no result within {U.IMPL_LIMIT_S:.0f} s of CPU time'


_ALIAS: dict[str, Any] = {}      # set while an alias of escape_text / Tokenizer found in another module is being tried


def _oracle(s: str, multiline: bool, pre: str, post: str, cut: int | None, bits: int, via: str = 'ctor') -> str | None:
    from srctools.tokenizer import Token, Tokenizer, TokenSyntaxError, escape_text
    escape_text = _ALIAS.get('escape_text', escape_text)
    Tokenizer = _ALIAS.get('Tokenizer', Tokenizer)
    try:
        esc = escape_text(s, multiline)
    except Exception as e:  # noqa: BLE001
        return f'escape_text raised {type(e).__name__}'
    ub = units_bad(esc, multiline)
    if ub:
        return ub
    text = pre + '"' + esc + '"' + post
    data: Any = text if cut is None else [text[:cut], '', text[cut:]]
    pre_bits = bits
    if via == 'switch' and pre:
        try:        # the tokens of `pre` are read with every option the other way round - if that is possible at all
            want_pre = list(Tokenizer(pre, None, **U.opts_of_bits(bits ^ U.ALL_OPTS)))
            pre_bits = bits ^ U.ALL_OPTS
        except TokenSyntaxError:
            via = 'attr'
    elif via == 'switch':
        via = 'attr'
    tk = Tokenizer(data, None, **U.opts_of_bits(pre_bits)) if via == 'switch' else U.make_tokenizer(Tokenizer, data, bits, via)
    try:
        if pre:
            want_pre = list(Tokenizer(pre, None, **U.opts_of_bits(pre_bits)))
            got_pre = [tk() for _ in want_pre]
            if got_pre != want_pre:
                return 'prefix-tokens-changed'
        if via == 'switch':
            for k, v in U.opts_of_bits(bits).items():
                setattr(tk, k, v)
        line0 = tk.line_num
        got = tk()
        if got != (Token.STRING, s):
            return f'got {got[0].name}:{got[1]!r}'
        want_line = line0 + (s.count('\n') if '\n' in esc else 0)
        if tk.line_num != want_line:
            return f'line_num {tk.line_num} != {want_line}'
        rest = [tk() for _ in range(3)] if not post else None
        if rest is not None and any(t is not Token.EOF for t, _ in rest):
            return 'no-EOF-after-string'
        if post:
            want_post = list(Tokenizer(post, None, **U.opts_of_bits(bits)))
            got_post = [tk() for _ in want_post]
            if got_post != want_post or tk()[0] is not Token.EOF:
                return 'suffix-tokens-changed'
    except TokenSyntaxError as e:
        return f'TokenSyntaxError {e.mess!r}'
    except Exception as e:  # noqa: BLE001
        return f'{type(e).__name__}'
    return None


def kv_oracle(s: str, multiline: bool, via: str = 'ctor') -> str | None:
    """The escaped string as key and as value (plain and flagged line) of a KeyValues block, through Keyvalues.parse.
    via='attr': Keyvalues.parse is handed a tokenizer that was built with allow_escapes=False and had the option switched on
    through the attribute afterwards (a parser that learns from a header whether the file uses escapes)."""
    try:
        with U.time_limit():
            return _kv_oracle(s, multiline, via)
    except U.ImplTimeout:
        U.note_hang('kv_oracle', (s, multiline, via))
        return f'hang: no result within {U.IMPL_LIMIT_S:.0f} s of CPU time'


def _kv_oracle(s: str, multiline: bool, via: str = 'ctor') -> str | None:
    from srctools.keyvalues import Keyvalues
    from srctools.tokenizer import Tokenizer, escape_text
    esc = escape_text(s, multiline)
    text = '"blk"\n{\n\t"' + esc + '" "' + esc + '"\n\t"k2" "' + esc + '" [flag]\n}\n'
    try:
        src: Any = text
        if via != 'ctor':
            src = Tokenizer(text, None, string_bracket=True, allow_escapes=False)      # the options Keyvalues.parse itself uses
            src.allow_escapes = True
        kv = Keyvalues.parse(src, flags={'flag': True}, newline_keys=True, newline_values=True)
        blk = kv.find_key('blk')
        got = [(c.real_name, c.value) for c in blk]
    except Exception as e:  # noqa: BLE001
        return f'Keyvalues.parse raised {type(e).__name__}: {e}'
    want = [(s, s), ('k2', s)]
    if s.casefold() == 'k2':        # a flagged key replaces an earlier key of the same name (KeyValues semantics, not C02)
        want = want[1:]
    if got != want:
        return f'Keyvalues.parse gave {got!r}'
    return None


def shrink(s: str, pred) -> str:
    cur = s
    changed = True
    while changed:
        changed = False
        for i in range(len(cur)):
            cand = cur[:i] + cur[i + 1:]
            if pred(cand):
                cur, changed = cand, True
                break
    # replace exotic characters by 'x' where that keeps the failure
    for i, c in enumerate(cur):
        if c not in NAMES and c != 'x':
            cand = cur[:i] + 'x' + cur[i + 1:]
            if pred(cand):
                cur = cand
    return cur


# ------------------------------------------------------------------------------------------------ histories: state carried between tokenizers
POISONS = [
    ('unterminated-string', '"value that is never closed\n'),
    ('unterminated-string-after-CR', '"ab\r'),
    ('dangling-escape', '"ab\\'),
    ('unterminated-bracket', '[abc'),
    ('unterminated-paren', '(abc\n'),
    ('unclosed-star-comment', '/* abc\n'),
    ('nested-paren', '(a(b'),
    ('complete-parse', '"a" "b\\n"\r\n// c\n{ }'),
    ('iterator-raises-inside-a-string', None),
    ('tokenizer-abandoned-inside-a-string', None),
    ('keyvalues-parse-fails', '"a" { "b" "c'),
]


def run_poison(kind: str) -> None:
    """Something that happens BEFORE the string is tokenized, in the same process: a parse that fails inside a quoted string / a
    bracket / a comment, a complete parse, a chunk iterator that raises in the middle of a string, a tokenizer that is simply
    dropped in the middle of a string, a failing Keyvalues.parse.  None of it may influence a later, unrelated tokenizer."""
    from srctools.tokenizer import Tokenizer, TokenSyntaxError
    text = dict(POISONS)[kind]
    try:
        if kind == 'iterator-raises-inside-a-string':
            def chunks():
                yield '"abc'
                yield 'def\r'
                raise RuntimeError('iterator failed')
            list(Tokenizer(chunks(), None, allow_star_comments=True, string_bracket=True))
        elif kind == 'tokenizer-abandoned-inside-a-string':
            class Stop(Exception):
                pass

            def chunks2():
                yield '"abc'
                raise Stop
            try:
                Tokenizer(chunks2(), None)()
            except Stop:
                pass
        elif kind == 'keyvalues-parse-fails':
            from srctools.keyvalues import Keyvalues
            Keyvalues.parse(text)
        else:
            list(Tokenizer(text, None, allow_star_comments=True, string_bracket=True))
    except (TokenSyntaxError, RuntimeError):
        pass


def history_search(ck: Ck) -> None:
    """After each kind of earlier event, every string over the escape alphabet up to length 2 (both modes) must still round-trip
    through a NEW tokenizer; also through Keyvalues.parse for length <= 1."""
    reported: set[str] = set()
    for kind, _ in POISONS:
        for ml in (False, True):
            for s in U.strings_upto(ESC_ALPHA, 2):
                run_poison(kind)
                ck.count('search_history')
                r = oracle(s, ml)
                if r is None and len(s) <= 1:
                    run_poison(kind)
                    r = kv_oracle(s, ml)
                    kv = r is not None
                else:
                    kv = False
                if len(s) == 2 and s[0] != s[1]:
                    ck.seen(('h', kind, ml, s))
                if r is None:
                    continue
                # the same call again, with nothing in between: if it fails in the same way the failure does not depend on the
                # history (the exhaustive search below reports it under its own key)
                if (kv_oracle(s, ml) if kv else oracle(s, ml)) == r:
                    ck.count('search_history_independent_failures')
                    continue
                mode = 'multi' if ml else 'single'
                key = f'roundtrip-after-{kind}-{mode}' + ('-kvparse' if kv else '')
                if key in reported:
                    ck.count('search_failures_beyond_cap')
                    continue
                reported.add(key)
                ck.violation(key, f'after {kind}: escape_text({s!r}, multiline={ml}) no longer tokenizes back: {r}',
                             {'s': [ord(c) for c in s], 'multiline': ml, 'context': {'kv': True} if kv else {}, 'history': kind, 'why': r,
                              'how': 'checks.c02.run_poison(history); checks.c02.oracle("".join(map(chr, s)), multiline)'})
    ck.hist('search', f'histories: {len(POISONS)} kinds of earlier event x strings up to length 2 x 2 modes', 2 * len(POISONS) * 211)


# ------------------------------------------------------------------------------------------------ the public names are the checked objects
def public_names(ck: Ck) -> None:
    """The translators read `def escape_text` and `class Tokenizer` in tokenizer.py; callers get whatever the NAMES are bound to
    when the import has finished (the module ends with a block that selects between a C and a Python version; other modules
    re-export the names: srctools.keyvalues.escape_text is what vmf.py uses).  Obligation: every public name by which the two can
    be reached is the very object that was compiled from the definition the translators read - a plain function / class, not a
    wrapper, a partial, a subclass or a second definition.  A name that is something else is tried with the oracle."""
    import importlib
    import types

    from harness.common import REPO
    import srctools.tokenizer as T
    bad: list[str] = []
    side = ck.extra.get('translated', {}).get('EscTables_gen', {})
    f = T.escape_text
    if not (isinstance(f, types.FunctionType) and f.__module__ == 'srctools.tokenizer' and f.__name__ == 'escape_text' and f.__closure__ is None
            and f.__defaults__ == (False,) and not f.__kwdefaults__ and not f.__dict__):
        bad.append(f'srctools.tokenizer.escape_text is {f!r} (module {getattr(f, "__module__", "?")}, defaults {getattr(f, "__defaults__", "?")}, '
                   f'attributes {sorted(getattr(f, "__dict__", {}))}): not the plain function defined in tokenizer.py')
    elif side.get('escape_text_line') and f.__code__.co_firstlineno != side['escape_text_line']:
        bad.append(f'srctools.tokenizer.escape_text was compiled from line {f.__code__.co_firstlineno}, the translator read the definition at line {side["escape_text_line"]}')
    K = T.Tokenizer
    if not (isinstance(K, type) and K.__module__ == 'srctools.tokenizer' and K.__qualname__ == 'Tokenizer'):
        bad.append(f'srctools.tokenizer.Tokenizer is {K!r}: not the class defined in tokenizer.py')
    else:
        for m in ('__init__', '__call__', '_get_token', '_handle_string', '_handle_comment', '_next_char'):
            holder = next((c for c in K.__mro__ if m in c.__dict__), None)
            fn = holder.__dict__[m] if holder is not None else None
            if not (isinstance(fn, types.FunctionType) and fn.__module__ == 'srctools.tokenizer' and not fn.__dict__ and fn.__code__.co_freevars in ((), ('__class__',))) \
                    or (m != '__call__' and holder is not K):
                bad.append(f'Tokenizer.{m} is {fn!r} (found in {holder}): not a plain method of the class in tokenizer.py')
    ref = {'escape_text': T.escape_text, 'Tokenizer': T.Tokenizer}
    aliases = [('srctools.tokenizer', a, getattr(T, a, None), r) for a, r in (('_py_escape_text', 'escape_text'), ('cy_escape_text', 'escape_text'),
                                                                            ('Py_Tokenizer', 'Tokenizer'), ('Cy_Tokenizer', 'Tokenizer'))]
    # every module of the package that imports one of the two names re-exports it
    src = REPO / 'src' / 'srctools'
    import ast as _ast
    mods = 0
    for path in sorted(src.rglob('*.py')):
        try:
            tree = _ast.parse(path.read_text(encoding='utf8'))
        except (SyntaxError, OSError, UnicodeDecodeError):
            continue
        got = {(a.asname or a.name) for n in tree.body if isinstance(n, _ast.ImportFrom) for a in n.names if a.name in ref}
        got |= {n.name for n in tree.body if isinstance(n, (_ast.FunctionDef, _ast.ClassDef)) and n.name in ref}
        if not got or path.name == 'tokenizer.py':
            continue
        name = '.'.join(('srctools',) + path.relative_to(src).with_suffix('').parts).removesuffix('.__init__')
        try:
            with U.time_limit():
                mod = importlib.import_module(name)
        except BaseException as e:  # noqa: BLE001 - optional dependencies, Cython-only modules
            ck.count('alias_modules_not_importable')
            if isinstance(e, (KeyboardInterrupt, SystemExit)):
                raise
            continue
        mods += 1
        for a in sorted(got):
            orig = next((al.name for n in tree.body if isinstance(n, _ast.ImportFrom) for al in n.names if (al.asname or al.name) == a and al.name in ref), a)
            aliases.append((name, a, getattr(mod, a, None), orig))
    tried = 0
    for modname, a, obj, r in aliases:
        ck.count('public_aliases')
        if obj is ref[r]:
            continue
        bad.append(f'{modname}.{a} is {obj!r}, not srctools.tokenizer.{r}')
        if not callable(obj) or tried >= 4:
            continue
        tried += 1
        _ALIAS[r] = obj
        try:
            done = False
            for ml in (False, True):
                for s_ in U.strings_upto(ESC_ALPHA, 2):
                    why = oracle(s_, ml)
                    if why is not None and not done:
                        done = True
                        mode = 'multi' if ml else 'single'
                        kind = why.split(' ')[0] if why.startswith(('raw-', 'linebreak', 'dangling')) else 'roundtrip'
                        ck.violation(f'{kind}-{mode}-{"+".join(cname(c) for c in s_) or "empty"}-through-{modname}.{a}',
                                     f'{modname}.{a} is not srctools.tokenizer.{r}; with it, s={s_!r} multiline={ml}: {why}',
                                     {'s': [ord(c) for c in s_], 'multiline': ml, 'context': {}, 'alias': [modname, a, r], 'why': why,
                                      'how': f'the property with {modname}.{a} in the place of srctools.tokenizer.{r}'})
        finally:
            _ALIAS.clear()
    ck.hist('tie', f'public names compared by identity ({len(aliases)} names in {mods + 1} modules)', len(aliases))
    ck.obligation('tie:public_names_are_the_checked_objects', not bad,
                  f'escape_text / Tokenizer as importers get them ({len(aliases)} names in {mods + 1} modules of the package, the Py_/Cy_/_py_/cy_ aliases '
                  f'included) are the plain function / class compiled from the definitions the translators read: '
                  + ('yes' if not bad else '; '.join(bad[:6])))
    if bad:
        ck.tie_broken.append(f'public names are not the checked objects: {bad[:3]}')


# ------------------------------------------------------------------------------------------------ histories of escape_text calls (fresh interpreters)
ESC_HISTORY = 'escape_text-called-in-the-other-mode-first'


def _fresh(code: str, timeout: int = 600) -> Any:
    """Run `code` (which prints one JSON value) in a FRESH interpreter with the implementation on its path."""
    import subprocess
    import sys
    from harness.common import ENV_IMPL
    r = subprocess.run([sys.executable, '-c', code], capture_output=True, text=True, timeout=timeout, env=ENV_IMPL, cwd=str(VERIF))
    if r.returncode != 0:
        raise U.Inconclusive(f'fresh interpreter failed: rc={r.returncode} {r.stderr[-400:]}')
    return json.loads(r.stdout.strip().splitlines()[-1])


def _esc_history_child(first_multiline: bool, n: int) -> None:
    """(child) For every string over the escape alphabet up to length n, in an interpreter that has not called escape_text before:
    escape_text(s, first mode) - result ignored -, then the property in the OTHER mode, then again in the first mode.  A function
    of (text, multiline) cannot tell; a memo keyed by the text alone can."""
    from srctools.tokenizer import escape_text
    bad = []
    for s in U.strings_upto(ESC_ALPHA, n):
        try:
            escape_text(s, first_multiline)
        except Exception:  # noqa: BLE001
            pass
        for ml in (not first_multiline, first_multiline):
            r = oracle(s, ml)
            if r is not None:
                bad.append([[ord(c) for c in s], ml, r, ml != first_multiline])
    print(json.dumps(bad))


def reproduces_fresh(s: str, ml: bool, kw: dict, history: bool) -> bool:
    """Does oracle(s, ml, **kw) fail in a fresh interpreter (optionally after escape_text(s, not ml))?"""
    pre = f'escape_text({s!r}, {not ml}); ' if history else ''
    code = ('import json; from srctools.tokenizer import escape_text; import checks.c02 as c; ' + pre
            + f'print(json.dumps(c.oracle({s!r}, {ml}, **{kw!r}) is not None))')
    return bool(_fresh(code))


def escape_history_search(ck: Ck) -> None:
    """escape_text is a function of (text, multiline): calling it in one mode must not change what it returns in the other mode
    later.  Two fresh interpreters (single-line first / multiline first), every string up to length 2 (3 thorough)."""
    n = 3 if ck.thorough else 2
    reported: set[str] = set()
    import subprocess
    for first in (False, True):
        try:
            bad = _fresh(f'import checks.c02 as c; c._esc_history_child({first}, {n})', timeout=300)
        except (U.Inconclusive, subprocess.TimeoutExpired, OSError, ValueError) as e:
            # a search that could not run reduces coverage, it is not a finding; a fault that breaks or hangs escape_text itself is
            # reported by the in-process searches
            ck.notes.append(f'escape_text histories ({"multiline" if first else "single-line"} first): fresh interpreter gave no result: {str(e)[:200]}')
            ck.count('search_escape_text_histories_not_run')
            continue
        ck.count('search_escape_text_histories', 2 * sum(len(ESC_ALPHA) ** k for k in range(n + 1)))
        for codes, ml, why, after_other in bad:
            s = ''.join(map(chr, codes))
            if not after_other or reproduces_fresh(s, ml, {}, False):
                ck.count('search_history_independent_failures')     # fails without any history: the exhaustive search reports it
                continue
            mode = 'multi' if ml else 'single'
            kind = why.split(' ')[0] if why.startswith(('raw-', 'linebreak', 'dangling')) else 'roundtrip'
            cls = '+'.join(cname(c) for c in s) or 'empty'
            key = f'{kind}-{mode}-{cls}-after-{ESC_HISTORY}'
            k0 = f'{kind}-{mode}'
            if k0 in reported:
                ck.count('search_failures_beyond_cap')
                continue
            reported.add(k0)
            ck.violation(key, f'after escape_text({s!r}, multiline={not ml}) in the same interpreter, escape_text({s!r}, multiline={ml}) no longer satisfies the property: {why}',
                         {'s': codes, 'multiline': ml, 'context': {}, 'history': ESC_HISTORY, 'why': why,
                          'how': 'fresh interpreter: escape_text(s, not multiline); checks.c02.oracle(s, multiline)'})
    ck.hist('search', f'escape_text histories: other mode first, 2 fresh interpreters x strings up to length {n}', 4 * sum(len(ESC_ALPHA) ** k for k in range(n + 1)))


CAP = 3
_REPORTED: dict[str, int] = {}


def report(ck: Ck, s: str, ml: bool, why: str, ctx: dict | None = None) -> None:
    ctx = ctx or {}
    # at most CAP shrunk replays per class of failure (kind of failure x mode x how it was embedded): a fault that breaks
    # thousands of random strings must not produce thousands of replays (each one is shrunk, which costs oracle runs)
    via = ctx.get('via', 'ctor')
    cls0 = (why.split(' ')[0] if why.startswith(('raw-', 'linebreak', 'dangling')) else 'roundtrip') + ('-multi' if ml else '-single') \
        + ('-kvparse' if ctx.get('kv') else '-embedded' if set(ctx) - {'via'} else '') + VIA_SUFFIX.get(via, '')
    _REPORTED[cls0] = _REPORTED.get(cls0, 0) + 1
    if _REPORTED[cls0] > CAP:
        ck.count('search_failures_beyond_cap')
        return
    kw = {k: ctx[k] for k in ('pre', 'post', 'cut', 'bits', 'via') if k in ctx}
    if ctx.get('kv'):
        small = shrink(s, lambda t: kv_oracle(t, ml, via) is not None)
        why = kv_oracle(small, ml, via) or why
        if via != 'ctor' and kv_oracle(small, ml) is not None:       # fails with constructor options too: how the options are set is irrelevant
            ctx = {'kv': True}
            via = 'ctor'
    else:
        small = shrink(s, lambda t: oracle(t, ml, **kw) is not None)
        why = oracle(small, ml, **kw) or why
        # does the bare form (constructor options, no context) fail too? then the context is irrelevant
        if ctx and oracle(small, ml) is not None:
            ctx = {}
            via = 'ctor'
            small = shrink(small, lambda t: oracle(t, ml) is not None)
            why = oracle(small, ml) or why
        elif via != 'ctor':
            kw0 = {k: v for k, v in kw.items() if k != 'via'}
            if oracle(small, ml, **kw0) is not None:                  # the context alone does it
                ctx, via = dict(kw0), 'ctor'
            elif via == 'attr' and oracle(small, ml, via='attr') is not None:   # setting the options by attribute alone does it
                ctx = {'via': 'attr'}
                small = shrink(small, lambda t: oracle(t, ml, via='attr') is not None and oracle(t, ml) is None)
                why = oracle(small, ml, via='attr') or why
    from srctools.tokenizer import escape_text
    mode = 'multi' if ml else 'single'
    cls = '+'.join(cname(c) for c in small) or 'empty'
    kind = why.split(' ')[0] if why.startswith(('raw-', 'linebreak', 'dangling')) else 'roundtrip'
    key = f'{kind}-{mode}-{cls}' + ('-kvparse' if ctx.get('kv') else '-embedded' if set(ctx) - {'via'} else '') + VIA_SUFFIX.get(via, '')
    try:
        esc = escape_text(small, ml)
    except Exception as e:  # noqa: BLE001
        esc = f'<{type(e).__name__}>'
    hist = None
    if not ctx.get('kv'):
        kw1 = {k: ctx[k] for k in ('pre', 'post', 'cut', 'bits', 'via') if k in ctx}
        try:
            if not reproduces_fresh(small, ml, kw1, False):
                # the failure needs something that happened earlier in this process
                hist = ESC_HISTORY if reproduces_fresh(small, ml, kw1, True) else 'earlier-calls-in-the-checking-process'
                key += f'-after-{hist}'
        except (U.Inconclusive, OSError, ValueError, __import__('subprocess').TimeoutExpired):
            pass
    how = {'attr': ' [tokenizer built with every option the other way round, options then set through the attributes]',
           'switch': ' [options set through the attributes after the tokens of the prefix were read]'}.get(via, '')
    if hist:
        how += f' [only after {hist}: in a fresh interpreter the same call passes]'
    rep = {'s': [ord(c) for c in small], 'multiline': ml, 'context': ctx, 'why': why,
           'how': 'checks.c02.oracle("".join(map(chr, s)), multiline, **context)'}
    if hist:
        rep['history'] = hist
    ck.violation(key, f'escape_text({small!r}, multiline={ml}) = {esc!r}: {why}{how}', rep)


def search(ck: Ck, escalate: bool) -> None:
    import random
    n = 5 if (ck.thorough or escalate or ck.tie_broken) else 4
    # (0) corpus first
    for s in json.loads((VERIF / 'corpus' / 'C02' / 'strings.json').read_text()):
        for ml in (False, True):
            ck.count('search_corpus')
            r = oracle(s, ml) or kv_oracle(s, ml)
            if r is not None:
                report(ck, s, ml, r)
    # (h) histories: state carried from one tokenizer to the next
    history_search(ck)
    escape_history_search(ck)
    # (a) exhaustive over the escape alphabet
    for ml in (False, True):
        for s in U.strings_upto(ESC_ALPHA, n):
            ck.count('search_exhaustive')
            r = oracle(s, ml)
            if r is not None:
                report(ck, s, ml, r)
            if len(s) >= 2:
                ck.seen(('x', ml, s))
    ck.hist('search', f'exhaustive alphabet {len(ESC_ALPHA)} up to length {n}, both modes', 2 * sum(len(ESC_ALPHA) ** k for k in range(n + 1)))
    # (a') the same with the options set through the public attributes after construction (every option was the other way round
    #      in the constructor), and through Keyvalues.parse on such a tokenizer
    for ml in (False, True):
        for s in U.strings_upto(ESC_ALPHA, n - 1):
            ck.count('search_exhaustive_options_by_attribute')
            r = oracle(s, ml, via='attr')
            if r is not None:
                report(ck, s, ml, r, {'via': 'attr'})
            if len(s) <= 2:
                r = kv_oracle(s, ml, 'attr')
                if r is not None:
                    report(ck, s, ml, r, {'kv': True, 'via': 'attr'})
            if len(s) >= 2:
                ck.seen(('xa', ml, s))
    ck.hist('search', f'exhaustive alphabet {len(ESC_ALPHA)} up to length {n - 1}, both modes, options set by attribute', 2 * sum(len(ESC_ALPHA) ** k for k in range(n)))
    # (b) random longer strings: full Unicode incl. surrogates, embedded, chunked, other option vectors, Keyvalues.parse
    rng: random.Random = ck.rng
    contexts = [('', ''), ('"key" ', ' [flag]\n'), ('\r', '\n"next"'), ('{ ', ' }'), ('"a" "b"\r\n\t', '\r\n"c"'),
                ('// comment\n', ' // after\n'), ('bare ', ' bare'), ('"q"', '"r"'), ('=', ','), ('\n\n\n', '')]
    m = ck.budget(3000, 60000)
    for i in range(m):
        L = rng.choice([1, 2, 3, 5, 8, 13, 40, 200])
        pool = rng.choice(['esc', 'mixed', 'uni'])
        def ch():
            if pool == 'esc' or (pool == 'mixed' and rng.random() < 0.5):
                return rng.choice(ESC_ALPHA)
            r = rng.random()
            if r < 0.4:
                return chr(rng.randint(0, 0x7F))
            if r < 0.6:
                return chr(rng.randint(0xD800, 0xDFFF))
            if r < 0.8:
                return chr(rng.randint(0x80, 0xFFFF))
            return chr(rng.randint(0x10000, 0x10FFFF))
        s = ''.join(ch() for _ in range(L))
        ml = rng.random() < 0.5
        pre, post = rng.choice(contexts)
        bits = BITS_ESC | rng.choice([0, 0, 1, 8, 16, 24, 32, 64, 121])
        if bits & 1 and '[' in post:
            pre, post = '', ''
        total = len(pre) + len(post) + 2 + 2 * L
        cut = rng.randint(0, total) if rng.random() < 0.5 else None
        via = VIAS[i % 3]
        ctx = {'pre': pre, 'post': post, 'cut': cut, 'bits': bits}
        if via != 'ctor':
            ctx['via'] = via
        ck.count('search_random')
        ck.hist('random_len', L)
        ck.hist('random_pool', pool)
        ck.hist('random_context', repr((pre, post)))
        ck.hist('random_options_set_by', via)
        r = oracle(s, ml, pre, post, cut, bits, via)
        if r is not None:
            report(ck, s, ml, r, ctx)
        if any(c in NAMES for c in s):
            ck.seen(('r', ml, s, pre, cut, bits, via))
        if i % 4 == 0:
            ck.count('search_kvparse')
            kvia = 'attr' if i % 8 == 0 else 'ctor'
            r = kv_oracle(s, ml, kvia)
            if r is not None:
                report(ck, s, ml, r, {'kv': True, 'via': kvia} if kvia != 'ctor' else {'kv': True})
    ck.sample({'search_example': {'s': 'a\\"\n', 'escape_text single': 'a\\\\\\"\\n', 'tokens': '[(STRING, s)] then EOF'}})


def sample_escape_text(chars: list[str], inv: dict[str, str]) -> tuple[str, str] | None:
    """Stand-in for the translator when the body of escape_text is outside its statement language (translate/c02_tables.py
    `translate(sample=...)`): the real escape_text on every single character of ESCAPES_INV, both modes -> the characters each mode
    leaves alone.  None when a character maps to something that is neither itself nor its table entry."""
    try:
        with U.time_limit():
            from srctools.tokenizer import escape_text
            out = []
            for ml in (False, True):
                ex = ''
                for c in chars:
                    e = escape_text(c, ml)
                    if e == c:
                        ex += c
                    elif e != inv[c]:
                        return None
                out.append(ex)
            return out[0], out[1]
    except (U.ImplTimeout, Exception):  # noqa: BLE001
        return None


# ------------------------------------------------------------------------------------------------ correspondence
def model_counterexamples(ck: Ck) -> None:
    """Small-scope search INSIDE Coq on the model of the code (escape_text pipeline as translated + tokenizer model):
    strings over the escape alphabet up to length 3 that do not round-trip.  A witness found by the model is then
    run against the implementation; if it fails there too it is reported as a concrete violation."""
    alpha = U.coq_chars(ord(c) for c in ESC_ALPHA)
    runs = '[5; 17; 33; 65; 129; 257]%nat'       # runs of one character: a substitution limited to its first matches fails only there
    vals = ck.coq_eval(U.IMPORTS, [f'roundtrip_counterexamples false {alpha} 3', f'roundtrip_counterexamples true {alpha} 3',
                                   f'roundtrip_counterexamples_runs false {alpha} {runs}', f'roundtrip_counterexamples_runs true {alpha} {runs}'],
                       name='modelcex', preamble=U.PRE)
    n = 2 * sum(len(ESC_ALPHA) ** k for k in range(4)) + 2 * 6 * len(ESC_ALPHA)
    ck.count('model_roundtrip_small_scope', n)
    if vals is None:
        ck.obligation('instance:escape_text_model_roundtrips_small_scope', False, 'model could not be evaluated')
        ck.tie_broken.append('in-kernel round-trip enumeration could not be evaluated')
        return
    wit = [(ml, ''.join(map(chr, w))) for ml, v in zip((False, True), vals[:2]) for w in parse_coq_nested(v)]
    wit += [(ml, chr(c) * m) for ml, v in zip((False, True), vals[2:]) for c, m in parse_coq_nested(v)]
    wit.sort(key=lambda t: len(t[1]))
    ck.obligation('instance:escape_text_model_roundtrips_small_scope', not wit,
                  f'in-kernel enumeration (escape_text pipeline as translated from the source + tokenizer model) of all {n} strings over the '
                  f'escape alphabet up to length 3 and every run of one of these characters of length 5, 17, 33, 65, 129, 257, x 2 modes: '
                  + ('every one tokenizes back to itself' if not wit else
                     f'{len(wit)} counterexamples, shortest: multiline={wit[0][0]} s={wit[0][1][:40]!r}' + (f' (length {len(wit[0][1])})' if len(wit[0][1]) > 40 else '')))
    if wit:
        ck.tie_broken.append('the model of escape_text read from the source does not round-trip')
        ck.extra['model_counterexamples'] = [{'multiline': ml, 's': s} for ml, s in wit[:10]]
        for ml, s in wit[:3]:
            r = oracle(s, ml)
            if r is not None:
                report(ck, s, ml, r)


HS_IMPORTS = U.IMPORTS + ['SV.Text.HsTable', 'SV.Text.HsGen']
_HS_CLASS = ['DQ', 'CR', 'LF', 'backslash', 'end-of-input', 'other']
_HS_SECOND = ['-', 'end-of-input', 'LF', 'key-of-ESCAPES', 'other']


def translate_hstring(ck: Ck) -> bool:
    """Gen/HsRows_gen.v: the decision table of Tokenizer._handle_string. When the translator fails closed an EMPTY table is
    written, so that everything else still builds and is evaluated (the hand model's correspondences in particular)."""
    ok = ck.translate('HsRows_gen', c02_hstring.translate)
    if not ok:
        ck.gen('HsRows_gen', c02_hstring.EMPTY_GEN, {'failed_closed': True})
    return ok


def handle_string_table(ck: Ck, translated: bool) -> None:
    """Instance obligations about the table read from _handle_string; when the rows differ from the model's, the differing rows
    and (small scope, inside Coq) texts on which the code's table and the hand model differ are reported, and each such text
    is run on the implementation."""
    if not translated:
        return          # translate:HsRows_gen is already a failed obligation; the empty table carries no information
    res = ck.instance_obligations(HS_IMPORTS, {
        'handle_string_rows_are_the_model': 'handle_string_rows_are_the_model',
        'handle_string_flag_starts_false': 'handle_string_flag_starts_false',
    }, name='hsinst')
    ck.count('handle_string_table_rows', ck.extra.get('translated', {}).get('HsRows_gen', {}).get('rows', 0))
    if all(res.values()):
        return
    ck.tie_broken.append('the decision table read from Tokenizer._handle_string is not the table of the model Text/Tokenizer.v handle_string')
    alpha = U.coq_chars(ord(c) for c in ESC_ALPHA)
    vals = ck.coq_eval(HS_IMPORTS, ['handle_string_rows_diff', f'hs_table_witnesses {alpha} 3'], name='hsdiff', preamble=U.PRE)
    if vals is None:
        return
    rows = []
    for k, fl, ae, e, got, want in parse_coq_nested(vals[0]):      # Coq prints left-nested pairs flat
        rows.append({'char': _HS_CLASS[k], 'last_was_cr': bool(fl), 'allow_escapes': bool(ae), 'second': _HS_SECOND[e],
                     'source (reads second, line increments, new flag, appends, end)': got, 'model': want})
    wit = []
    for bits, w, a, b in parse_coq_nested(vals[1])[:5]:
        text = '"' + ''.join(map(chr, w))
        impl = U.impl_results(text, bits, 1)
        wit.append({'text': text, 'option_bits': bits, 'table_of_the_source': U.decode_results(list(a)[:-1]), 'hand_model': U.decode_results(list(b)[:-1]),
                    'implementation': U.decode_results(impl), 'implementation_follows_the_table': impl == list(a)[:-1]})
    ck.extra['handle_string_table'] = {'differing_rows': rows[:12], 'witness_texts': wit}
    ck.notes.append(f'_handle_string: {len(rows)} rows differ from the model, first: {rows[0] if rows else None}; '
                    f'first text on which the table and the model differ: {wit[0] if wit else "none up to length 3"}')


def corr_codepoints(ck: Ck) -> None:
    """escape_text vs Escape.esc_char on EVERY code point, both modes."""
    from srctools.tokenizer import escape_text
    vals = ck.coq_eval(U.IMPORTS, ['codepoint_table'], name='codepoints', preamble=U.PRE)
    if vals is None:
        ck.obligation('correspondence:escape_codepoints', False, 'model could not be evaluated')
        ck.tie_broken.append('correspondence escape_text code points: model evaluation failed')
        return
    model = {c: (tuple(a), tuple(b)) for (c, a, b) in parse_coq_nested(vals[0])}
    bad = []
    for c in range(0x110000):
        s = chr(c)
        got = (tuple(map(ord, escape_text(s, False))), tuple(map(ord, escape_text(s, True))))
        want = model.get(c, ((c,), (c,)))      # every step copies a character that is neither a value of ESCAPES nor part of a replace pattern
        if got != want:
            bad.append((c, got, want))
        if got != ((c,), (c,)):
            ck.seen(('cp', c))
    ck.count('escape_codepoints', 2 * 0x110000)
    ck.hist('correspondence', 'escape_text per code point (0..0x10FFFF x 2 modes)', 2 * 0x110000)
    ck.obligation('correspondence:escape_codepoints', not bad,
                  f'escape_text(chr(c), ml) vs model esc_char on all 1114112 code points x 2 modes: {len(bad)} disagreements'
                  + (f'; first: U+{bad[0][0]:04X} impl={bad[0][1]} model={bad[0][2]}' if bad else ''))
    if bad:
        ck.tie_broken.append('correspondence escape_text vs Text/Escape.v on single code points')
        ck.extra['escape_codepoint_disagreements'] = [{'cp': c, 'impl': g, 'model': w} for c, g, w in bad[:20]]


def corr_escape_strings(ck: Ck, escalate: bool) -> None:
    """escape_text vs Escape.escape on strings: exhaustive over the escape alphabet (checksums) + random literals."""
    from srctools.tokenizer import escape_text
    n = 5 if (ck.thorough or escalate) else 4
    alpha = [ord(c) for c in ESC_ALPHA]
    jobs = [[f'esc_shard_hash {"true" if ml else "false"} {U.coq_chars(alpha)} {n}'] for ml in (False, True)]
    res = U.coq_eval_many(ck, jobs, 'eschash')
    ok = True
    detail = []
    for ml, r in zip((False, True), res):
        tot = 0
        cnt = 0
        for s in U.strings_upto(ESC_ALPHA, n):
            e = escape_text(s, ml)
            tot = (tot + U.hash_list([int(ml), len(s), *map(ord, s), *map(ord, e)])) & U.M63
            cnt += 1
        ck.count('escape_strings_exhaustive', cnt)
        if r is None or U.parse_int63(r[0]) != tot:
            ok = False
            detail.append(f'multiline={ml}: checksum model={r and r[0]} impl={tot:#x}')
    # random strings as literals
    m = ck.budget(500, 5000) if not escalate else 5000
    cases = []
    rng = ck.rng
    for i in range(m):
        L = rng.choice([0, 1, 3, 8, 30])
        s = ''.join(rng.choice(ESC_ALPHA) if rng.random() < 0.5 else chr(rng.choice([rng.randint(0, 0x7F), rng.randint(0x80, 0x10FFFF), rng.randint(0xD800, 0xDFFF)]))
                    for _ in range(L))
        ml = rng.random() < 0.5
        cases.append((ml, s, escape_text(s, ml)))
        ck.count('escape_strings_random')
        if s != cases[-1][2]:
            ck.seen(('es', ml, s))
    pre = U.PRE + '''Fixpoint bad_idx {A} (f : A -> bool) (n : N) (l : list A) : list N := match l with [] => [] | x :: r => (if f x then [] else [n]) ++ bad_idx f (n + 1) r end.
'''
    bad: list[int] = []
    for lo in range(0, len(cases), 500):
        part = cases[lo:lo + 500]
        lit = coq_list(f'(({"true" if ml else "false"}, {coq_str(s)}), {coq_str(e)})' for ml, s, e in part)
        vals = ck.coq_eval(U.IMPORTS, [f'bad_idx (fun c : (bool * list N) * list N => nl_eqb (gen_escape (fst (fst c)) (snd (fst c))) (snd c)) 0 {lit}'],
                           name='escstr', preamble=pre)
        if vals is None:
            ok = False
            detail.append('random literal batch could not be evaluated')
            break
        bad += [lo + i for i in parse_coq_N_list(vals[0])]
    if bad:
        ok = False
        ml, s, e = cases[bad[0]]
        detail.append(f'{len(bad)} random strings disagree; first: escape_text({s!r}, {ml}) = {e!r}')
    ck.sample({'escape_string_case': {'s': cases[1][1], 'multiline': cases[1][0], 'escape_text': cases[1][2]}})
    ck.obligation('correspondence:escape_strings', ok,
                  f'escape_text vs model escape: all strings over the {len(ESC_ALPHA)}-char escape alphabet up to length {n} x 2 modes '
                  f'(63-bit checksums) and {len(cases)} random Unicode strings: ' + ('agree' if ok else '; '.join(detail)))
    if not ok:
        ck.tie_broken.append('correspondence escape_text vs Text/Escape.v on strings')


def corr_quoted(ck: Ck, escalate: bool) -> None:
    """Model of _get_token/_handle_string vs the real Tokenizer on every text DQ + w (terminated or not)."""
    n = 5 if (ck.thorough or escalate) else 4
    alpha = [ord(c) for c in ESC_ALPHA]
    # shards: (bits, first character of w or none)
    shards = []
    for bits in (BITS_ESC, BITS_NOESC):
        if n <= 4:
            shards.append((bits, [34], n))
        else:
            shards.append((bits, [34], 0))
            shards += [(bits, [34, a], n - 1) for a in alpha]
    jobs = [[f'tok_shard_hash [{bits}] {U.coq_chars(pref)} {U.coq_chars(alpha)} {k}'] for bits, pref, k in shards]
    res = U.coq_eval_many(ck, jobs, 'quoted')
    totals = U.pool_map(_quoted_shard, shards)
    bad = []
    for sh, r, (tot, cnt, hist) in zip(shards, res, totals):
        ck.count('tokenizer_quoted_cases', cnt)
        for k, v in hist.items():
            ck.hist('quoted_outcome', k, v)
        if r is None or U.parse_int63(r[0]) != tot:
            bad.append(sh)
    detail = ''
    if bad:
        detail = _locate(ck, bad[0], alpha)
        ck.tie_broken.append('correspondence Tokenizer string loop vs Text/Tokenizer.v')
    ck.obligation('correspondence:tokenizer_quoted', not bad,
                  f'real Tokenizer vs model on all texts DQ+w, w over the escape alphabet up to length {n}, allow_escapes on/off '
                  f'({sum(t[1] for t in totals)} cases, token kind/value/line_num/_last_was_cr/error site+line): '
                  + ('agree' if not bad else f'{len(bad)} shards disagree; {detail}'))


def _quoted_shard(sh) -> tuple[int, int, dict]:
    bits, pref, k = sh
    p = ''.join(map(chr, pref))
    tot = 0
    cnt = 0
    hist: dict[str, int] = {}
    for w in U.strings_upto(ESC_ALPHA, k):
        enc = U.tok_case(bits, p + w)
        tot = (tot + U.hash_list(enc)) & U.M63
        cnt += 1
        last = U.decode_results(enc[2 + len(p + w):])[-1]
        kind = 'error:' + str(last['error']) if isinstance(last, dict) and 'error' in last else 'tokens-then-EOF'
        hist[kind] = hist.get(kind, 0) + 1
    return tot, cnt, hist


def _locate(ck: Ck, sh, alpha) -> str:
    """Find one disagreeing case inside a shard by comparing literal results."""
    bits, pref, k = sh
    k2 = min(k, 3)
    vals = ck.coq_eval(U.IMPORTS, [f'tok_shard_results [{bits}] {U.coq_chars(pref)} {U.coq_chars(alpha)} {k2}'], name='locate', preamble=U.PRE)
    if vals is None:
        return 'could not evaluate the shard literally'
    model = parse_coq_nested(vals[0])
    p = ''.join(map(chr, pref))
    for w, mres in zip(U.strings_upto(ESC_ALPHA, k2), model):
        enc = U.tok_case(bits, p + w)
        if list(mres) != enc:
            d = {'text': p + w, 'option_bits': bits, 'impl': U.decode_results(enc[2 + len(p + w):]),
                 'model': U.decode_results(list(mres)[2 + len(p + w):])}
            ck.extra['tokenizer_disagreement'] = d
            return f'first: text={p + w!r} bits={bits} impl={d["impl"]} model={d["model"]}'
    return 'disagreement only beyond length 3 of this shard'


# ------------------------------------------------------------------------------------------------ main
def run(ck: Ck) -> None:
    U.guarded('C02', _run, ck)


def _run(ck: Ck) -> None:
    _REPORTED.clear()
    ck.rule = ('exhaustive: every string over the 14-character escape alphabet (backslash, quote, apostrophe, CR, LF, TAB, VT, BS, '
               'FF, BEL, ?, /, n, x) up to length 4 (5 thorough) in both modes, non-trivial = length >= 2; every code point '
               '0..0x10FFFF, non-trivial = escape_text changes it; random strings (escape alphabet / ASCII / surrogates / BMP / '
               'astral) of length 1..200 embedded in ten token contexts, cut into chunks at a random position, under other '
               'option vectors, through Keyvalues.parse, non-trivial = contains a character of the escape alphabet; histories: 11 kinds of '
               'earlier event (failed / complete / abandoned parses) followed by every string up to length 2 in a new tokenizer, '
               'non-trivial = two different characters; escape_text histories: the other mode first, in two fresh interpreters, strings up to '
               'length 2; options by attribute: every string up to length 3 with every option inverted in the constructor and set by setattr, '
               'a third of the random cases that way and a third with the options set after the prefix tokens were read; distinct by full input')
    ck.trusted.append('hand-written model Text/Tokenizer.v (handle_string/get_token) and Text/Escape.v (tied by exhaustive small-scope and per-code-point differential runs on every run; handle_string also by the decision table read from the source)')
    ck.trusted.append('translate/c02_hstring.py: abstract execution of the loop body of Tokenizer._handle_string (fail-closed outside its statement language)')
    ck.trusted.append('translate/c02_gettoken.py: abstract execution of the segments of Tokenizer._get_token / _handle_comment into decision trees, and the state census (fail-closed outside its statement language)')
    ck.trusted.append('harness/c02_util.py checksum mirror of Text/TokEnum.v (63-bit; a collision would hide a disagreement)')
    ck.assumptions.append('Python str = list of code points; re.sub over an alternation of single characters acts per character (exercised by the string correspondence)')
    ck.trusted.append('translate/c02_tables.py escape_text_census and translate/c02_gettoken.py option_census (syntactic censuses: what they do not list is assumed stateless / read at call time)')
    ck.assumptions.append('pure-Python tokenizer only; the Cython twin _tokenizer.pyx cannot be built in this sandbox')
    ok_t = ck.translate('EscTables_gen', lambda: c02_tables.translate(sample=sample_escape_text))
    side0 = ck.extra.get('translated', {}).get('EscTables_gen', {})
    if ok_t and side0.get('escape_text_failed_closed'):
        # the tables were read, but the body of escape_text (or a regex) is outside the statement language: a named obligation of its
        # own; a per-character stand-in keeps every file building and every other obligation / correspondence evaluated
        ck.obligation('translate:escape_text', False, f'translator failed closed on the body of escape_text: {side0["escape_text_failed_closed"]} '
                                                      f'(stand-in pipeline: {side0.get("escape_text_fallback")})')
        ck.tie_broken.append(f'translator escape_text: {side0["escape_text_failed_closed"]}')
    elif ok_t:
        ck.obligation('translate:escape_text', True, 'body of escape_text recognised (pipeline of whole-string steps)')
    if side0.get('escape_text_state'):
        ck.tie_broken.append(f'escape_text keeps state between calls: {side0["escape_text_state"][:4]}')
        ck.notes.append(f'escape_text census: {side0["escape_text_state"][:6]}')
    ok_h = translate_hstring(ck)
    ok_g = U.translate_get_token_trees(ck)
    side = ck.extra.get('translated', {}).get('EscTables_gen', {})
    escalate = bool(side) and any(side.get('digests', {}).get(k) != v for k, v in c02_tables.MODEL_DIGESTS.items())
    if escalate:
        ck.notes.append('hand-modelled tokenizer functions changed since the model was written: correspondence budgets escalated')
    if ok_t:
        public_names(ck)
    built = ok_t and ck.build(['Props/C02.vo', 'Text/TokEnum.vo', 'Text/HsGen.vo', 'Text/GtGen.vo'])
    if built:
        th = U.theorems_in_background(ck, 'Props/C02.v')
        ck.instance_obligations(U.IMPORTS, {
            'every_escape_decodes_back_and_no_symbol_is_LF': 'tbl_roundtrip gen_tables',
            'dquote_always_escaped_single': 'tbl_dq gen_tables false',
            'dquote_always_escaped_multi': 'tbl_dq gen_tables true',
            'CR_always_escaped_single': 'tbl_cr gen_tables false',
            'CR_always_escaped_multi': 'tbl_cr gen_tables true',
            'backslash_always_escaped_single': 'tbl_bs gen_tables false',
            'backslash_always_escaped_multi': 'tbl_bs gen_tables true',
            'LF_escaped_in_single_line_mode': 'tbl_lf_single gen_tables',
            'no_escape_symbol_is_a_linebreak': 'tbl_sym_no_linebreak gen_tables',
            'dquote_is_not_an_operator': 'dq_not_operator gen_tables',
            'replacement_is_backslash_plus_symbol': 'esc_prefix_is_backslash',
            'escape_text_steps_wellformed': 'escape_rows_wellformed',
            'escape_text_is_one_table_substitution_single': 'escape_is_one_substitution false',
            'escape_text_is_one_table_substitution_multi': 'escape_is_one_substitution true',
            'escape_text_uses_no_state_outliving_the_call': 'escape_text_uses_no_state_outliving_the_call',
            'token_enum_values_distinct': 'token_values_distinct',
            'operators_name_known_tokens': 'operators_all_known',
        })
        handle_string_table(ck, ok_h)
        U.get_token_tree_obligations(ck, ok_g, c02_property=ok_h)
        model_counterexamples(ck)
        corr_codepoints(ck)
        corr_escape_strings(ck, escalate)
        corr_quoted(ck, escalate)
        U.corr_options_by_attribute(ck)
        U.join_theorems(ck, th)
    search(ck, escalate)
    if ck.violations:
        # concrete failing inputs explain broken table obligations / correspondences of the same run
        ck.explain('instance:')
        ck.explain('correspondence:')
        ck.explain('build:')
        ck.explain('translate:')
        ck.explain('tie:')


def replay(data: dict) -> int:
    from srctools.tokenizer import Tokenizer, escape_text
    r = data.get('replay', data)
    if 's' not in r:
        print(json.dumps(r, indent=1)[:3000])
        print('no concrete input recorded (broken proof obligation / correspondence)')
        return 1
    s = ''.join(map(chr, r['s']))
    ml = bool(r['multiline'])
    ctx = r.get('context') or {}
    if r.get('alias'):
        import importlib
        modname, a, ref_name = r['alias']
        obj = getattr(importlib.import_module(modname), a)
        print(f'{modname}.{a} = {obj!r} is used in the place of srctools.tokenizer.{ref_name}')
        _ALIAS[ref_name] = obj
        if ref_name == 'escape_text':
            escape_text = obj
    if r.get('history') == ESC_HISTORY:
        print(f'history: first escape_text(s, multiline={not ml}) = {escape_text(s, not ml)!r}')
    elif r.get('history') == 'earlier-calls-in-the-checking-process':
        print('history: the failure was observed only after earlier calls in the checking process; it may not reproduce here')
    esc = escape_text(s, ml)
    print(f's = {s!r}\nescape_text(s, multiline={ml}) = {esc!r}')
    if r.get('history') in dict(POISONS):
        print(f'history: first {r["history"]} (text {dict(POISONS).get(r["history"])!r}), then a new tokenizer')
        run_poison(r['history'])
    if ctx.get('via'):
        print({'attr': 'options: the tokenizer is built with every option the other way round, then each option is set through its attribute',
               'switch': 'options: built the other way round, the tokens of the prefix are read, then each option is set through its attribute'}[ctx['via']])
    if ctx.get('kv'):
        res = kv_oracle(s, ml, ctx.get('via', 'ctor'))
    else:
        kw = {k: ctx[k] for k in ('pre', 'post', 'cut', 'bits', 'via') if k in ctx}
        try:
            tk = U.make_tokenizer(Tokenizer, kw.get('pre', '') + '"' + esc + '"' + kw.get('post', ''), kw.get('bits', BITS_ESC),
                                  'attr' if ctx.get('via') == 'attr' else 'ctor')
            print('tokens:', list(tk))
        except Exception as e:  # noqa: BLE001
            print('tokenizer raised', repr(e))
        if r.get('history') in dict(POISONS):
            run_poison(r['history'])
        res = oracle(s, ml, **kw)
    mv = U.model_eval([f'gen_escape {"true" if ml else "false"} {coq_str(s)}',
                       f'tok_case {BITS_ESC} (DQ :: gen_escape {"true" if ml else "false"} {coq_str(s)} ++ [DQ])'])
    if mv is not None:
        me = ''.join(map(chr, parse_coq_N_list(mv[0])))
        t = parse_coq_N_list(mv[1])
        print(f'model escape = {me!r} (equal to escape_text: {me == esc}); model tokens of DQ+escape+DQ: {U.decode_results(t[2 + t[1]:])[:3]}')
    print('property holds on this input' if res is None else f'VIOLATED: {res}')
    return 0 if res is None else 1
