"""C04 — Angles, matrices and vectors obey the rotation algebra (srctools/math.py, pure Python)."""
from __future__ import annotations

import json
import math
import random
from decimal import Decimal
import re
import struct
from typing import Any

from harness.common import Ck
from translate import c04_formulas as tr
from translate import c04_inverse as tri
from translate import c04_rounded as trr
from translate import c04_inplace as trp
from translate import c04_state as trs

MANIFEST = dict(
    technique='Rocq proof over R (ring/field/nsatz/nra) on formulas, a dispatch table and a Gauss-Jordan row-operation '
              'program regenerated from math.py by ast symbolic executors / loop unrolling; generic theorems + kernel-checked '
              'instance obligations (table_ok, gj_prog_ok and gj_total_ok by two abstract interpretations, guard_cfg_ok, '
              'pitch_ok, aliasing polynomials, rounding-error bounds); running error analysis of the sum-of-products '
              'formulas for every rounding with |rnd t - t| <= u|t| + eta, instantiated for binary64 with Flocq; '
              'bit-exact correspondence of the extracted expression trees, of every dispatch row, of the Gauss-Jordan '
              'interpreter instantiated with IEEE binary64 (Coq primitive floats) and of the rounding model against '
              'CPython floats; census of all in-place operator methods (class bodies + expanded exec() templates) with a '
              'decidable acceptance test; numeric oracle on the complete operand-type matrix, composed rotations, every in-place '
              'operator / in-place rotation method and the conversion entry points; every stage under an exception / hang guard; '
              'round 5: census of process state read from the whole of math.py (long-lived module-level / class-level objects, the '
              'function bodies that read / update them, decorators, defaults, global declarations, reflective access, imports) with a '
              'decidable acceptance test and a history-independence theorem, compared with the running module; history oracle: every '
              'constructor call of a history of calls (objects handed out earlier modified by the caller, calls that raise) against '
              'the same call alone in a NEW instance of the module, bit for bit',
    text='Theorems in Props/C04.v, about the objects read out of MatrixBase.from_angle/from_pitch/from_yaw/from_roll/'
         '_mat_mul/_vec_rot/transpose/_to_angle/inverse and the @ methods on every run: from_angle is orthonormal with '
         'determinant 1 and equals roll*pitch*yaw in the row-vector convention (axes fixed, handedness at +90 degrees); '
         '_mat_mul and _vec_rot are associative, also when both operands are one object; transpose is the unique two-sided '
         'inverse of a rotation; for EVERY straight-line program of pivot-search/row-swap, row-elimination and row-scaling '
         'operations accepted by the decidable test gj_prog_ok (abstract interpretation of the left block over {0,1,unknown}), '
         'whenever the interpreter of the program over the reals returns n for input m then n*m = I, hence n = transpose(m) '
         'for a rotation m; for every program accepted by a second decidable test gj_total_ok (interval / determinant '
         'abstract interpretation: |entry| in [lo, hi], |det| >= d) the interpreter over the reals RETURNS on every rotation '
         '(no pivot search, division or threshold test can fail), so inverse() = transpose() on rotations without proviso; '
         'a conditionally skipped elimination is accepted only when the guard fires for a zero multiplier; the program '
         'unrolled from today\'s MatrixBase.inverse is accepted by both tests (instance obligations); the largest entry of '
         'every column of a rotation has square >= 1/3; '
         'Matrix->Angle->Matrix is the identity when the horizontal length of the forward row exceeds 0.001 and within '
         '2*that length entrywise otherwise (atan2 enters as a visible hypothesis); the guard of _to_angle, reified as '
         '(operator, operand polynomial under sqrt, literal), is the engine threshold whenever the three named obligations '
         'hold, and the pitch, reified, is atan2(-forward.z, horizontal length) in both branches (total, no asin of a '
         'rounded entry); the expression trees of _vec_rot and _mat_mul evaluated with binary64 rounding after every + - * '
         'are within 2e-15 (unit inputs; 2e-9 for vector components up to 1e6) of their real value for all matrices with '
         'entries up to 1.000001 (running error analysis proved sound for every tree and rounding; binary64 by Flocq); the '
         'binary64 arithmetic of from_angle on sin / cos values within d of the real ones gives entries within tol of the exact '
         'rotation and at most 1 + tol in absolute value (1e-15 for d = 0, 3e-14 for d = 5e-15; libm accuracy is a visible '
         'hypothesis, measured on sampled angles with 50-digit arithmetic); '
         'for every (operator form, left class, right class, same-object?) the dispatch table generated from '
         '__matmul__/__rmatmul__/__imatmul__ returns the specification product, a fresh result and unchanged operands '
         '(kernel-checked table_ok = true + generic soundness theorem); round 4: `l @= r` on a MUTABLE receiver returns the '
         'receiver object itself holding the specification product (so every alias sees it), on a frozen receiver a new object '
         'with the receiver untouched (inplace_ok is part of table_ok; c04_inplace_stores_into_self), and the in-place row '
         'denotes the same value as the pure row (c04_inplace_agrees_with_pure); x @ Angle and x @ Matrix.from_angle(Angle) '
         'are the same computation under EVERY interpretation of the table terms, hence bit for bit in binary64 '
         '(c04_angle_operand_same_computation, confirmed on the implementation on every run); every in-place operator method '
         '(+= -= *= /= //= %= @=, also the exec()-generated ones) belongs to mutable classes only and every path that returns '
         'a value returns the receiver after storing into it (census_ok, c04_inplace_census_sound); Matrix->Angle->Matrix in '
         'binary64 outside the gimbal band is within 2e-13 of the exact rotation given sin/cos of the float Euler angles within '
         '2e-14 of the exact ones (c04_euler_roundtrip_binary64; the hypothesis is measured against 60-digit arithmetic on every '
         'run: about 1.5e-15); the in-place rotation methods Vec.localise / Vec.transform() / Angle.transform() / Vec.rotate, '
         'executed symbolically (the with-block body being `m @= rot` through the real Matrix.__imatmul__), leave the pure form '
         'v @ angles + origin / v @ rot / a @ rot / v @ Angle(p, y, r) in the receiver (methods_ok, c04_inplace_methods_sound); '
         'copy / __deepcopy__ / freeze / thaw / _new_copy of the matrix classes are `return self` only for a frozen copy and '
         'otherwise field-for-field new objects of the right class (copies_ok, c04_matrix_copies_sound); '
         'c04_property composes all parts into one statement whose hypotheses are atan2_spec and the five '
         'acceptance tests, and Props/C04Today.v proves the five tests for today\'s generated objects; round 5: for every census of '
         'process state accepted by state_ok (no function reads a long-lived object that a function updates; nothing long-lived is '
         'updated, no class / function attribute stored from a function, no caching decorator, no mutable default, no global '
         'declaration, no reflective access, no foreign import) and every model of calls `run : args -> store -> result * store` of '
         'which the census is a footprint, a call after ANY history of earlier calls returns what it returns in the initial state '
         '(c04_history_independent, c04_state_ok_history_independent; the memo-table-keyed-by-the-text shape of seeded fault c04_8 is '
         'rejected and a run with that footprint does answer with the first call\'s fallback: c04_memo_by_text_refuted); '
         'c04_property_histories = c04_property + the history statement, proved for today\'s census in Props/C04Today.v; the SHAPE of '
         'every pivot search of inverse() (comparison, start of the largest value so far and of the pivot row, missing-pivot test; read '
         'by a tolerant reader also when the program translator fails closed) accepted by pv_shape_ok selects a non-zero entry of largest '
         'absolute value whenever some candidate entry is not zero (c04_pivot_search_finds_nonzero_pivot, over the reals; a model of the '
         'search alone), and the signed-seed shape of seeded fault c04_6 reports "no inverse" for the column (-1, 0, 0) '
         '(c04_pivot_signed_seed_refuted).  The trees, the table and the inverse program are '
         'compared bit-for-bit with the running implementation; all identities are searched numerically within '
         '1e-9*max(1,|v|).',
    note='Exact real arithmetic except for the rounding theorems of _vec_rot/_mat_mul (rounded-real model of binary64: round '
         'to nearest even after every operation, underflow included, overflow excluded; tied to CPython floats by a bit-exact '
         'correspondence on sampled inputs) and of the arithmetic of from_angle given libm accuracy; for _to_angle and inverse() floating-point rounding is outside the '
         'theorems (the property says "up to rounding"); the binary64 instance of the Gauss-Jordan interpreter is used only '
         'for the correspondence.  Axioms: the classical-reals axioms of Coq.Reals, plus Classical_Prop.classic through Flocq '
         'for the rounding theorems.  Trusted: translate/c04_formulas.py, translate/c04_inverse.py (symbolic executors / loop '
         'unroller; tied by the bit-exact correspondences; the polynomial expansion of the reified pieces is re-proved by ring), '
         'libm sin/cos/atan2/sqrt, Coq primitive floats = hardware binary64.  inverse() returning on every rotation is proved in exact arithmetic only: the 1e-5 '
         'threshold is passed with the proved margins (|pivot| bounds of the final intervals), but no float error bound for '
         'the elimination is proved.  The conversion entry points other than the zero-argument matrix conversions (constructors '
         'from another object, pickle, forward/left/up, from_angstr, to_matrix, every vector / angle conversion) are searched '
         'only; Vec.rotate is modelled for round_vals=False only.  The in-place census is a path classification (what each path returns, how many stores '
         'into the receiver precede it), not a value semantics: the values of += ... %= are compared with the pure operators by '
         'the oracle only; @= has the full dispatch model.  Histories (round 5): that the state census is a FOOTPRINT of the real '
         'calls (objects outside its write set keep their value, results depend on the store through its read set only) is a visible '
         'hypothesis of the history theorems, not proved - the census is an ast analysis (trusted, compared with the objects, function '
         'attributes, defaults and closure cells of the running module); instance attributes (__slots__) and objects the CALLER keeps '
         'are outside it and covered by the history oracle (objects handed out must keep their value).  The Cython twin _math.pyx cannot be built and is not verified.',
)

CONCRETE = tr.CONCRETE
KIND = tr.KIND
DISP_IMPORTS = ['Coq.Lists.List', 'Coq.Bool.Bool', 'SV.Rot.RotDispatch', 'SV.Gen.RotDispatch_gen']
REIFY_IMPORTS = ['Coq.Lists.List', 'Coq.Bool.Bool', 'SV.Rot.RotReify', 'SV.Gen.RotReified_gen']
GJ_IMPORTS = ['Coq.Lists.List', 'Coq.Bool.Bool', 'SV.Rot.RotGJ', 'SV.Gen.RotInverse_gen']
GJT_IMPORTS = ['Coq.Lists.List', 'Coq.Bool.Bool', 'Coq.QArith.QArith', 'SV.Rot.RotGJ', 'SV.Rot.RotGJTotal', 'SV.Gen.RotInverse_gen']
COPIES_IMPORTS = ['Coq.Lists.List', 'Coq.Bool.Bool', 'SV.Rot.RotCopies', 'SV.Gen.RotCopies_gen']
METHOD_IMPORTS = ['Coq.Lists.List', 'Coq.Bool.Bool', 'SV.Rot.RotMethods', 'SV.Gen.RotMethods_gen']
INPLACE_IMPORTS = ['Coq.Lists.List', 'Coq.Bool.Bool', 'SV.Rot.RotInplace', 'SV.Gen.RotInplace_gen']
PIVOT_IMPORTS = ['Coq.Lists.List', 'Coq.Bool.Bool', 'SV.Rot.RotPivot', 'SV.Gen.RotPivot_gen']
STATE_IMPORTS = ['Coq.Lists.List', 'Coq.Bool.Bool', 'SV.Rot.RotState', 'SV.Gen.RotState_gen']
ROUND_IMPORTS = ['Coq.Lists.List', 'Coq.Bool.Bool', 'Coq.QArith.QArith', 'SV.Rot.RotRound', 'SV.Gen.RotRounded_gen']
TOL = 1e-9
GIMBAL = 0.001


def bits(x: float) -> bytes:
    return struct.pack('<d', x)


# =============================================================================================== robustness of the check
# Round 4.  Every stage that calls into srctools.math runs under `guarded`: an exception nobody expected, or a call that does
# not return (a fault can turn the loop-free float code into a loop), ends as a VIOLATION with a replay of the input that was
# being processed - not as INTERNAL-ERROR and not as a hung check.  `_CURRENT[0]` is the replay object of the call in flight
# (set by the functions that call the implementation).  STAGE_SECONDS is far above what a stage needs (the slowest takes
# about 6 s quick / 40 s with thorough budgets on a loaded machine).  Once one stage has hung, the others get
# STAGE_SECONDS_AFTER_HANG each, so that a hanging implementation costs about 10 minutes in total and not 11 x STAGE_SECONDS.
_CURRENT: list[Any] = [None]
STAGES = ('correspondence-formulas', 'correspondence-dispatch', 'correspondence-angle-operand', 'correspondence-inverse',
          'correspondence-inplace-census', 'correspondence-state-census', 'correspondence-rounding', 'correspondence-euler-float', 'search-operands',
          'search-identities', 'search-composed', 'search-inplace', 'search-conversions', 'search-histories')
STAGE_SECONDS = 300
STAGE_SECONDS_AFTER_HANG = 30


def exc_where(e: BaseException) -> str:
    """' raised in <function> (math.py:<line>)' for an exception that came out of srctools/math.py, else ''."""
    import traceback
    tb = traceback.extract_tb(e.__traceback__)
    w = next((f'{f.name} (math.py:{f.lineno})' for f in reversed(tb) if f.filename.endswith('math.py')), None)
    return f' raised in {w}' if w else ''


class StageTimeout(BaseException):      # not an Exception: the `except Exception` of the oracles must not swallow it
    pass


def _on_alarm(signum, frame):      # noqa: ARG001
    raise StageTimeout()


def guarded(ck: Ck, found: dict, stage: str, fn, *args) -> bool:
    """Run one stage.  Returns False when it was cut short (the caller then leaves the stage's obligation failed)."""
    import signal
    import traceback
    _CURRENT[0] = None
    old = signal.signal(signal.SIGALRM, _on_alarm)
    import time
    limit = STAGE_SECONDS_AFTER_HANG if any(k.startswith('hang:') for k in found) else STAGE_SECONDS
    t0 = time.time()
    signal.alarm(limit)
    try:
        fn(*args)
        ck.extra.setdefault('stage_seconds', {})[stage] = round(time.time() - t0, 1)     # evidence only, never compared
        return True
    except StageTimeout:
        key, what = f'hang:{stage}', f'stage {stage}: a call into srctools.math did not return within {limit} s'
    except Exception as e:      # noqa: BLE001
        tb = traceback.extract_tb(e.__traceback__)
        where = next((f'{f.name} (math.py:{f.lineno})' for f in reversed(tb) if f.filename.endswith('math.py')), None)
        key = f'exception:{stage}'
        what = (f'stage {stage}: unexpected {type(e).__name__}: {e}' + (f' raised in {where}' if where else
                f' raised at {tb[-1].filename.rsplit("/", 1)[-1]}:{tb[-1].lineno}' if tb else ''))
    finally:
        signal.alarm(0)
        signal.signal(signal.SIGALRM, old)
    found.setdefault(key, (what + f'; input in flight: {_CURRENT[0]!r}'[:300], _CURRENT[0] or {'kind': 'stage', 'stage': stage}))
    ck.obligation(f'stage-completed:{stage}', False, what)
    ck.tie_broken.append(f'stage {stage} did not complete')
    return False


# =============================================================================================== reference maths
# Independent of srctools: the engine's AngleMatrix (mathlib_base.cpp) transposed for row vectors, and the three
# elementary rotations written from their geometric meaning.
def ref_from_angle(p: float, y: float, r: float) -> list[list[float]]:
    sp, cp = math.sin(math.radians(p)), math.cos(math.radians(p))
    sy, cy = math.sin(math.radians(y)), math.cos(math.radians(y))
    sr, cr = math.sin(math.radians(r)), math.cos(math.radians(r))
    return [[cp * cy, cp * sy, -sp],
            [sr * sp * cy - cr * sy, sr * sp * sy + cr * cy, sr * cp],
            [cr * sp * cy + sr * sy, cr * sp * sy - sr * cy, cr * cp]]


def ref_axis(axis: str, deg: float) -> list[list[float]]:
    c, s = math.cos(math.radians(deg)), math.sin(math.radians(deg))
    if axis == 'x':     # roll: y -> z
        return [[1, 0, 0], [0, c, s], [0, -s, c]]
    if axis == 'y':     # pitch: x -> -z (nose down)
        return [[c, 0, -s], [0, 1, 0], [s, 0, c]]
    return [[c, s, 0], [-s, c, 0], [0, 0, 1]]   # yaw: x -> y


def ref_mul(a, b):
    return [[sum(a[i][k] * b[k][j] for k in range(3)) for j in range(3)] for i in range(3)]


def ref_rot(v, m):
    return [sum(v[k] * m[k][j] for k in range(3)) for j in range(3)]


def ref_T(m):
    return [[m[j][i] for j in range(3)] for i in range(3)]


def ref_det(m):
    return (m[0][0] * (m[1][1] * m[2][2] - m[1][2] * m[2][1]) - m[0][1] * (m[1][0] * m[2][2] - m[1][2] * m[2][0])
            + m[0][2] * (m[1][0] * m[2][1] - m[1][1] * m[2][0]))


def mat_list(m) -> list[list[float]]:
    return [[m[i, j] for j in range(3)] for i in range(3)]


def maxdiff(a, b) -> float:
    return max(abs(a[i][j] - b[i][j]) for i in range(3) for j in range(3))


def horiz_of(m) -> float:
    return math.hypot(m[0][0], m[0][1])


# =============================================================================================== input generators
def gen_angle(rng: random.Random) -> tuple[tuple[float, float, float], str]:
    """One pitch/yaw/roll triple with the name of its class."""
    r = rng.random()
    if r < 0.35:
        return (rng.uniform(-720, 720), rng.uniform(-720, 720), rng.uniform(-720, 720)), 'random'
    if r < 0.60:
        return (15.0 * rng.randrange(-24, 49), 15.0 * rng.randrange(-24, 49), 15.0 * rng.randrange(-24, 49)), 'mult15'
    if r < 0.95:
        pole = rng.choice([90.0, -90.0, 270.0, -270.0, 450.0])
        eps = rng.choice([1, -1]) * 10.0 ** rng.uniform(-12, -3) * rng.choice([1.0, 1.0, 57.29577951308232])
        return (pole + eps, rng.uniform(0, 360), rng.choice([0.0, rng.uniform(0, 360)])), 'near-pole'
    return (rng.choice([90.0, 270.0, -90.0]), rng.uniform(0, 360), rng.uniform(0, 360)), 'pole'


def gen_vec(rng: random.Random) -> tuple[float, float, float]:
    mag = 10.0 ** rng.uniform(-3, 6) if rng.random() < 0.8 else rng.choice([1e6, 1.0, 0.0])
    d = [rng.gauss(0, 1) for _ in range(3)]
    n = math.sqrt(sum(x * x for x in d)) or 1.0
    return tuple(x / n * mag for x in d)    # type: ignore[return-value]


def vmag(v) -> float:
    return math.sqrt(sum(x * x for x in v))


def make(cls: str, kind_vals: dict) -> Any:
    """An operand object of the given class from plain numbers."""
    from srctools.math import Angle, FrozenAngle, FrozenMatrix, FrozenVec, Matrix, Vec
    if cls == 'Vec':
        return Vec(*kind_vals['V'])
    if cls == 'FrozenVec':
        return FrozenVec(*kind_vals['V'])
    if cls == 'tuple':
        return tuple(kind_vals['V'])
    if cls == 'Angle':
        return Angle(*kind_vals['A'])
    if cls == 'FrozenAngle':
        return FrozenAngle(*kind_vals['A'])
    if cls == 'Matrix':
        return Matrix.from_angle(*kind_vals['M'])
    return FrozenMatrix.from_angle(*kind_vals['M'])


def snapshot(o: Any) -> tuple:
    from srctools.math import AngleBase, MatrixBase, VecBase
    if isinstance(o, tuple):
        return tuple(o)
    if isinstance(o, VecBase):
        return (o._x, o._y, o._z)
    if isinstance(o, AngleBase):
        return (o._pitch, o._yaw, o._roll)
    if isinstance(o, MatrixBase):
        return tuple(o[i, j] for i in range(3) for j in range(3))
    raise TypeError(o)


def as_ref_mat(o: Any) -> list[list[float]] | None:
    """Right operand as a reference matrix (from its snapshot taken BEFORE the operation)."""
    cls, snap = o
    if KIND[cls] == 'M':
        return [list(snap[0:3]), list(snap[3:6]), list(snap[6:9])]
    if KIND[cls] == 'A':
        return ref_from_angle(*snap)
    return None


def apply_form(form: str, L: Any, R: Any) -> Any:
    """Run one operator form on real objects.  Returns the result object, or the string 'none' for
    NotImplemented / TypeError."""
    try:
        if form == 'matmul':
            return L @ R
        if form == 'imatmul':
            x = L
            x @= R
            return x
        f = getattr(type(R), '__rmatmul__', None)
        if f is None:
            return 'none'
        res = f(R, L)
        return 'none' if res is NotImplemented else res
    except TypeError:
        return 'none'


def all_triples():
    for form in ('matmul', 'imatmul', 'rmatmul'):
        for lc in CONCRETE:
            for rc in CONCRETE:
                yield form, lc, rc, False
                if lc == rc and lc != 'tuple':
                    yield form, lc, rc, True


# =============================================================================================== correspondence
def eval_mat(irs, env) -> list[float]:
    return [tr.py_eval(e, env) for e in irs]


def env_mat(prefix: str, vals) -> dict[str, float]:
    return {f'{prefix}.{f}': v for f, v in zip(tr.MAT_FIELDS, vals)}


def model_to_angle(F: dict, mvals) -> tuple[float, float, float]:
    """_to_angle evaluated from the generated pieces (guard, atan2 arguments, number of % 360)."""
    ta = F['to_angle']
    env = env_mat('s', mvals)
    L, op, R = ta['guard']
    l, r = tr.py_eval(L, env), tr.py_eval(R, env)
    taken = {'Gt': l > r, 'GtE': l >= r, 'Lt': l < r, 'LtE': l <= r}[op]
    comps = ta['main' if taken else 'lock']
    out = []
    for f in tr.ANG_FIELDS:
        c = comps[f]
        if c[0] == 'const':
            v = c[1]
            n = c[2]
        else:
            v = math.degrees(math.atan2(tr.py_eval(c[1], env), tr.py_eval(c[2], env)))
            n = c[3]
        for _ in range(n):
            v = v % 360.0
        out.append(v)
    return tuple(out)    # type: ignore[return-value]


def rand_mat_vals(rng: random.Random, cls: str) -> list[float]:
    if rng.random() < 0.3:
        return [rng.uniform(-3, 3) for _ in range(9)]          # not a rotation: the formulas do not care
    from srctools.math import Matrix
    (p, y, r), _ = gen_angle(rng)
    return list(snapshot(Matrix.from_angle(p, y, r)))


def raw_matrix(vals, frozen: bool = False):
    from srctools.math import FrozenMatrix, Matrix
    return (FrozenMatrix if frozen else Matrix)._from_raw(*vals)


def corr_formulas(ck: Ck, F: dict) -> None:
    """The expression trees the translator extracted, evaluated with Python floats operation for operation, must
    reproduce the implementation bit for bit.  (The Coq text is a direct print of the same trees.)"""
    from srctools.math import Angle, FrozenMatrix, Matrix, Vec
    n = ck.budget(400, 6000)
    bad: list[dict] = []

    def cmp(what: str, got, want, inp) -> None:
        ck.count('formula_evaluations')
        if [bits(x) for x in got] != [bits(x) for x in want] and len(bad) < 5:
            bad.append({'formula': what, 'input': inp, 'implementation': list(got), 'extracted_tree': list(want)})

    for i in range(n):
        rng = ck.rng
        (p, y, r), acls = gen_angle(rng)
        _CURRENT[0] = {'kind': 'identity', 'angle': (p, y, r), 'vector': (1.0, 2.0, 3.0), 'second_angle': (10.0, 20.0, 30.0), 'identity': 'any'}
        ck.hist('formula_angle_class', acls)
        cls = rng.choice([Matrix, FrozenMatrix])
        for nm, val in (('pitch', p), ('yaw', y), ('roll', r)):
            cmp(f'from_{nm}', snapshot(getattr(cls, f'from_{nm}')(val)), eval_mat(F[f'from_{nm}'], {nm: val}), val)
        cmp('from_angle', snapshot(cls.from_angle(p, y, r)), eval_mat(F['from_angle'], {'pitch': p, 'yaw': y, 'roll': r}), (p, y, r))
        a = Angle(p, y, r)
        cmp('from_angle(Angle)', snapshot(cls.from_angle(a)),
            eval_mat(F['from_angle_obj'], {'a.pitch': a.pitch, 'a.yaw': a.yaw, 'a.roll': a.roll}), (p, y, r))
        A, B = rand_mat_vals(rng, 'A'), rand_mat_vals(rng, 'B')
        m = raw_matrix(A)
        m._mat_mul(raw_matrix(B, rng.random() < 0.5))
        cmp('_mat_mul', snapshot(m), eval_mat(F['mat_mul'], {**env_mat('s', A), **env_mat('o', B)}), (A, B))
        m = raw_matrix(A)
        m._mat_mul(m)
        cmp('_mat_mul(self)', snapshot(m), eval_mat(F['mat_mul_self'], env_mat('s', A)), A)
        v = gen_vec(rng)
        vv = Vec(*v)
        raw_matrix(A)._vec_rot(vv)
        cmp('_vec_rot', snapshot(vv), eval_mat(F['vec_rot'], {**env_mat('s', A), 'v.x': v[0], 'v.y': v[1], 'v.z': v[2]}), (A, v))
        cmp('transpose', snapshot(raw_matrix(A).transpose()), eval_mat(F['transpose'], env_mat('s', A)), A)
        ang = raw_matrix(A)._to_angle(Angle.__new__(Angle))
        cmp('_to_angle', snapshot(ang), model_to_angle(F, A), A)
        if abs(horiz_of([A[0:3]]) - GIMBAL) < 5e-4:
            ck.hist('formula_to_angle_branch', 'near-threshold')
        ck.hist('formula_to_angle_branch', 'main' if horiz_of([A[0:3]]) > GIMBAL else 'gimbal')
        ck.seen(('formula', p, y, r, tuple(A), tuple(B), v))
    ck.obligation('correspondence:formulas', not bad,
                  f'{n} input sets x 12 formulas: expression trees extracted from math.py evaluated with Python floats vs the '
                  f'implementation, compared bit for bit: {len(bad)}+ disagreements')
    if bad:
        ck.tie_broken.append('correspondence formulas (extracted trees vs implementation)')
        ck.extra['formula_disagreements'] = bad
    ck.sample({'formula_correspondence_example': {'from_angle(12.5, -300, 77)': eval_mat(F['from_angle'], {'pitch': 12.5, 'yaw': -300.0, 'roll': 77.0})}})


def eval_term(F: dict, t: Any, L: tuple, R: tuple) -> tuple:
    """Value of a dispatch term, computed with the extracted formulas."""
    k = t[0]
    if k == 'L':
        return L
    if k == 'R':
        return R
    if k == 'FromAngle':
        a = eval_term(F, t[1], L, R)
        return tuple(eval_mat(F['from_angle_obj'], {'a.pitch': a[0], 'a.yaw': a[1], 'a.roll': a[2]}))
    if k == 'ToAngle':
        return model_to_angle(F, eval_term(F, t[1], L, R))
    if k == 'MatMul':
        return tuple(eval_mat(F['mat_mul'], {**env_mat('s', eval_term(F, t[1], L, R)), **env_mat('o', eval_term(F, t[2], L, R))}))
    if k == 'MatMulSelf':
        return tuple(eval_mat(F['mat_mul_self'], env_mat('s', eval_term(F, t[1], L, R))))
    if k == 'VecRot':
        v = eval_term(F, t[1], L, R)
        return tuple(eval_mat(F['vec_rot'], {**env_mat('s', eval_term(F, t[2], L, R)), 'v.x': v[0], 'v.y': v[1], 'v.z': v[2]}))
    raise ValueError(t)


def observe(form: str, lc: str, rc: str, alias: bool, vals_l: dict, vals_r: dict) -> dict:
    _CURRENT[0] = {'kind': 'triple', 'form': form, 'l': lc, 'r': rc, 'alias': alias, 'left': vals_l, 'right': vals_r}
    L = make(lc, vals_l)
    R = L if alias else make(rc, vals_r)
    sl, sr = snapshot(L), snapshot(R)
    res = apply_form(form, L, R)
    out = {'L0': sl, 'R0': sr, 'L1': snapshot(L), 'R1': snapshot(R)}
    if isinstance(res, str):
        out['kind'] = 'none'
    else:
        out.update(kind='value', cls=type(res).__name__, ident='L' if res is L else 'R' if res is R else 'fresh',
                   val=snapshot(res))
    return out


def rand_vals(rng: random.Random) -> dict:
    return {'V': gen_vec(rng), 'A': gen_angle(rng)[0], 'M': gen_angle(rng)[0]}


def corr_dispatch(ck: Ck, F: dict, rows: list[dict]) -> None:
    """Every row of the generated dispatch table against the implementation: result or NotImplemented, class and identity
    of the result, which operands changed, and the value (term evaluated with the extracted formulas) bit for bit."""
    reps = ck.budget(6, 40)
    bad: list[dict] = []
    for row in rows:
        for _ in range(reps):
            vl, vr = rand_vals(ck.rng), rand_vals(ck.rng)
            ob = observe(row['form'], row['l'], row['r'], row['alias'], vl, vr)
            ck.count('dispatch_rows_run')
            pred_kind = 'value' if row['kind'] == 'value' else 'none'
            diffs = []
            if ob['kind'] != pred_kind:
                diffs.append(f'outcome {ob["kind"]} vs table {pred_kind}')
            elif pred_kind == 'value':
                if ob['cls'] != row['cls']:
                    diffs.append(f'class {ob["cls"]} vs table {row["cls"]}')
                if ob['ident'] != row['ident']:
                    diffs.append(f'identity {ob["ident"]} vs table {row["ident"]}')
                for side, t0, t1 in (('L', ob['L0'], ob['L1']), ('R', ob['R0'], ob['R1'])):
                    want = eval_term(F, row['final' + side], ob['L0'], ob['R0'])
                    if [bits(x) for x in want] != [bits(x) for x in t1]:
                        diffs.append(f'final value of {side} differs from table term')
                want = eval_term(F, row['val'], ob['L0'], ob['R0'])
                if [bits(x) for x in want] != [bits(x) for x in ob['val']]:
                    diffs.append('result value differs from table term')
            if diffs and len(bad) < 6:
                bad.append({'triple': [row['form'], row['l'], row['r'], row['alias']], 'diffs': diffs, 'left': vl, 'right': vr})
    ck.obligation('correspondence:dispatch', not bad,
                  f'{len(rows)} table rows x {reps} value sets: generated dispatch table vs implementation (outcome, class, '
                  f'identity, operand mutation, value bit for bit): {len(bad)}+ disagreements')
    if bad:
        ck.tie_broken.append('correspondence dispatch table (symbolic executor vs implementation)')
        ck.extra['dispatch_disagreements'] = bad



def corr_angle_operand(ck: Ck) -> None:
    """c04_angle_operand_same_computation on the implementation: for every form and every left class, `x OP angle` and
    `x OP Matrix.from_angle(angle)` give the same bits (they are the same float computation, not merely equal over the reals)."""
    from srctools.math import FrozenMatrix, Matrix
    reps = ck.budget(6, 80)
    bad: list[dict] = []
    for form in ('matmul', 'imatmul', 'rmatmul'):
        for lc in CONCRETE:
            for rc in ('Angle', 'FrozenAngle'):
                for mc in (Matrix, FrozenMatrix):
                    for _ in range(reps):
                        vl, vr = rand_vals(ck.rng), rand_vals(ck.rng)
                        try:
                            L1, A = make(lc, vl), make(rc, vr)
                            r1 = apply_form(form, L1, A)
                            L2 = make(lc, vl)
                            r2 = apply_form(form, L2, mc.from_angle(make(rc, vr)))
                        except Exception:      # noqa: BLE001 - reported by the operand-matrix search with a replay
                            continue
                        if isinstance(r1, str) or isinstance(r2, str):
                            # NotImplemented: only the explicitly reflected method may defer, and the theorem speaks about
                            # rows that return a value; `unsupported` for @ / @= is the operand-matrix search's finding
                            continue
                        else:
                            same = [bits(x) for x in snapshot(r1)] == [bits(x) for x in snapshot(r2)]      # value: the class is the table's business
                        ck.count('angle_operand_bitwise_cases')
                        if not same and len(bad) < 5:
                            bad.append({'form': form, 'left': lc, 'angle': rc, 'matrix': mc.__name__, 'left_vals': vl, 'angle_vals': vr['A'],
                                        'with_angle': r1 if isinstance(r1, str) else snapshot(r1),
                                        'with_matrix': r2 if isinstance(r2, str) else snapshot(r2)})
    ck.obligation('correspondence:angle-operand-same-computation', not bad,
                  f'3 forms x 7 left classes x 2 angle classes x 2 matrix classes x {reps} value sets: x @ angle vs '
                  f'x @ Matrix.from_angle(angle), bit for bit: {len(bad)}+ differences')
    if bad:
        ck.tie_broken.append('x @ Angle is not bit-identical to x @ Matrix.from_angle(Angle)')
        ck.extra['angle_operand_differences'] = bad


# =============================================================================================== inverse(): Gauss-Jordan
def coq_float(x: float) -> str:
    """An IEEE double as an exact Coq primitive-float term."""
    if x != x:
        return 'nan'
    if x == math.inf:
        return 'infinity'
    if x == -math.inf:
        return 'neg_infinity'
    h = abs(x).hex()
    return f'(opp {h})' if math.copysign(1.0, x) < 0 else h


def gen_inverse_input(rng: random.Random) -> tuple[list[float], str]:
    """One input matrix for inverse() with the name of its class."""
    from srctools.math import Matrix
    r = rng.random()
    if r < 0.30:
        (p, y, q), cls = gen_angle(rng)
        return list(snapshot(Matrix.from_angle(p, y, q))), 'rotation-' + cls
    if r < 0.45:
        return [rng.uniform(-3, 3) for _ in range(9)], 'random'
    if r < 0.55:      # small integers: many exact ties in the pivot search, many singular matrices
        return [float(rng.randint(-2, 2)) for _ in range(9)], 'small-integers'
    if r < 0.63:      # rank 2: third row is a combination of the first two
        a, b = [rng.uniform(-2, 2) for _ in range(3)], [rng.uniform(-2, 2) for _ in range(3)]
        k, l = rng.choice([0.0, 1.0, -1.0, rng.uniform(-2, 2)]), rng.choice([0.0, 1.0, rng.uniform(-2, 2)])
        rows = [a, b, [k * x + l * y for x, y in zip(a, b)]]
        rng.shuffle(rows)
        return [x for row in rows for x in row], 'rank-2'
    if r < 0.68:
        a = [rng.uniform(-2, 2) for _ in range(3)]
        return [k * x for k in (1.0, rng.uniform(-2, 2), rng.choice([0.0, 2.0])) for x in a], 'rank-1'
    if r < 0.76:      # signed permutation matrices scaled: every pivot search needs a swap
        perm = [0, 1, 2]
        rng.shuffle(perm)
        m = [0.0] * 9
        for i, j in enumerate(perm):
            m[3 * i + j] = rng.choice([1.0, -1.0]) * rng.choice([1.0, 2.0, 0.5, 1e-3, 1e3])
        return m, 'permutation'
    if r < 0.86:      # diagonal entries around the 1e-5 threshold
        d = [rng.choice([1e-5, 0.99e-5, 1.01e-5, 9.999999999999999e-06, 1.0000000000000003e-05, -1e-5, 1.0, 3.0]) for _ in range(3)]
        m = [rng.uniform(-1e-7, 1e-7) if rng.random() < 0.3 else 0.0 for _ in range(9)]
        for i in range(3):
            m[4 * i] = d[i]
        return m, 'near-threshold'
    if r < 0.93:      # wide range of magnitudes
        return [rng.choice([-1, 1]) * 10.0 ** rng.uniform(-150, 150) for _ in range(9)], 'extreme-magnitude'
    if r < 0.97:      # zeros and negative zeros
        return [rng.choice([0.0, -0.0, 1.0, -1.0, 0.5]) for _ in range(9)], 'signed-zeros'
    m = [rng.uniform(-3, 3) for _ in range(9)]
    m[rng.randrange(9)] = rng.choice([math.inf, -math.inf, math.nan])
    return m, 'non-finite'


def run_inverse(vals: list[float]) -> tuple[str, list[float] | None]:
    """What MatrixBase.inverse does on the raw nine values: ('ok', nine doubles) / ('noinverse', None) /
    ('zerodiv', None); anything else is returned as ('other:<exception>', None)."""
    _CURRENT[0] = {'kind': 'inverse', 'matrix': list(vals)}
    try:
        inv = raw_matrix(vals).inverse()
    except ZeroDivisionError:
        return 'zerodiv', None
    except ArithmeticError as e:
        return ('noinverse' if 'no inverse' in str(e) else f'other:{e!r}'), None
    except Exception as e:    # noqa: BLE001
        return f'other:{type(e).__name__}: {e}', None
    return 'ok', list(snapshot(inv))


INVERSE_CORPUS = [
    [1.0, 0.0, 0.0, 0.0, 1.0, 0.0, 0.0, 0.0, 1.0], [2.0, 1.0, 0.0, 0.5, 3.0, 1.0, 0.0, 1.0, 4.0],
    [0.0, 0.0, 1.0, 1.0, 0.0, 0.0, 0.0, 1.0, 0.0], [1.0, 2.0, 3.0, 2.0, 4.0, 6.0, 1.0, 0.0, 1.0],
    [0.0] * 9, [1.0, 2.0, 3.0, 4.0, 5.0, 6.0, 7.0, 8.0, 9.0], [1.0, 0.0, 0.0, 0.0, 1.0, 0.0, 0.0, 0.0, 1e-5],
    [1.0, 0.0, 0.0, 0.0, 1.0, 0.0, 0.0, 0.0, 1.0000000000000003e-05], [-1.0, 1.0, 0.0, 1.0, 1.0, 0.0, 0.0, 0.0, -0.0],
]


def corr_inverse(ck: Ck) -> None:
    """The generic interpreter of the GENERATED program, instantiated with IEEE binary64 in Coq, against
    MatrixBase.inverse: nine result doubles bit for bit, or the same exception."""
    n = ck.budget(400, 4000)
    cases: list[tuple[list[float], str, list[float] | None, str]] = []
    for i in range(n):
        vals, cls = (INVERSE_CORPUS[i], 'corpus') if i < len(INVERSE_CORPUS) else gen_inverse_input(ck.rng)
        kind, res = run_inverse(vals)
        ck.count('inverse_correspondence_cases')
        ck.hist('inverse_input_class', cls)
        ck.hist('inverse_outcome', kind.split(':')[0])
        ck.seen(('inv', tuple(bits(v) for v in vals)))
        cases.append((vals, kind, res, cls))
    bad: list[dict] = []
    for c in cases:
        if c[1].startswith('other'):
            bad.append({'input': c[0], 'class': c[3], 'implementation': c[1], 'model': 'cannot raise this'})
    failed_eval = False
    for lo in range(0, len(cases), 500):
        chunk = cases[lo:lo + 500]
        items = []
        for vals, kind, res, _ in chunk:
            exp = 'IOk [' + '; '.join(coq_float(x) for x in res) + ']' if kind == 'ok' else \
                  'INoInverse' if kind == 'noinverse' else 'IZeroDiv'
            items.append('([' + '; '.join(coq_float(x) for x in vals) + '], ' + exp + ')')
        pre = ('Import ListNotations.\nOpen Scope float_scope.\nDefinition cases : list (list float * impl_res) := [\n'
               + ';\n'.join(items) + '].\n')
        vals_ = ck.coq_eval(['Coq.Floats.Floats', 'Coq.Lists.List', 'SV.Rot.RotGJ', 'SV.Rot.RotGJFloat', 'SV.Gen.RotInverse_gen'],
                            ['disagreements inverse_prog 0 cases'], name='gjfloat', preamble=pre)
        if vals_ is None:
            failed_eval = True
            break
        idxs = [int(x) for x in re.findall(r'\d+', vals_[0])]
        for k in idxs:
            if len(bad) < 6:
                vals, kind, res, cls = chunk[k]
                bad.append({'input': vals, 'class': cls, 'implementation': kind if res is None else res})
    ck.obligation('correspondence:inverse', not bad and not failed_eval,
                  f'{len(cases)} matrices: Rot/RotGJ.v interpreter on the generated program over IEEE binary64 vs '
                  f'MatrixBase.inverse, result bit for bit or same exception: '
                  + ('could not be evaluated' if failed_eval else f'{len(bad)}+ disagreements'))
    if bad or failed_eval:
        ck.tie_broken.append('correspondence inverse (Gauss-Jordan interpreter over binary64 vs implementation)')
        ck.extra['inverse_disagreements'] = bad

# =============================================================================================== oracle search
def tri_key(problem: str, lc: str, alias: bool) -> str:
    return f'{problem}:{lc}' + (':same-object' if alias else '')


def check_triple(form: str, lc: str, rc: str, alias: bool, vl: dict, vr: dict) -> list[tuple[str, str]]:
    """The property on one operand-type triple with concrete values.  Returns a list of (problem, description)."""
    kl, kr = KIND[lc], KIND[rc]
    if kr == 'V':
        return []                      # unsupported operand kinds: nothing is required
    try:
        ob = observe(form, lc, rc, alias, vl, vr)
    except Exception as e:             # noqa: BLE001 - any exception on a supported pair is a finding
        return [('exception', f'{type(e).__name__}: {e}{exc_where(e)}')]
    probs: list[tuple[str, str]] = []
    if ob['kind'] == 'none':
        if form != 'rmatmul':
            probs.append(('unsupported', 'TypeError / NotImplemented for a supported operand pair'))
        return probs
    rm = as_ref_mat((rc, ob['R0']))
    assert rm is not None
    L0 = ob['L0']
    scale = 1.0
    if kl == 'V':
        want = ref_rot(list(L0), rm)
        got = list(ob['val'])
        scale = max(1.0, vmag(L0))
        err = max(abs(a - b) for a, b in zip(got, want)) if KIND.get(ob['cls']) == 'V' else float('inf')
        tol = TOL * scale
    else:
        lm = as_ref_mat((lc, L0))
        wantm = ref_mul(lm, rm)
        if kl == 'M':
            gotm = [list(ob['val'][0:3]), list(ob['val'][3:6]), list(ob['val'][6:9])] if len(ob['val']) == 9 else None
            tol = TOL
        else:
            gotm = ref_from_angle(*ob['val']) if len(ob['val']) == 3 else None
            h = horiz_of(wantm)
            tol = TOL if h > GIMBAL + 1e-9 else 2 * h + TOL + (2 * GIMBAL if abs(h - GIMBAL) <= 1e-9 else 0)
        err = maxdiff(gotm, wantm) if gotm is not None else float('inf')
    if not err <= tol:
        probs.append(('value-mismatch', f'result differs from the specification product by {err:.3g} (tolerance {tol:.3g})'))
    if KIND.get(ob['cls']) != kl:
        probs.append(('result-kind', f'result is a {ob["cls"]}'))
    mutable_l = lc in ('Vec', 'Angle', 'Matrix')
    inplace_ok = form == 'imatmul' and mutable_l and ob['ident'] == 'L'
    if form == 'imatmul' and mutable_l and ob['ident'] != 'L':
        # `x @= y` on a mutable receiver must update the object it was applied to: a caller that holds another reference to
        # it (a list element, a loop variable, an attribute of some owner) reads the receiver, not the rebound name
        probs.append(('not-in-place', f'the mutable receiver was not updated in place: @= returned '
                      f'{"the right operand object" if ob["ident"] == "R" else "a new object"}, the receiver (and every other '
                      f'reference to it) still holds {ob["L1"]} instead of the product {ob["val"]}'))
    if not inplace_ok:
        if ob['ident'] != 'fresh':
            probs.append(('result-not-fresh', f'the result is the {ob["ident"]} operand object itself'))
        if [bits(x) for x in ob['L1']] != [bits(x) for x in ob['L0']]:
            probs.append(('left-operand-mutated', f'left operand changed from {ob["L0"]} to {ob["L1"]}'))
    if not alias and [bits(x) for x in ob['R1']] != [bits(x) for x in ob['R0']]:
        probs.append(('right-operand-mutated', f'right operand changed from {ob["R0"]} to {ob["R1"]}'))
    return probs


def shrink_vals(vals: dict, pred) -> dict:
    """Make the numbers rounder while the failure persists."""
    cur = {k: tuple(v) for k, v in vals.items()}
    for k in list(cur):
        for i in range(3):
            for cand in (0.0, 1.0, 90.0, float(round(cur[k][i])), round(cur[k][i], 1), round(cur[k][i], 3)):
                if cand == cur[k][i]:
                    continue
                t = dict(cur)
                lst = list(cur[k])
                lst[i] = cand
                t[k] = tuple(lst)
                try:
                    if pred(t):
                        cur = t
                        break
                except Exception:      # noqa: BLE001
                    pass
    return cur


def search_operands(ck: Ck, found: dict) -> None:
    reps = ck.budget(10, 60)
    for form, lc, rc, alias in all_triples():
        for _ in range(reps):
            vl, vr = rand_vals(ck.rng), rand_vals(ck.rng)
            ck.count('operand_matrix_cases')
            ck.hist('operand_matrix_form', form)
            ck.hist('operand_matrix_kinds', f'{KIND[lc]}@{KIND[rc]}')
            if KIND[rc] != 'V':
                ck.seen(('tri', form, lc, rc, alias, vl['V'], vl['A'], vr['A'], vr['M']))
            for prob, desc in check_triple(form, lc, rc, alias, vl, vr):
                key = tri_key(prob, lc, alias)
                if key in found:
                    continue
                small_l = shrink_vals(vl, lambda t: any(p == prob for p, _ in check_triple(form, lc, rc, alias, t, vr)))
                small_r = shrink_vals(vr, lambda t: any(p == prob for p, _ in check_triple(form, lc, rc, alias, small_l, t)))
                d = [x for p, x in check_triple(form, lc, rc, alias, small_l, small_r) if p == prob]
                found[key] = (f'{form} on {lc} and {rc}{" (one object on both sides)" if alias else ""}: {d[0] if d else desc}',
                              {'kind': 'triple', 'form': form, 'l': lc, 'r': rc, 'alias': alias, 'left': small_l, 'right': small_r})


def ident_problems(p: float, y: float, r: float, v: tuple, q: tuple) -> list[tuple[str, str]]:
    """All value identities of the property for one angle triple (p,y,r), one vector v and a second angle triple q."""
    from srctools.math import Angle, FrozenAngle, FrozenMatrix, Matrix, Vec
    out: list[tuple[str, str]] = []
    _CURRENT[0] = {'kind': 'identity', 'angle': (p, y, r), 'vector': tuple(v), 'second_angle': tuple(q), 'identity': 'any'}
    M = Matrix.from_angle(p, y, r)
    m = mat_list(M)
    e = maxdiff(ref_mul(m, ref_T(m)), [[1, 0, 0], [0, 1, 0], [0, 0, 1]])
    if not e <= TOL:
        out.append(('from-angle-not-orthonormal', f'rows of from_angle({p},{y},{r}) deviate from orthonormal by {e:.3g}'))
    d = ref_det(m)
    if not abs(d - 1) <= TOL:
        out.append(('from-angle-determinant', f'det from_angle({p},{y},{r}) = {d!r}'))
    e = maxdiff(m, ref_from_angle(p, y, r))
    if not e <= TOL:
        out.append(('convention-vs-engine', f'from_angle({p},{y},{r}) differs from the engine AngleMatrix by {e:.3g}'))
    comp = ref_mul(ref_mul(ref_axis('x', r), ref_axis('y', p)), ref_axis('z', y))
    e = maxdiff(m, comp)
    if not e <= TOL:
        out.append(('convention-roll-pitch-yaw', f'from_angle({p},{y},{r}) differs from roll*pitch*yaw by {e:.3g}'))
    e = maxdiff(mat_list(Matrix.from_roll(r) @ Matrix.from_pitch(p) @ Matrix.from_yaw(y)), m)
    if not e <= TOL:
        out.append(('convention-own-factors', f'from_roll@from_pitch@from_yaw differs from from_angle({p},{y},{r}) by {e:.3g}'))
    for nm, ax, val in (('from_roll', 'x', r), ('from_pitch', 'y', p), ('from_yaw', 'z', y)):
        e = maxdiff(mat_list(getattr(Matrix, nm)(val)), ref_axis(ax, val))
        if not e <= TOL:
            out.append((f'{nm}-formula', f'{nm}({val}) differs from the elementary rotation about {ax} by {e:.3g}'))
    # inverse = transpose
    try:
        e = maxdiff(mat_list(M.inverse()), mat_list(M.transpose()))
        if not e <= TOL:
            out.append(('inverse-vs-transpose', f'inverse() and transpose() of from_angle({p},{y},{r}) differ by {e:.3g}'))
    except ArithmeticError as ex:
        out.append(('inverse-vs-transpose', f'inverse() of the rotation from_angle({p},{y},{r}) raised {ex}'))
    # inverse() of a general well-conditioned matrix (rows of M scaled by 0.5 .. 2.5) is a two-sided inverse
    sc = [0.5 + (abs(x) % 2.0) for x in v]
    kvals = [m[i][j] * sc[i] for i in range(3) for j in range(3)]
    K = raw_matrix(kvals)
    try:
        Ki = K.inverse()
        kl, kr, ki = mat_list(K), None, mat_list(Ki)
        e = max(maxdiff(ref_mul(ki, kl), [[1, 0, 0], [0, 1, 0], [0, 0, 1]]), maxdiff(ref_mul(kl, ki), [[1, 0, 0], [0, 1, 0], [0, 0, 1]]))
        if not e <= 1e-8:
            out.append(('inverse-not-inverse', f'inverse() of the scaled rotation {kvals} times the matrix differs from the identity by {e:.3g}'))
    except ArithmeticError as ex:
        out.append(('inverse-not-inverse', f'inverse() of the invertible matrix {kvals} raised {type(ex).__name__}: {ex}'))
    e = maxdiff(mat_list(M.transpose()), ref_T(m))
    if e != 0.0:
        out.append(('transpose-formula', f'transpose() is not the transpose (difference {e:.3g})'))
    # matrix -> angle -> matrix
    A = M.to_angle()
    back = mat_list(Matrix.from_angle(A))
    h = horiz_of(m)
    e = maxdiff(back, m)
    if h > GIMBAL:
        if not e <= TOL:
            out.append(('euler-roundtrip', f'from_angle(to_angle(M)) differs from M = from_angle({p},{y},{r}) by {e:.3g} (horizontal length {h:.3g} > 0.001)'))
    elif not e <= 2 * h + TOL:
        out.append(('gimbal-bound', f'from_angle(to_angle(M)) differs from M = from_angle({p},{y},{r}) by {e:.3g} > 2*{h:.3g}'))
    # associativity, all with tolerance 1e-9 * max(1, |v|)
    scale = max(1.0, vmag(v))
    B = Matrix.from_angle(*q)
    V = Vec(*v)
    lhs, rhs = (V @ M) @ B, V @ (M @ B)
    e = max(abs(a - b) for a, b in zip(lhs, rhs))
    if not e <= TOL * scale:
        out.append(('assoc-vec-matrix', f'(v@A)@B and v@(A@B) differ by {e:.3g} for |v|={vmag(v):.3g}'))
    C = Matrix.from_angle(q[2], p, q[0])
    e = maxdiff(mat_list((M @ B) @ C), mat_list(M @ (B @ C)))
    if not e <= TOL:
        out.append(('assoc-matrix', f'(A@B)@C and A@(B@C) differ by {e:.3g}'))
    # Vec @ Angle == Vec @ Matrix.from_angle(Angle), every vector/angle class
    for vc in (Vec, ):
        for ac in (Angle, FrozenAngle):
            a = ac(p, y, r)
            w1, w2 = vc(*v) @ a, vc(*v) @ Matrix.from_angle(a)
            e = max(abs(x1 - x2) for x1, x2 in zip(w1, w2))
            if not e <= TOL * scale:
                out.append(('vec-angle-vs-matrix', f'v @ {ac.__name__} and v @ Matrix.from_angle(angle) differ by {e:.3g}'))
    # (v @ a) @ b == v @ (a @ b) with Angles: a @ b goes through the Euler extraction
    a, b = Angle(p, y, r), Angle(*q)
    ab = a @ b
    prod = ref_mul(ref_from_angle(*snapshot(a)), ref_from_angle(*snapshot(b)))
    hp = horiz_of(prod)
    tol = TOL * scale if hp > GIMBAL + 1e-9 else (6 * hp + TOL + (6 * GIMBAL if abs(hp - GIMBAL) <= 1e-9 else 0)) * scale
    lhs, rhs = (V @ a) @ b, V @ ab
    e = max(abs(x1 - x2) for x1, x2 in zip(lhs, rhs))
    if not e <= tol:
        out.append(('assoc-vec-angle', f'(v@a)@b and v@(a@b) differ by {e:.3g} (tolerance {tol:.3g}) for angles {snapshot(a)}, {snapshot(b)}'))
    return out


def shrink_ident(p, y, r, v, q, key):
    cur = {'A': (p, y, r), 'V': tuple(v), 'M': tuple(q)}
    cur = shrink_vals(cur, lambda t: any(k == key for k, _ in ident_problems(*t['A'], t['V'], t['M'])))
    return cur['A'], cur['V'], cur['M']


POLE_SENSITIVE = ('euler-roundtrip', 'gimbal-bound', 'assoc-vec-angle')


def search_identities(ck: Ck, found: dict) -> None:
    n = ck.budget(1500, 40000)
    corpus = [((0.0, 0.0, 0.0), (1.0, 2.0, 3.0), (10.0, 20.0, 30.0)), ((90.0, 0.0, 0.0), (1.0, 0.0, 0.0), (0.0, 90.0, 0.0)),
              ((-90.0, 45.0, 30.0), (0.0, 0.0, 1e6), (270.0, 0.0, 0.0)), ((89.95, 123.0, 45.0), (3.0, -4.0, 12.0), (15.0, 345.0, 180.0)),
              ((90.0 - 0.0572, 10.0, 20.0), (1e6, 1e6, -1e6), (45.0, 45.0, 45.0))]
    # thorough: every multiple of 15 degrees in one turn, exhaustively
    grid = [(15.0 * a, 15.0 * b, 15.0 * c) for a in range(24) for b in range(24) for c in range(24)] if ck.thorough else []
    for i in range(n + len(grid)):
        if i < len(corpus):
            (p, y, r), v, q = corpus[i]
            acls = 'corpus'
        elif i < n:
            (p, y, r), acls = gen_angle(ck.rng)
            v = gen_vec(ck.rng)
            q = gen_angle(ck.rng)[0]
        else:
            p, y, r = grid[i - n]
            acls, v, q = 'mult15-grid', gen_vec(ck.rng), gen_angle(ck.rng)[0]
        ck.count('identity_cases')
        ck.hist('angle_class', acls)
        ck.hist('vector_magnitude_decade', 'zero' if vmag(v) == 0 else int(math.floor(math.log10(vmag(v)))))
        hz = abs(math.cos(math.radians(p)))
        ck.hist('to_angle_branch', 'gimbal' if hz <= GIMBAL else 'main')
        if (p % 360, y % 360, r % 360) != (0, 0, 0):
            ck.seen(('id', p, y, r, v, q))
        for key, desc in ident_problems(p, y, r, v, q):
            # the input class is part of the key only where the pole matters
            full = f'{key}:{acls if acls in ("near-pole", "pole") else "general"}' if key in POLE_SENSITIVE else key
            if full in found:
                continue
            a2, v2, q2 = shrink_ident(p, y, r, v, q, key)
            d = [x for k, x in ident_problems(*a2, v2, q2) if k == key]
            found[full] = (d[0] if d else desc, {'kind': 'identity', 'angle': a2, 'vector': v2, 'second_angle': q2, 'identity': key})
    ck.sample({'identity_case': {'angle': (90.0 - 1e-7, 30.0, 60.0), 'to_angle': str(__import__('srctools.math', fromlist=['Matrix']).Matrix.from_angle(90.0 - 1e-7, 30.0, 60.0).to_angle())}})


# =============================================================================================== composed rotations
def composed_problem(a: tuple, b: tuple, form: str) -> tuple[str, str] | None:
    """A rotation obtained by COMPOSITION (entries carry the rounding of _mat_mul: an entry can be 1.0000000000000002)
    converts to an Angle and back: exactly up to rounding outside the gimbal band, within 2*horizontal length inside,
    and without an exception.  `form`: how the product is formed and converted."""
    from srctools.math import Angle, Matrix
    _CURRENT[0] = {'kind': 'composed', 'a': a, 'b': b, 'form': form}
    try:
        if form == 'matrix':
            M = Matrix.from_angle(*a) @ Matrix.from_angle(*b)
            ang = M.to_angle()
        elif form == 'angle':
            M = Matrix.from_angle(*a) @ Matrix.from_angle(*b)
            ang = Angle(*a) @ Angle(*b)
        else:
            M = Matrix.from_angle(*a) @ Matrix.from_angle(*b)
            ang = Angle(*a)
            ang @= Matrix.from_angle(*b)
    except Exception as e:      # noqa: BLE001 - every exception on a valid rotation is a finding
        return 'exception', f'{form}: converting from_angle{a} @ from_angle{b} to an Angle raised {type(e).__name__}: {e};{exc_where(e)}'
    m = mat_list(M)
    if maxdiff(ref_mul(m, ref_T(m)), [[1, 0, 0], [0, 1, 0], [0, 0, 1]]) > TOL:
        return None         # not a rotation up to rounding: reported by the other identities
    h = horiz_of(m)
    e = maxdiff(mat_list(Matrix.from_angle(ang)), m)
    tol = TOL if h > GIMBAL + 1e-9 else 2 * h + TOL + (2 * GIMBAL if abs(h - GIMBAL) <= 1e-9 else 0)
    if not e <= tol:
        return ('gimbal' if h <= GIMBAL else 'general'), (f'{form}: from_angle(to_angle(M)) differs from M = from_angle{a} @ '
                f'from_angle{b} by {e:.3g} (horizontal length {h:.3g}, tolerance {tol:.3g})')
    return None


def search_composed(ck: Ck, found: dict) -> None:
    """Products of two rotations on the 45-degree grid (thorough: also random rows of the 15-degree grid) whose forward axis
    comes out vertical (pre-selected with the reference maths: |forward . third column| >= 1 - 1e-12), plus random products."""
    def grid(step: int) -> list[tuple[float, float, float]]:
        k = 360 // step
        return [(float(step * i), float(step * j), float(step * l)) for i in range(k) for j in range(k) for l in range(k)]
    cands: list[tuple[tuple, tuple, str]] = []
    for step, rows in ((45, None), (15, ck.budget(0, 60))):
        G = grid(step)
        fw = [ref_from_angle(*g)[0] for g in G]
        col = [[r[2] for r in ref_from_angle(*g)] for g in G]
        idx_a = range(len(G)) if rows is None else [ck.rng.randrange(len(G)) for _ in range(rows)]
        for ia in idx_a:
            fx, fy, fz = fw[ia]
            for ib, (cx, cy, cz) in enumerate(col):
                if abs(fx * cx + fy * cy + fz * cz) >= 1 - 1e-12:
                    cands.append((G[ia], G[ib], f'vertical-grid{step}'))
    ck.rng.shuffle(cands)
    n_vert = ck.budget(2500, 12000)
    cands = cands[:n_vert]
    for _ in range(ck.budget(300, 3000)):
        cands.append((gen_angle(ck.rng)[0], gen_angle(ck.rng)[0], 'random'))
    for k, (a, b, cls) in enumerate(cands):
        form = ('matrix', 'angle', 'imatmul')[k % 3]
        ck.count('composed_roundtrip_cases')
        ck.hist('composed_class', cls)
        ck.seen(('composed', a, b, form))
        pr = composed_problem(a, b, form)
        if pr is None:
            continue
        key = f'composed-roundtrip:{pr[0]}'
        if key not in found:
            found[key] = (pr[1], {'kind': 'composed', 'a': a, 'b': b, 'form': form})


# =============================================================================================== in-place forms
# Round 4.  "in-place and frozen variants included": every in-place operator the six classes define or inherit
# (+= -= *= /= //= %= @=) x every receiver class x every operand class, and the in-place rotation methods (Vec.localise,
# Vec.transform(), Angle.transform(), Vec.rotate).  Protocol: on a MUTABLE receiver the object the operator was applied to is
# returned and holds the value the pure operator returns; on a FROZEN receiver a new object is returned and the receiver keeps
# its bits; the right operand is never changed; whatever the pure form supports the in-place form supports.
INPLACE_OPS = [('iadd', 'add', '+='), ('isub', 'sub', '-='), ('imul', 'mul', '*='), ('itruediv', 'truediv', '/='),
               ('ifloordiv', 'floordiv', '//='), ('imod', 'mod', '%='), ('imatmul', 'matmul', '@=')]
INPLACE_RECEIVERS = ['Vec', 'FrozenVec', 'Angle', 'FrozenAngle', 'Matrix', 'FrozenMatrix']
INPLACE_OPERANDS = CONCRETE + ['float', 'int']


def make_operand(cls: str, vals: dict) -> Any:
    if cls == 'float':
        return float(vals['S'])
    if cls == 'int':
        return int(vals['S']) or 3
    return make(cls, vals)


def rand_vals_s(rng: random.Random) -> dict:
    d = rand_vals(rng)
    d['S'] = rng.choice([2.0, -3.0, 0.5, 7.25, rng.uniform(-9, 9) or 1.0, 360.0, 1e-3])
    return d


def close_snap(cls: str, a: tuple, b: tuple) -> bool:
    """Two snapshots of objects of class `cls` agree up to rounding (angles: modulo a full turn)."""
    if len(a) != len(b):
        return False
    for x, y in zip(a, b):
        if x != x and y != y:
            continue
        if x in (math.inf, -math.inf) or y in (math.inf, -math.inf):
            if x != y:
                return False
            continue
        d = abs(x - y)
        if KIND[cls] == 'A':
            d = min(d, abs(360.0 - d))
        if not d <= TOL * max(1.0, abs(x), abs(y)):
            return False
    return True


def inplace_op_problems(iname: str, pname: str, lc: str, rc: str, vl: dict, vr: dict) -> list[tuple[str, str]] | None:
    import operator
    import warnings
    _CURRENT[0] = {'kind': 'inplace-op', 'iname': iname, 'pname': pname, 'l': lc, 'r': rc, 'left': vl, 'right': vr}
    with warnings.catch_warnings():
        warnings.simplefilter('ignore')
        x0, y0 = make(lc, vl), make_operand(rc, vr)
        try:
            pure = getattr(operator, pname)(x0, y0)
        except (TypeError, ZeroDivisionError, ValueError, OverflowError):
            return None                 # the pure form does not support this pair: nothing is required of the in-place one
        if type(pure).__name__ != lc:
            return None                 # e.g. a future Vec * Vec -> float: not an in-place candidate
        x, y = make(lc, vl), make_operand(rc, vr)
        alias = [x]                     # the other reference
        sx, sy = snapshot(x), (snapshot(y) if rc in KIND else y)
        try:
            res = getattr(operator, iname)(x, y)
        except Exception as e:          # noqa: BLE001
            return [('exception', f'x {iname} y raised {type(e).__name__}: {e} although the pure operator returns {pure!r};{exc_where(e)}')]
    probs: list[tuple[str, str]] = []
    mutable_l = lc in ('Vec', 'Angle', 'Matrix')
    if type(res).__name__ != lc:
        return [('result-class', f'result is a {type(res).__name__}')]
    if not close_snap(lc, snapshot(res), snapshot(pure)):
        probs.append(('differs-from-pure', f'the in-place form returns {snapshot(res)} but the pure operator {snapshot(pure)}'))
    if mutable_l:
        if res is not alias[0]:
            probs.append(('not-in-place', f'mutable receiver not updated: a new object was returned and the receiver still '
                          f'holds {snapshot(alias[0])}'))
        elif not close_snap(lc, snapshot(alias[0]), snapshot(pure)):
            probs.append(('receiver-value', f'the receiver holds {snapshot(alias[0])} afterwards, the pure operator returns {snapshot(pure)}'))
    else:
        if res is alias[0]:
            probs.append(('frozen-receiver-returned', 'the frozen receiver itself was returned'))
        if [bits(v) for v in snapshot(alias[0])] != [bits(v) for v in sx]:
            probs.append(('frozen-receiver-mutated', f'the frozen receiver changed from {sx} to {snapshot(alias[0])}'))
    if rc in KIND and y is not x and [bits(v) for v in snapshot(y)] != [bits(v) for v in sy]:
        probs.append(('operand-mutated', f'the right operand changed from {sy} to {snapshot(y)}'))
    return probs


def inplace_method_problems(name: str, rc: str, vl: dict, vr: dict) -> list[tuple[str, str]]:
    """The in-place rotation methods against the pure operators: Vec.localise(origin, angles) is `v @ angles + origin`,
    `with v.transform() as m: m @= A` is `v @ A`, `with a.transform() as m: m @= A` is `a @ A`, Vec.rotate(p, y, r,
    round_vals=False) is `v @ Angle(p, y, r)`; each updates the receiver object and nothing else."""
    import warnings
    from srctools.math import Angle, Vec
    probs: list[tuple[str, str]] = []
    _CURRENT[0] = {'kind': 'inplace-method', 'name': name, 'r': rc, 'left': vl, 'right': vr}
    R = None if rc == 'None' else make(rc, vr)
    sR = None if R is None else snapshot(R)
    rm = [[1.0, 0, 0], [0, 1.0, 0], [0, 0, 1.0]] if R is None else as_ref_mat((rc, sR))
    try:
        with warnings.catch_warnings():
            warnings.simplefilter('ignore')
            if name == 'Angle.transform':
                a = Angle(*vl['A'])
                keep = a
                lm = ref_from_angle(*snapshot(a))
                with a.transform() as m:
                    m @= R
                want = ref_mul(lm, rm)
                h = horiz_of(want)
                tol = TOL if h > GIMBAL + 1e-9 else 2 * h + TOL + (2 * GIMBAL if abs(h - GIMBAL) <= 1e-9 else 0)
                e = maxdiff(ref_from_angle(*snapshot(keep)), want)
                if not e <= tol:
                    probs.append(('value', f'after `with a.transform() as m: m @= r` the angle differs from a @ r by {e:.3g}'))
            else:
                v = Vec(*vl['V'])
                keep = v
                scale = max(1.0, vmag(vl['V']))
                want = ref_rot(list(vl['V']), rm)
                ret = None
                if name == 'Vec.localise':
                    org = vr['V']
                    scale = max(scale, vmag(org))
                    want = [w + o for w, o in zip(want, org)]
                    ret = v.localise(Vec(*org), R)
                elif name == 'Vec.transform':
                    with v.transform() as m:
                        m @= R
                else:
                    p, y, r = vr['A']
                    want = ref_rot(list(vl['V']), ref_from_angle(p % 360.0 % 360.0, y % 360.0 % 360.0, r % 360.0 % 360.0))
                    ret = v.rotate(p, y, r, False)
                    if ret is not keep:
                        probs.append(('not-in-place', 'Vec.rotate() did not return the receiver'))
                    ret = None
                if ret is not None:
                    probs.append(('return', f'{name} returned {ret!r}'))
                e = max(abs(g - w) for g, w in zip(snapshot(keep), want))
                if not e <= TOL * scale:
                    probs.append(('value', f'after {name} the receiver differs from the pure form by {e:.3g}'))
    except Exception as e:      # noqa: BLE001
        return [('exception', f'{name} raised {type(e).__name__}: {e};{exc_where(e)}')]
    if R is not None and [bits(x) for x in snapshot(R)] != [bits(x) for x in sR]:
        probs.append(('operand-mutated', f'{name} changed its rotation argument from {sR} to {snapshot(R)}'))
    return probs


INPLACE_METHODS = [('Vec.localise', ['Angle', 'FrozenAngle', 'Matrix', 'FrozenMatrix', 'None']),
                   ('Vec.transform', ['Angle', 'FrozenAngle', 'Matrix', 'FrozenMatrix']),
                   ('Angle.transform', ['Angle', 'FrozenAngle', 'Matrix', 'FrozenMatrix']),
                   ('Vec.rotate', ['Angle'])]


def search_inplace(ck: Ck, found: dict) -> None:
    reps = ck.budget(6, 25)
    for iname, pname, sym in INPLACE_OPS:
        for lc in INPLACE_RECEIVERS:
            for rc in INPLACE_OPERANDS:
                if iname != 'imatmul' and KIND.get(rc) in ('A', 'M'):
                    continue        # number arithmetic with a rotation as operand is meaningless (Vec * Angle happens to "work")
                for _ in range(reps):
                    vl, vr = rand_vals_s(ck.rng), rand_vals_s(ck.rng)
                    ck.count('inplace_operator_cases')
                    probs = inplace_op_problems(iname, pname, lc, rc, vl, vr)
                    if probs is None:
                        ck.hist('inplace_operator', 'pair not supported by the pure operator')
                        break
                    ck.hist('inplace_operator', sym)
                    ck.seen(('inplace', sym, lc, rc, vl['V'], vl['A'], vr['V'], vr['A'], vr['S']))
                    for prob, desc in probs:
                        key = f'inplace-{prob}:{lc}:{sym}'
                        if key not in found:
                            found[key] = (f'{lc} {sym} {rc}: {desc}', {'kind': 'inplace-op', 'iname': iname, 'pname': pname, 'l': lc,
                                                                   'r': rc, 'left': vl, 'right': vr})
    for name, rcs in INPLACE_METHODS:
        for rc in rcs:
            for _ in range(ck.budget(20, 60)):
                vl, vr = rand_vals_s(ck.rng), rand_vals_s(ck.rng)
                ck.count('inplace_method_cases')
                ck.hist('inplace_method', name)
                ck.seen(('inplace-method', name, rc, vl['V'], vl['A'], vr['A'], vr['M'], vr['V']))
                for prob, desc in inplace_method_problems(name, rc, vl, vr):
                    key = f'inplace-method-{prob}:{name}'
                    if key not in found:
                        found[key] = (f'{name} with a {rc}: {desc}', {'kind': 'inplace-method', 'name': name, 'r': rc, 'left': vl, 'right': vr})


# =============================================================================================== conversions / entry points
# Round 4.  The glue around the anchored functions: copies, freeze / thaw, constructors from another object, pickling, the row
# accessors, the string entry point, to_matrix().  A rotation (angle, vector) that goes through any of them must come out with
# the same bits - otherwise every identity above silently speaks about a different object than the caller holds.
def conversion_problems(vals: dict) -> list[tuple[str, str]]:
    import copy
    import pickle
    import srctools.math as sm
    from srctools.math import Angle, FrozenAngle, FrozenMatrix, FrozenVec, Matrix, Vec
    _CURRENT[0] = {'kind': 'conversion', 'vals': vals}
    out: list[tuple[str, str]] = []

    def same(name: str, got: Any, want: tuple, cls: type | None = None, not_obj: Any = None) -> None:
        if not_obj is not None and got is not_obj:
            out.append((name, f'{name}: returned the mutable receiver itself, not a copy'))
            return
        try:
            g = snapshot(got)
        except Exception as e:      # noqa: BLE001
            out.append((name, f'{name}: result {got!r} is not a vector / angle / matrix ({e})'))
            return
        if [bits(x) for x in g] != [bits(x) for x in want]:
            out.append((name, f'{name}: {g} instead of {want}'))
        elif cls is not None and type(got) is not cls:
            out.append((name, f'{name}: result is a {type(got).__name__}, expected {cls.__name__}'))

    p, y, r = vals['M']
    for mc, oc in ((Matrix, FrozenMatrix), (FrozenMatrix, Matrix)):
        nm = mc.__name__
        M = mc.from_angle(p, y, r)
        w = snapshot(M)
        mut = M if mc is Matrix else None
        same(f'{nm}.copy', M.copy(), w, mc, mut)
        same(f'{nm}(matrix)', mc(M), w, mc, mut)
        same(f'{oc.__name__}({nm})', oc(M), w, oc)
        same(f'copy.copy({nm})', copy.copy(M), w, mc, mut)
        same(f'copy.deepcopy({nm})', copy.deepcopy(M), w, mc, mut)
        same(f'pickle({nm})', pickle.loads(pickle.dumps(M)), w, mc)
        same(f'{nm}.freeze/thaw', M.thaw() if mc is FrozenMatrix else M.freeze(), w, oc)
        same(f'{nm}.forward/left/up', tuple(M.forward()) + tuple(M.left()) + tuple(M.up()), w)
        same(f'{nm}.from_angle(Angle)', mc.from_angle(Angle(p, y, r)), snapshot(mc.from_angle(*snapshot(Angle(p, y, r)))), mc)
        same(f'{nm}.from_angle(FrozenAngle)', mc.from_angle(FrozenAngle(p, y, r)), snapshot(mc.from_angle(*snapshot(Angle(p, y, r)))), mc)
        same(f'to_matrix({nm})', sm.to_matrix(M), w)
        a = Angle(p, y, r)
        same(f'{nm}.from_angstr', mc.from_angstr(f'{a.pitch!r} {a.yaw!r} {a.roll!r}'), snapshot(mc.from_angle(a)), mc)
        same(f'{nm}.to_angle', M.to_angle(), snapshot(M._to_angle(Angle.__new__(Angle))), Angle)
    same('to_matrix(Angle)', sm.to_matrix(Angle(p, y, r)), snapshot(Matrix.from_angle(Angle(p, y, r))))
    same('to_matrix(FrozenAngle)', sm.to_matrix(FrozenAngle(p, y, r)), snapshot(Matrix.from_angle(Angle(p, y, r))))
    same('to_matrix(None)', sm.to_matrix(None), (1.0, 0.0, 0.0, 0.0, 1.0, 0.0, 0.0, 0.0, 1.0))
    for ac, oc in ((Angle, FrozenAngle), (FrozenAngle, Angle)):
        nm = ac.__name__
        a = ac(*vals['A'])
        w = snapshot(a)
        same(f'{nm}.copy', a.copy(), w, ac, a if ac is Angle else None)
        same(f'{oc.__name__}({nm})', oc(a), w, oc)
        same(f'copy.copy({nm})', copy.copy(a), w, ac)
        same(f'pickle({nm})', pickle.loads(pickle.dumps(a)), w, ac)
        same(f'{nm}.freeze/thaw', a.thaw() if ac is FrozenAngle else a.freeze(), w, oc)
        same(f'{nm}.as_tuple', tuple(a.as_tuple()), w)
    for vc, oc in ((Vec, FrozenVec), (FrozenVec, Vec)):
        nm = vc.__name__
        v = vc(*vals['V'])
        w = snapshot(v)
        same(f'{nm}.copy', v.copy(), w, vc, v if vc is Vec else None)
        same(f'{oc.__name__}({nm})', oc(v), w, oc)
        same(f'copy.copy({nm})', copy.copy(v), w, vc)
        same(f'pickle({nm})', pickle.loads(pickle.dumps(v)), w, vc)
        same(f'{nm}.freeze/thaw', v.thaw() if vc is FrozenVec else v.freeze(), w, oc)
    return out


def search_conversions(ck: Ck, found: dict) -> None:
    for _ in range(ck.budget(200, 1500)):
        vals = rand_vals(ck.rng)
        ck.count('conversion_cases')
        ck.seen(('conv', vals['V'], vals['A'], vals['M']))
        for name, desc in conversion_problems(vals):
            key = f'conversion:{name}'
            if key not in found:
                found[key] = (desc, {'kind': 'conversion', 'vals': vals})


# =============================================================================================== histories (round 5)
# "Every matrix built from an Euler angle ... agrees with the Source convention": whatever was asked for before must not matter.
# A HISTORY is a sequence of public calls that build a rotation / angle / vector from text or numbers (plus modifications of the
# objects handed out earlier, and calls that raise) run in ONE instance of the module; every call must return, bit for bit, what
# the same call returns as the only call of a NEW instance of the module.  A new instance = the body of math.py executed again in
# an empty namespace: every module-level, class-level and decorator-held object (caches, memo tables, shared defaults, counters)
# starts afresh, whatever its name and wherever in the file it lives.
_MATH_CODE: list[Any] = [None]
_FRESH_N = [0]


def fresh_math() -> Any:
    import sys
    import types
    import srctools.math as sm
    if _MATH_CODE[0] is None:
        with open(sm.__file__, encoding='utf8') as f:
            _MATH_CODE[0] = compile(f.read(), sm.__file__, 'exec')
    _FRESH_N[0] += 1
    name = f'srctools._c04_fresh_math_{_FRESH_N[0]}'
    m = types.ModuleType(name)
    m.__file__ = sm.__file__
    m.__package__ = 'srctools'
    sys.modules[name] = m
    try:
        exec(_MATH_CODE[0], m.__dict__)
    finally:
        sys.modules.pop(name, None)
    return m


class in_fresh_math:
    """Within the block `srctools.math` IS a new instance of the module (for code that imports it when it is called)."""
    def __enter__(self) -> Any:
        import sys
        import srctools
        import srctools.math as sm
        self.old = sm
        self.new = fresh_math()
        sys.modules['srctools.math'] = self.new
        srctools.math = self.new
        return self.new

    def __exit__(self, *exc: Any) -> None:
        import sys
        import srctools
        sys.modules['srctools.math'] = self.old
        srctools.math = self.old


def history_dependent(found: dict) -> list[str]:
    """The keys of the violations (other than those of the history oracle itself) whose input PASSES when it is the only thing a new
    instance of the module is asked: the failure seen by the oracle - which had made thousands of calls before - depends on the
    history of the process.  Their descriptions say so; the replay of such an input alone does not reproduce the failure."""
    import contextlib
    import io
    out = []
    for key, (what, rp) in sorted(found.items()):
        if key.startswith(('history', 'hang:', 'exception:')) or not isinstance(rp, dict) or rp.get('kind') in (None, 'stage', 'history'):
            continue
        try:
            with in_fresh_math(), contextlib.redirect_stdout(io.StringIO()):
                rc = _replay({'replay': json.loads(json.dumps(rp))})
        except Exception:      # noqa: BLE001 - it fails alone too
            continue
        if rc == 0:
            out.append(key)
            found[key] = (what + '  [HISTORY-DEPENDENT: this input passes as the first thing a new instance of srctools.math is asked; '
                          'the failure needs the calls the oracle made before it - replaying the input alone does not reproduce it]', rp)
    return out


def _hist_entries() -> dict[str, Any]:
    E: dict[str, Any] = {}

    def vec_of(m: Any, v: Any) -> Any:
        return None if v is None else m.Vec(*v)
    for mc in ('Matrix', 'FrozenMatrix'):
        E[f'{mc}.from_angstr'] = lambda m, a, mc=mc: getattr(m, mc).from_angstr(*a)                    # text[, p, y, r]
        E[f'{mc}.from_angle'] = lambda m, a, mc=mc: getattr(m, mc).from_angle(*a)                      # p, y, r
        E[f'{mc}.from_angle(Angle)'] = lambda m, a, mc=mc: getattr(m, mc).from_angle(m.Angle(*a))
        E[f'{mc}.from_angle(FrozenAngle)'] = lambda m, a, mc=mc: getattr(m, mc).from_angle(m.FrozenAngle(*a))
        for ax in ('pitch', 'yaw', 'roll'):
            E[f'{mc}.from_{ax}'] = lambda m, a, mc=mc, ax=ax: getattr(getattr(m, mc), 'from_' + ax)(*a)
        E[f'{mc}.axis_angle'] = lambda m, a, mc=mc: getattr(m, mc).axis_angle(tuple(a[:3]), a[3])
        E[f'{mc}.from_basis'] = lambda m, a, mc=mc: getattr(m, mc).from_basis(x=vec_of(m, a[0]), y=vec_of(m, a[1]), z=vec_of(m, a[2]))
        E[f'{mc}()'] = lambda m, a, mc=mc: getattr(m, mc)()
        E[f'{mc}(matrix)'] = lambda m, a, mc=mc: getattr(m, mc)(m.Matrix.from_angle(*a))
    for ac in ('Angle', 'FrozenAngle'):
        E[f'{ac}.from_str'] = lambda m, a, ac=ac: getattr(m, ac).from_str(*a)
        E[f'{ac}()'] = lambda m, a, ac=ac: getattr(m, ac)(*a)                                          # 0..3 numbers
        E[f'{ac}.from_basis'] = lambda m, a, ac=ac: getattr(m, ac).from_basis(x=vec_of(m, a[0]), y=vec_of(m, a[1]), z=vec_of(m, a[2]))
    for vc in ('Vec', 'FrozenVec'):
        E[f'{vc}.from_str'] = lambda m, a, vc=vc: getattr(m, vc).from_str(*a)
        E[f'{vc}()'] = lambda m, a, vc=vc: getattr(m, vc)(*a)
        E[f'{vc} @ from_angstr'] = lambda m, a, vc=vc: getattr(m, vc)(*a[0]) @ m.Matrix.from_angstr(*a[1])
        E[f'{vc} @ Angle.from_str'] = lambda m, a, vc=vc: getattr(m, vc)(*a[0]) @ m.Angle.from_str(*a[1])
    E['parse_vec_str'] = lambda m, a: m.parse_vec_str(*a)
    E['to_matrix(None)'] = lambda m, a: m.to_matrix(None)
    E['to_matrix(Angle)'] = lambda m, a: m.to_matrix(m.Angle(*a))
    E['to_matrix(tuple)'] = lambda m, a: m.to_matrix(tuple(a))
    E['Vec.rotate_by_str'] = lambda m, a: m.Vec(*a[0]).rotate_by_str(*a[1])
    E['Matrix.to_angle'] = lambda m, a: m.Matrix.from_angle(*a).to_angle()
    # the operators themselves (three numbers: an Euler angle; the other operand is fixed): a scratch object or a memo inside
    # _rotate_angle / _mat_mul / from_angle would show up here
    E['Vec @ Angle'] = lambda m, a: m.Vec(128.0, -64.0, 16.0) @ m.Angle(*a)
    E['FrozenVec @ FrozenMatrix'] = lambda m, a: m.FrozenVec(128.0, -64.0, 16.0) @ m.FrozenMatrix.from_angle(*a)
    E['Angle @ Angle'] = lambda m, a: m.Angle(*a) @ m.Angle(10.0, 20.0, 30.0)
    E['FrozenAngle @ Angle'] = lambda m, a: m.FrozenAngle(*a) @ m.Angle(10.0, 20.0, 30.0)
    E['Angle @ Matrix'] = lambda m, a: m.Angle(10.0, 20.0, 30.0) @ m.Matrix.from_angle(*a)
    E['Matrix @ Matrix'] = lambda m, a: m.Matrix.from_angle(*a) @ m.Matrix.from_angle(10.0, 20.0, 30.0)
    E['FrozenMatrix @ Angle'] = lambda m, a: m.FrozenMatrix.from_angle(*a) @ m.Angle(10.0, 20.0, 30.0)
    E['Matrix.inverse'] = lambda m, a: m.Matrix.from_angle(*a).inverse()
    E['Matrix.transpose'] = lambda m, a: m.Matrix.from_angle(*a).transpose()
    E['Vec.rotate'] = lambda m, a: m.Vec(128.0, -64.0, 16.0).rotate(*a)
    return E


HIST_ENTRIES = _hist_entries()
HIST_TEXT_ENTRIES = ['Matrix.from_angstr', 'FrozenMatrix.from_angstr', 'Angle.from_str', 'FrozenAngle.from_str', 'Vec.from_str',
                     'FrozenVec.from_str', 'parse_vec_str']
HIST_OPERATORS = ['Vec @ Angle', 'FrozenVec @ FrozenMatrix', 'Angle @ Angle', 'FrozenAngle @ Angle', 'Angle @ Matrix', 'Matrix @ Matrix',
                  'FrozenMatrix @ Angle', 'Matrix.inverse', 'Matrix.transpose', 'Vec.rotate']
HIST_TEXT_ROT = ['Vec @ from_angstr', 'FrozenVec @ from_angstr', 'Vec @ Angle.from_str', 'FrozenVec @ Angle.from_str', 'Vec.rotate_by_str']
# texts that do not parse (the fallback numbers decide) and texts that do (the fallback must not matter)
HIST_BAD_TEXTS = ['', '0 90', 'up', '12 34 x', ' ', '1 2 3 4', '0,90,0', '(', 'nan nan', '<>']
HIST_GOOD_TEXTS = ['0 90 0', '(45 270 12.5)', '<12 34 56>', '[12 34 -56]', '{1 2 3}', '90 0 0', '0 0 0', ' -0 180 -90 ', '1e1 2.5e-1 -3']
HIST_FALLBACKS = [(0.0, 0.0, 0.0), (0.0, 90.0, 0.0), (270.0, 15.0, 80.0), (-90.0, 0.0, 0.0), (30.0, 0.0, 45.0), (1.0, 2.0, 3.0)]


def hsnap(o: Any) -> Any:
    """Class name and bit patterns of what a call returned (in whichever instance of the module), JSON-friendly."""
    def fl(x: Any) -> str:
        return x.hex() if isinstance(x, float) else repr(x)
    if isinstance(o, BaseException):
        return ['raises', type(o).__name__]
    n = type(o).__name__
    try:
        if n in ('Vec', 'FrozenVec'):
            return [n] + [fl(x) for x in (o._x, o._y, o._z)]
        if n in ('Angle', 'FrozenAngle'):
            return [n] + [fl(x) for x in (o._pitch, o._yaw, o._roll)]
        if n in ('Matrix', 'FrozenMatrix'):
            return [n] + [fl(getattr(o, s)) for s in ('_aa', '_ab', '_ac', '_ba', '_bb', '_bc', '_ca', '_cb', '_cc')]
    except AttributeError as e:
        return ['broken', n, str(e)]
    if isinstance(o, tuple):
        return ['tuple'] + [fl(x) for x in o]
    return ['other', repr(o)[:80]]


def hshow(s: Any) -> str:
    if s and s[0] in ('raises', 'other', 'broken'):
        return ' '.join(map(str, s))
    def num(x: str) -> str:
        try:
            return format(float.fromhex(x), '.6g')
        except ValueError:
            return x
    return f'{s[0]}(' + ', '.join(num(x) for x in s[1:]) + ')'


def _hist_modify(m: Any, o: Any) -> None:
    """What a caller may do with a mutable object it was handed: the object is the caller's."""
    n = type(o).__name__
    if n == 'Matrix':
        o @= m.Matrix.from_yaw(33.0)
    elif n == 'Vec':
        o += (1.0, 2.0, 3.0)
    elif n == 'Angle':
        o.yaw += 33.0
        o.pitch = 12.0


def run_history(steps: list, changed: list | None = None) -> list:
    """Run the steps in ONE new instance of the module; per step the snapshot of what the call returned (None for a modification).
    `changed` collects (i, j, before, after): the object handed out by step i no longer had the value it was returned with (or
    was given by the caller) after step j ran - a later call reached an object that belongs to the caller."""
    import warnings
    m = fresh_math()
    objs: list[Any] = []
    base: list[Any] = []       # what each handed-out object must still look like
    out: list[Any] = []
    with warnings.catch_warnings():
        warnings.simplefilter('ignore')
        for j, st in enumerate(steps):
            if st[0] in ('call', 'call!'):
                try:
                    o = HIST_ENTRIES[st[1]](m, st[2])
                except Exception as e:      # noqa: BLE001 - an exception is a result like any other: the same alone and in a history
                    o = e
                out.append(hsnap(o))
                base.append(out[-1])
                # 'call!': the caller drops the result at once (its memory - and its id() - is free for the next object)
                objs.append(o if st[0] == 'call' else None)
                del o
            else:
                k = st[1]
                if 0 <= k < len(objs) and objs[k] is not None:
                    try:
                        _hist_modify(m, objs[k])
                    except Exception:      # noqa: BLE001
                        pass
                    # the caller's own modification: objects that ARE this object follow it (the same object handed out twice is
                    # reported through the values: the second call's result differs from the call alone once the first is modified)
                    for i in range(len(objs)):
                        if objs[i] is objs[k]:
                            base[i] = hsnap(objs[i])
                objs.append(None)
                out.append(None)
                base.append(None)
            if changed is not None and st[0] in ('call', 'call!'):
                for i in range(j):
                    if objs[i] is not None and not isinstance(objs[i], BaseException) and hsnap(objs[i]) != base[i]:
                        changed.append((i, j, base[i], hsnap(objs[i])))
                        base[i] = hsnap(objs[i])
    return out


_ALONE: dict[str, Any] = {}


def call_alone(st: list) -> Any:
    st = ['call', st[1], st[2]]
    key = repr(st)
    if key not in _ALONE:
        _ALONE[key] = run_history([st])[0]
    return _ALONE[key]


def history_problem(steps: list) -> tuple[int, str, str] | None:
    """(index, key, description) of the first call of the history that does not return what it returns alone, or that changes an
    object handed out by an earlier call."""
    _CURRENT[0] = {'kind': 'history', 'steps': steps}
    changed: list = []
    res = run_history(steps, changed)
    for i, (st, r) in enumerate(zip(steps, res)):
        if st[0] not in ('call', 'call!'):
            continue
        ch = next((c for c in changed if c[1] == i), None)
        if ch is not None:
            return (i, f'history-result-changed:{steps[ch[0]][1]}',
                    f'the object returned by step {ch[0]}, {steps[ch[0]][1]}{tuple(steps[ch[0]][2])!r} = {hshow(ch[2])}, became {hshow(ch[3])} '
                    f'when step {i}, {st[1]}{tuple(st[2])!r}, ran: the caller\'s object is shared with the module')
        alone = call_alone(st)
        if r != alone:
            before = sum(1 for s in steps[:i] if s[0] in ('call', 'call!'))
            return (i, f'history:{st[1]}',
                    f'{st[1]}{tuple(st[2])!r} returned {hshow(r)} after {before} earlier call(s) in the same process, but '
                    f'{hshow(alone)} as the first call of a new process')
    return None


def _hist_drop(steps: list, j: int) -> list:
    """The history without step j (modifications of its result go too; references to later steps move up)."""
    out = []
    for i, st in enumerate(steps):
        if i == j or (st[0] == 'modify' and st[1] == j):
            continue
        out.append(['modify', st[1] - 1] if st[0] == 'modify' and st[1] > j else st)
    return out


def shrink_history(steps: list, key: str) -> list:
    pr = history_problem(steps)
    if pr is not None:
        steps = steps[:pr[0] + 1]
    changed = True
    while changed and len(steps) > 1:
        changed = False
        for j in range(len(steps) - 1):
            cand = _hist_drop(steps, j)
            pr = history_problem(cand)
            if pr is not None and pr[1] == key:
                steps = cand[:pr[0] + 1]
                changed = True
                break
    return steps


def _hist_text_args(rng: random.Random, texts: list[str]) -> list:
    t = rng.choice(texts)
    r = rng.random()
    if r < 0.15:
        return [t]
    fb = list(rng.choice(HIST_FALLBACKS)) if r < 0.8 else [round(rng.uniform(-360, 360), 3) for _ in range(3)]
    return [t] + fb[:rng.choice([3, 3, 3, 2, 1])]


def gen_history(rng: random.Random) -> list:
    texts = rng.sample(HIST_BAD_TEXTS, rng.choice([1, 1, 2])) + rng.sample(HIST_GOOD_TEXTS, rng.choice([0, 1, 1]))
    entries = rng.sample(HIST_TEXT_ENTRIES, rng.choice([1, 2, 3]))
    steps: list = []
    for _ in range(rng.randrange(2, 10)):
        r = rng.random()
        calls = [i for i, s in enumerate(steps) if s[0] == 'call']
        if r < 0.55:
            steps.append(['call', rng.choice(entries), _hist_text_args(rng, texts)])
        elif r < 0.65:
            steps.append(['call', rng.choice(HIST_TEXT_ROT), [list(gen_vec(rng)), _hist_text_args(rng, texts)]])
        elif r < 0.75 and calls:
            steps.append(['modify', rng.choice(calls)])
        else:
            ang = list(gen_angle(rng)[0]) if rng.random() < 0.5 else list(rng.choice(HIST_FALLBACKS))
            e = rng.choice(['from_angle', 'from_angle(Angle)', 'from_angle(FrozenAngle)', 'from_pitch', 'from_yaw', 'from_roll',
                            'axis_angle', 'from_basis', '()', '(matrix)', 'Angle()', 'Vec()', 'to_matrix', 'Angle.from_basis',
                            'to_angle', 'error', 'operator', 'operator'])
            mc = rng.choice(['Matrix', 'FrozenMatrix'])
            if e in ('from_angle', 'from_angle(Angle)', 'from_angle(FrozenAngle)', '(matrix)'):
                steps.append(['call', f'{mc}.{e}' if e != '(matrix)' else f'{mc}(matrix)', ang])
            elif e in ('from_pitch', 'from_yaw', 'from_roll'):
                steps.append(['call', f'{mc}.{e}', [ang[0]]])
            elif e == 'axis_angle':
                steps.append(['call', f'{mc}.axis_angle', list(gen_vec(rng)) + [ang[1]]])
            elif e in ('from_basis', 'Angle.from_basis'):
                rows = ref_from_angle(*ang)
                a3: list = [list(rows[0]), list(rows[1]), list(rows[2])]
                a3[rng.randrange(3)] = None
                if rng.random() < 0.3:
                    a3[rng.randrange(3)] = None
                steps.append(['call', f'{mc}.from_basis' if e == 'from_basis' else rng.choice(['Angle', 'FrozenAngle']) + '.from_basis', a3])
            elif e == '()':
                steps.append(['call', f'{mc}()', []])
            elif e == 'Angle()':
                steps.append(['call', rng.choice(['Angle()', 'FrozenAngle()']), ang[:rng.choice([0, 1, 2, 3, 3])]])
            elif e == 'Vec()':
                steps.append(['call', rng.choice(['Vec()', 'FrozenVec()']), list(gen_vec(rng))[:rng.choice([0, 1, 2, 3, 3])]])
            elif e == 'to_matrix':
                k = rng.choice(['to_matrix(None)', 'to_matrix(Angle)', 'to_matrix(tuple)'])
                steps.append(['call', k, [] if k == 'to_matrix(None)' else ang])
            elif e == 'to_angle':
                steps.append(['call', 'Matrix.to_angle', ang])
            elif e == 'operator':
                steps.append(['call', rng.choice(HIST_OPERATORS), ang])
            else:   # a call that raises half-way, after which the caller carries on
                steps.append(rng.choice([['call', f'{mc}.from_angle', ['x', 0.0, 0.0]], ['call', f'{mc}.from_basis', [[0.0, 0.0, 0.0], None, None]],
                                         ['call', f'{mc}.from_angstr', ['', 'x', 0.0, 0.0]], ['call', 'Angle()', ['a', 1.0, 2.0]],
                                         ['call', f'{mc}.axis_angle', [0.0, 0.0, 0.0, 90.0]], ['call', 'Vec.from_str', ['', 'q']]]))
    return steps


def history_sweeps() -> list[list]:
    """Deterministic part: per text entry point, every text with every fallback, twice over (so every text has been seen before
    with another fallback), Matrix results modified in between."""
    out = []
    texts = HIST_BAD_TEXTS[:5] + HIST_GOOD_TEXTS[:2]
    for e in HIST_TEXT_ENTRIES + HIST_TEXT_ROT:
        steps: list = []
        for _rnd in range(2):
            for fb in HIST_FALLBACKS[:3]:
                for t in texts:
                    args = [t] + list(fb)
                    steps.append(['call', e, args if e in HIST_TEXT_ENTRIES else [[128.0, -64.0, 16.0], args]])
                    if len(steps) % 5 == 0:
                        steps.append(['modify', len(steps) - 1])
        out.append(steps)
    return out


HIST_CANONICAL_ARGS = [30.0, 60.0, 45.0]


def history_handed_out() -> list[list]:
    """Deterministic part: every entry point called, its result modified by the caller, called again with the same arguments, the
    second result modified, called a third time, then once with other arguments (a result that IS a long-lived object of the
    module - a cached matrix, a shared identity, a scratch object - shows up as a changed answer or a changed earlier result)."""
    out = []
    v = [128.0, -64.0, 16.0]
    for e in HIST_ENTRIES:
        if e.endswith('from_angstr') and '@' not in e or e.endswith('.from_str') and '@' not in e or e == 'parse_vec_str':
            forms = [['10 20 30'], ['', 10.0, 20.0, 30.0]]
            other = ['40 50 60']
        elif '@' in e or e == 'Vec.rotate_by_str':
            forms = [[v, ['10 20 30']]]
            other = [v, ['40 50 60']]
        elif e.endswith(('from_pitch', 'from_yaw', 'from_roll')):
            forms, other = [[33.0]], [12.0]
        elif e.endswith('axis_angle'):
            forms, other = [[0.0, 0.0, 1.0, 33.0]], [1.0, 0.0, 0.0, 12.0]
        elif e.endswith('from_basis'):
            forms, other = [[[1.0, 0.0, 0.0], [0.0, 1.0, 0.0], None], [None, None, None]], [[0.0, 1.0, 0.0], [-1.0, 0.0, 0.0], None]
        elif e.endswith('()') and e.split('(')[0] in ('Matrix', 'FrozenMatrix') or e == 'to_matrix(None)':
            forms, other = [[]], []
        else:
            forms, other = [list(HIST_CANONICAL_ARGS), []] if e.endswith('()') else [list(HIST_CANONICAL_ARGS)], [5.0, 6.0, 7.0]
        for a in forms:
            out.append([['call', e, a], ['modify', 0], ['call', e, a], ['modify', 2], ['call', e, a], ['call', e, other], ['call', e, a]])
    return out


def history_churn() -> list[list]:
    """Deterministic part: 40 calls of operator / numeric entry points with different angles; the results of about half of them
    (and all temporaries) are dropped at once, so that later objects reuse the memory - and the id() - of dead ones in ever
    different patterns (a memo keyed by identity, a weak table that is not cleared, a free list of scratch objects)."""
    out = []
    pool = HIST_OPERATORS + ['Matrix.from_angle(Angle)', 'FrozenMatrix.from_angle(FrozenAngle)', 'Matrix.to_angle', 'to_matrix(Angle)',
                             'Angle()', 'Matrix(matrix)']
    for k in range(16):
        rng = random.Random(1000 + k)
        mine = [pool[k]] if k < len(pool) else pool
        out.append([[rng.choice(['call', 'call!', 'call!']), rng.choice(mine + HIST_OPERATORS[:5]),
                     [float(rng.randrange(-24, 25) * 15), float(rng.randrange(-24, 25) * 15), round(rng.uniform(-360, 360), 2)]]
                    for _ in range(40)])
    return out


def search_histories(ck: Ck, found: dict) -> None:
    def one(steps: list, group: str) -> None:
        ck.count(group)
        calls = [s for s in steps if s[0] in ('call', 'call!')]
        for s in calls:
            ck.hist('history_entry_points', s[1])
        ck.hist('history_length', min(len(calls), 10) if len(calls) < 10 else '10+')
        if len(calls) >= 2:
            ck.seen(('history', repr(steps)))
        pr = history_problem(steps)
        if pr is not None and pr[1] not in found:
            small = shrink_history(steps, pr[1])
            pr2 = history_problem(small) or pr
            found[pr2[1]] = (pr2[2] + f'; history of {len(small)} step(s): ' + '; '.join(
                f'{s[1]}{tuple(s[2])!r}' if s[0] != 'modify' else f'modify the result of step {s[1]}' for s in small)[:600],
                {'kind': 'history', 'steps': small})
    for steps in history_sweeps():
        one(steps, 'history_sweeps')
    for steps in history_handed_out():
        one(steps, 'history_handed_out')
    for steps in history_churn():
        one(steps, 'history_churn')
    for _ in range(ck.budget(120, 2000)):
        one(gen_history(ck.rng), 'history_cases')
    ck.sample({'history': gen_history(random.Random(ck.seed))})


# =============================================================================================== axioms
def theorems_with_axioms(ck: Ck, props_file: str = 'Props/C04.v') -> None:
    """Same job as Ck.theorems (one `theorem:` obligation per theorem, axioms recorded), with a complete parser:
    harness.common._split_assumptions only sees axioms printed as `name : type` on ONE line, while the classical-reals
    axioms are printed with the type on the following line."""
    import re
    from harness.common import ROCQ
    names = re.findall(r"^\s*(?:Theorem|Lemma|Corollary)\s+([A-Za-z0-9_']+)", (ROCQ / props_file).read_text(), re.M)
    # Print Assumptions walks the whole dependency graph of its argument (more than a second per theorem over Coq.Reals).
    # Quick tier: ONE traversal of the tuple of all theorems = the union of their axioms (recorded for every theorem as an
    # upper bound).  Thorough tier: one traversal per theorem, spread over several coqc processes side by side.
    from concurrent.futures import ThreadPoolExecutor
    union_only = not ck.thorough
    if union_only:
        rc, out = ck.coq_scratch('Require Import SV.Props.C04.\nDefinition c04_all_theorems := (' + ', '.join(names) + ').\n'
                                 'Print Assumptions c04_all_theorems.\n', 'assumptions')
    else:
        nchunk = min(8, max(1, len(names)))
        chunks = [names[i::nchunk] for i in range(nchunk)]

        def one(k: int) -> tuple[int, str]:
            return ck.coq_scratch('Require Import SV.Props.C04.\n' + ''.join(f'Print Assumptions {n}.\n' for n in chunks[k]),
                                  f'assumptions{k}')
        with ThreadPoolExecutor(max_workers=nchunk) as ex:
            results = list(ex.map(one, range(nchunk)))
        rc = max(r[0] for r in results)
        out = '\n'.join(r[1] for r in results)
        names = [n for ch in chunks for n in ch]
    if rc != 0:
        ck.obligation(f'assumptions:{props_file}', False, out[-2000:])
        ck.tie_broken.append(f'Print Assumptions failed for {props_file}')
        return
    blocks: list[list[str]] = []
    cur: list[str] | None = None
    for line in out.splitlines():
        if line.startswith('Closed under the global context'):
            if cur is not None:
                blocks.append(cur)
                cur = None
            blocks.append([])
        elif line.startswith('Axioms:'):
            if cur is not None:
                blocks.append(cur)
            cur = []
        elif cur is not None:
            m = re.match(r"^([A-Za-z_][A-Za-z0-9_.']*)\s*(:|$)", line)
            if m:
                cur.append(m.group(1))
    if cur is not None:
        blocks.append(cur)
    if union_only and len(blocks) == 1:
        blocks = [blocks[0]] * len(names)
    if len(blocks) != len(names):
        ck.obligation(f'assumptions:{props_file}', False, f'{len(names)} theorems but {len(blocks)} Print Assumptions blocks')
        return
    for n, b in zip(names, blocks):
        ck.axioms[n] = b
        ck.obligation(f'theorem:{n}', True, 'Qed; axioms: ' + ('none (closed under the global context)' if not b else
                      ('within (union over Props/C04.v; per theorem in the thorough tier): ' if union_only else '') + ', '.join(b)))
    allowed = {'ClassicalDedekindReals.sig_forall_dec', 'ClassicalDedekindReals.sig_not_dec',
               'FunctionalExtensionality.functional_extensionality_dep',
               'Classical_Prop.classic'}      # Flocq (rounding theorems only)
    used = {a for b in blocks for a in b}
    ck.obligation('assumptions:only-classical-reals', used <= allowed,
                  'axioms used by Props/C04.v: ' + (', '.join(sorted(used)) or 'none') +
                  ('' if used <= allowed else ' -- UNEXPECTED: ' + ', '.join(sorted(used - allowed))))


def _stateful(v: Any) -> str | None:
    """The object can carry something from one call to the next (by its class, at run time)."""
    import collections
    if isinstance(v, (dict, list, set, bytearray, collections.deque)):
        return type(v).__name__
    if any(hasattr(v, a) for a in ('cache_info', 'cache_clear', 'cache_parameters')):
        return f'{type(v).__name__} (a cache wrapper)'
    return None


def corr_state_census(ck: Ck) -> None:
    """The census of long-lived objects read from the source against the RUNNING module: every module-level / class-level object
    of a mutable class (dict, list, set, bytearray, deque, cache wrappers), every function attribute, every mutable default
    value and every mutable object held in a closure cell that exists at run time must be known to the census."""
    import inspect
    import srctools.math as sm
    A = trs.analyse()
    bad: list[str] = []
    n_obj = n_fn = 0
    flagged = bool(A['decorators'] or A['class_writes'] or A['reflective'])
    funcs: list[tuple[str, Any]] = []

    def functions_of(name: str, v: Any) -> None:
        for f in ([v.fget, v.fset, v.fdel] if isinstance(v, property) else [getattr(v, '__func__', v)]):
            if inspect.isfunction(f):
                funcs.append((name, f))
    classes: dict[int, type] = {}
    for name, v in vars(sm).items():
        if name.startswith('__') and name.endswith('__'):
            continue
        if isinstance(v, type) and v.__module__ == sm.__name__:
            classes[id(v)] = v
            continue
        n_obj += 1
        kind = _stateful(v)
        if kind and name not in A['long_lived_module'] and not flagged:
            bad.append(f'module-level `{name}` is a {kind} at run time, unknown to the census')
        if getattr(v, '__module__', None) == sm.__name__:
            functions_of(name, v)
    for cls in classes.values():
        for k, a in vars(cls).items():
            if k.startswith('__') and k.endswith('__') and not inspect.isfunction(a):
                continue
            if issubclass(cls, tuple) and hasattr(cls, '_fields') and k in ('_field_defaults', '_fields'):
                continue      # written by the NamedTuple machinery when the class statement runs
            n_obj += 1
            kind = _stateful(a)
            if kind and not any(q.endswith('.' + k) for q in A['long_lived_class']) and not flagged:
                bad.append(f'class-level `{cls.__name__}.{k}` is a {kind} at run time, unknown to the census')
            functions_of(f'{cls.__name__}.{k}', a)
    for name, f in funcs:
        n_fn += 1
        extra = [k for k in vars(f) if not (k.startswith('__') and k.endswith('__'))]
        if extra and not flagged:
            bad.append(f'function `{name}` carries the attributes {extra}')
        dfl = list(f.__defaults__ or ()) + list((f.__kwdefaults__ or {}).values())
        if any(_stateful(d) for d in dfl) and not A['defaults']:
            bad.append(f'function `{name}` has a mutable default value, unknown to the census')
        for cell in (f.__closure__ or ()):
            try:
                cv = cell.cell_contents
            except ValueError:
                continue
            if _stateful(cv) and not flagged:
                bad.append(f'function `{name}` holds a {_stateful(cv)} in a closure cell, unknown to the census')
    ck.count('state_census_runtime_objects', n_obj)
    ck.count('state_census_runtime_functions', n_fn)
    ck.extra['state_census_runtime'] = {'objects': n_obj, 'functions': n_fn, 'classes': len(classes)}
    ck.obligation('correspondence:state-census', not bad and n_fn >= 100,
                  f'{n_obj} module-level / class-level objects and {n_fn} functions of the running module scanned; '
                  + ('every mutable one is known to the census' if not bad else 'DISAGREE: ' + '; '.join(bad[:6])))
    if bad:
        ck.tie_broken.append('state census disagrees with the running module')


def corr_inplace_census(ck: Ck) -> None:
    """The census of in-place methods read from the source (class bodies + expanded exec() templates) against the running
    classes: per class the same set of in-place names in `vars(cls)`, and every name resolves through the MRO as predicted."""
    import srctools.math as sm
    A = trp.analyse()
    bad: list[str] = []
    for c, names in A['runtime'].items():
        real = sorted(n for n in vars(getattr(sm, c)) if n in trp.INPLACE_NAMES and callable(vars(getattr(sm, c))[n]))
        ck.count('inplace_census_classes')
        if real != names:
            bad.append(f'{c}: running class defines {real}, census read {names}')
    for c in ('Vec', 'FrozenVec', 'Angle', 'FrozenAngle', 'Matrix', 'FrozenMatrix'):
        has = sorted(n for n in trp.INPLACE_NAMES if getattr(getattr(sm, c), n, None) is not None)
        pred = sorted({r['name'] for r in A['rows'] if c in r['reached_from']})
        if has != pred:
            bad.append(f'{c}: in-place methods reachable at run time {has}, census predicts {pred}')
    ck.obligation('correspondence:inplace-census', not bad,
                  f'in-place operator methods of the nine operand classes, source census vs vars() / getattr() of the running '
                  f'classes: {"; ".join(bad) if bad else "equal (" + str(len(A["rows"])) + " methods)"}')
    if bad:
        ck.tie_broken.append('correspondence in-place census (source vs running classes)')


def corr_rounding(ck: Ck) -> None:
    """The rounding model of Rot/RotRound.v against CPython floats: every tree of _vec_rot / _mat_mul evaluated with exact
    rationals and a correctly rounded conversion to binary64 after each + - * (= fe_fl rnd64) must give the bits the float
    evaluation of the same tree gives (which `correspondence:formulas` compares with the implementation), and the distance to
    the exact rational value must respect the bound of the running error analysis (recomputed here with the same recurrences)."""
    from fractions import Fraction
    from srctools.math import Matrix
    T = trr.trees()
    n = ck.budget(150, 1500)
    bad: list[dict] = []
    worst = Fraction(0)
    for i in range(n):
        rng = ck.rng
        (p, y, r), _ = gen_angle(rng)
        (p2, y2, r2), _ = gen_angle(rng)
        A, B = list(snapshot(Matrix.from_angle(p, y, r))), list(snapshot(Matrix.from_angle(p2, y2, r2)))
        if rng.random() < 0.3:
            A = rand_mat_vals(rng, 'A')
        v = gen_vec(rng)
        fenv = {**env_mat('s', A), **env_mat('o', B), 'v.x': v[0], 'v.y': v[1], 'v.z': v[2]}
        qenv = {k: Fraction(x) for k, x in fenv.items()}
        benv = {k: abs(x) for k, x in qenv.items()}
        for nm, irs in T.items():
            for k, ir in enumerate(irs):
                ck.count('rounding_model_evaluations')
                fl = tr.py_eval(ir, fenv)
                model = trr.rounded_eval(ir, qenv)
                exact = trr.exact_eval(ir, qenv)
                _, bound = trr.err_bound(ir, benv)
                if bound > 0:
                    worst = max(worst, abs(model - exact) / bound)
                if (bits(float(model)) != bits(fl) and not (model == 0 and fl == 0)) or abs(model - exact) > bound:
                    if len(bad) < 5:
                        bad.append({'formula': nm, 'entry': k, 'inputs': fenv, 'float': fl, 'rounding_model': float(model),
                                    'error': float(abs(model - exact)), 'bound': float(bound)})
        ck.seen(('rounding', tuple(A), tuple(B), v))
    # from_angle: the arithmetic over the libm results (rounded-real model vs floats, bit for bit), and the distance of the libm
    # results from the real sin / cos of the real angle (50-digit decimal arithmetic): the hypothesis of c04_from_angle_binary64_error
    ins, fts = trr.from_angle_trees()
    worst_in = 0.0
    for i in range(n):
        (p, y, r), acls = gen_angle(ck.rng)
        aenv = {'pitch': p, 'yaw': y, 'roll': r}
        vals = [tr.py_eval(ir, aenv) for ir in ins]
        fenv = {f'in.{k}': v for k, v in enumerate(vals)}
        qenv = {k: Fraction(x) for k, x in fenv.items()}
        benv = {k: abs(x) for k, x in qenv.items()}
        for ir, v in zip(ins, vals):
            deg = aenv[ir[2][2][1]] if ir[2][0] == 'call' and ir[2][1] == 'radians' and ir[2][2][0] == 'var' else None
            if deg is not None:
                worst_in = max(worst_in, abs(float(hp_sin_cos(deg)[0 if ir[1] == 'sin' else 1] - Decimal(v))))
        for k, ir in enumerate(fts):
            ck.count('rounding_model_evaluations')
            fl = tr.py_eval(ir, fenv)
            model = trr.rounded_eval(ir, qenv)
            exact = trr.exact_eval(ir, qenv)
            _, bound = trr.err_bound(ir, benv)
            if bound > 0:
                worst = max(worst, abs(model - exact) / bound)
            if (bits(float(model)) != bits(fl) and not (model == 0 and fl == 0)) or abs(model - exact) > bound:
                if len(bad) < 5:
                    bad.append({'formula': 'from_angle', 'entry': k, 'inputs': fenv, 'float': fl, 'rounding_model': float(model),
                                'error': float(abs(model - exact)), 'bound': float(bound)})
        ck.seen(('rounding-from-angle', p, y, r))
    ck.extra['rounding_worst_error_over_bound'] = float(worst)
    ck.extra['from_angle_worst_sin_cos_input_error'] = worst_in
    ck.obligation('correspondence:rounding-model', not bad,
                  f'{n} input sets x 12 trees + {n} angles x 9 from_angle trees: exact-rational evaluation with a correctly rounded '
                  f'binary64 conversion after every + - * (fe_fl rnd64) vs CPython float evaluation bit for bit, and |rounded - exact| '
                  f'<= fe_err: {len(bad)}+ disagreements; largest observed error / bound = {float(worst):.3f}')
    ck.obligation('correspondence:from-angle-inputs', worst_in <= 5e-15,
                  f'{n} angle triples in [-720, 720]: math.sin/cos(math.radians(x)) vs the real sin / cos of x degrees (50 digits): '
                  f'largest distance {worst_in:.3g} (hypothesis of c04_from_angle_binary64_error instantiated with 5e-15)')
    if bad:
        ck.tie_broken.append('correspondence rounding model (fe_fl rnd64 vs CPython floats)')
        ck.extra['rounding_disagreements'] = bad


def corr_euler_float(ck: Ck, found: dict) -> None:
    """The hypothesis of c04_euler_roundtrip_binary64, measured: for float angles (p, y, r) let M* be the EXACT rotation
    from_angle(p, y, r) (60-digit decimal arithmetic) and a* its exact Euler angles, whose sin / cos are horiz M*, -ac, aa/h,
    ab/h, bc/h, cc/h.  The implementation computes M_f = Matrix.from_angle(p, y, r), a_f = M_f.to_angle() and, inside
    Matrix.from_angle(a_f), the six libm values sin / cos(radians(a_f)).  Their distance from the exact ones is the `d` of the
    theorem (it contains the float error of from_angle, atan2, degrees, % 360, radians, sin, cos; amplified by 1/h near the
    band).  Also compared directly: Matrix.from_angle(a_f) against M* (the conclusion)."""
    import decimal
    from srctools.math import Matrix
    ins, _fts = trr.from_angle_trees()
    n = ck.budget(300, 3000)
    worst_d, worst_e, used = 0.0, 0.0, 0
    worst_at: Any = None
    with decimal.localcontext() as ctx:
        ctx.prec = 60
        for i in range(n):
            rng = ck.rng
            if i % 3 == 0:      # just outside the band: horizontal length 0.001 .. 0.1
                h = 10.0 ** rng.uniform(-3, -1)
                p = rng.choice([90.0, -90.0, 270.0]) + rng.choice([1, -1]) * math.degrees(math.asin(min(1.0, h))) * 1.0000001
                y, r = rng.uniform(-360, 360), rng.uniform(-360, 360)
            else:
                (p, y, r), _ = gen_angle(rng)
            (sp, cp), (sy, cy), (sr, cr) = hp_sin_cos(p), hp_sin_cos(y), hp_sin_cos(r)
            M = [cp * cy, cp * sy, -sp, sr * sp * cy - cr * sy, sr * sp * sy + cr * cy, sr * cp,
                 cr * sp * cy + sr * sy, cr * sp * sy - sr * cy, cr * cp]
            hstar = (M[0] * M[0] + M[1] * M[1]).sqrt()
            _CURRENT[0] = {'kind': 'euler-float', 'angle': (p, y, r)}
            Mf = Matrix.from_angle(p, y, r)
            if not (hstar > Decimal('0.0011') and math.hypot(Mf[0, 0], Mf[0, 1]) > 0.0011):
                ck.hist('euler_float_class', 'inside or at the gimbal band (skipped)')
                continue
            used += 1
            ck.count('euler_float_cases')
            ck.hist('euler_float_class', 'horizontal length < 0.1' if hstar < Decimal('0.1') else 'general')
            af = Mf.to_angle()
            aenv = {'pitch': af.pitch, 'yaw': af.yaw, 'roll': af.roll}
            target = {('cos', 'pitch'): hstar, ('sin', 'pitch'): -M[2], ('cos', 'yaw'): M[0] / hstar, ('sin', 'yaw'): M[1] / hstar,
                      ('sin', 'roll'): M[5] / hstar, ('cos', 'roll'): M[8] / hstar}
            for ir in ins:
                if not (ir[0] == 'call' and ir[1] in ('sin', 'cos') and ir[2][0] == 'call' and ir[2][1] == 'radians'
                        and ir[2][2][0] == 'var' and (ir[1], ir[2][2][1]) in target):
                    ck.obligation('correspondence:euler-angle-inputs', False, f'unexpected input of from_angle: {ir!r}')
                    return
                dd = abs(float(Decimal(tr.py_eval(ir, aenv)) - target[(ir[1], ir[2][2][1])]))
                if dd > worst_d:
                    worst_d, worst_at = dd, (p, y, r)
            back = snapshot(Matrix.from_angle(af))
            e_here = max(abs(float(Decimal(b) - m)) for b, m in zip(back, M))
            worst_e = max(worst_e, e_here)
            if e_here > 2e-13 and 'euler-roundtrip-float' not in found:
                found['euler-roundtrip-float'] = (
                    f'Matrix.from_angle(M.to_angle()) for M = Matrix.from_angle({p}, {y}, {r}) (horizontal length {float(hstar):.3g} > '
                    f'0.001) differs from the exact rotation by {e_here:.3g} (proved bound given accurate angles: 2e-13)',
                    {'kind': 'euler-float', 'angle': (p, y, r)})
            ck.seen(('euler-float', p, y, r))
    ck.extra['euler_float_worst_input_error'] = worst_d
    ck.extra['euler_float_worst_roundtrip_error'] = worst_e
    ck.obligation('correspondence:euler-angle-inputs', used > 0 and worst_d <= 2e-14 and worst_e <= 2e-13,
                  f'{used} rotations with horizontal length > 0.0011 (a third of them below 0.1): sin / cos of the float Euler angles '
                  f'vs the exact ones of the exact rotation (60 digits): largest distance {worst_d:.3g} at {worst_at} (hypothesis d of '
                  f'c04_euler_roundtrip_binary64, instantiated with 2e-14); Matrix.from_angle(M.to_angle()) vs the exact rotation: '
                  f'largest entry error {worst_e:.3g} (the theorem gives 2e-13)')


_PI50 = '3.14159265358979323846264338327950288419716939937510582097494'


def hp_sin_cos(deg: float):
    """(sin, cos) of `deg` degrees (the exact value of the float) with about 50 correct digits: Taylor series in decimal
    arithmetic after reduction modulo 360 degrees (exact: Decimal(float) and the remainder are exact)."""
    import decimal
    with decimal.localcontext() as ctx:
        ctx.prec = 60
        d = Decimal(deg) % Decimal(360)
        x = d * Decimal(_PI50) / Decimal(180)
        sn, cs, term, k = Decimal(0), Decimal(0), Decimal(1), 0
        while abs(term) > Decimal(10) ** -58 or k < 4:
            if k % 2 == 0:
                cs += term if k % 4 == 0 else -term
            else:
                sn += term if k % 4 == 1 else -term
            k += 1
            term = term * x / k
        return +sn, +cs


# =============================================================================================== main
def run(ck: Ck) -> None:
    ck.rule = ('identities: angle triples from four classes (uniform reals in [-720,720], multiples of 15 degrees, within '
               '1e-12..1e-3 degrees or radians of a pole, exactly a pole) x vectors of magnitude 1e-3..1e6 x a second angle; '
               'non-trivial = not the identity rotation; distinct by the full tuple of numbers.  Operand matrix: every '
               '(form, left class, right class, same object?) of 3 x 7 x 7 (+6 aliased), each with fresh random values; '
               'non-trivial = supported operand kinds.  Formula correspondence: random and near-pole matrices, 30% of them '
               'not rotations; distinct by inputs.  Thorough adds the full 24^3 grid of multiples of 15 degrees.  inverse() '
               'correspondence: 14 input classes (rotations of the four angle classes, random, small integers with exact '
               'pivot ties, rank 2, rank 1, scaled signed permutations, diagonals around the 1e-5 threshold, magnitudes '
               '1e-150..1e150, signed zeros, one inf/nan entry, corpus); distinct by the bit patterns of the nine inputs; all '
               'three outcomes (result / no-inverse / ZeroDivisionError) occur.  In-place forms: 7 in-place operators x 6 receiver '
               'classes x 9 operand classes (pairs the pure operator rejects are skipped and counted), 4 in-place rotation '
               'methods x rotation operand classes; conversions: ~45 entry points per random (vector, angle, rotation) triple; '
               'float round trip: a third of the rotations with horizontal length in [0.0011, 0.1].  Histories (round 5): sequences '
               'of 2-9 public calls in one new instance of the module - text entry points (from_angstr, from_str, parse_vec_str, '
               'rotate_by_str, Vec @ from_angstr / Angle.from_str, both classes each) with 1-2 unparsable and 0-1 parsable texts '
               'reused with different fallbacks, numeric constructors (from_angle in three forms, from_pitch/yaw/roll, axis_angle, '
               'from_basis, Matrix(), Matrix(m), Angle(), Vec(), to_matrix, to_angle), modifications of objects handed out earlier, '
               'calls that raise; deterministic sweeps: every text x fallback twice over per text entry point, and per entry point '
               'call / modify / call again / modify / call again / other arguments / call again; non-trivial = at least two calls; '
               'distinct by the full list of steps.')
    ck.assumptions += [
        'Arithmetic in the theorems is over the real numbers; IEEE rounding is outside the model (property: "up to rounding"). '
        'The numeric oracle bounds the rounding error by 1e-9*max(1,|v|) on the sampled inputs only.',
        'libm atan2 enters the Euler theorems as the hypothesis atan2_spec (cos/sin of atan2 y x are x/|(x,y)|, y/|(x,y)| away '
        'from the origin); math.radians/degrees are d*PI/180 and t*180/PI; float % 360 is x - 360*floor(x/360).',
        'The float literals 0.001 and 0.00001 are read as the rationals 1/1000 and 1/100000.',
        'inverse(): returning on every rotation is proved over the reals (gj_total_ok); in binary64 it is searched only.',
        'Rounding theorems: binary64 +, -, * are round-to-nearest-even of the exact result (IEEE 754; overflow excluded); the '
        'rounded-real model is compared bit for bit with CPython on every run.',
        'Vec arithmetic used by inverse() (-=, *, /= generated by exec() templates, componentwise) is not translated; it is '
        'covered by the bit-exact correspondence of the whole method.',
    ]
    ck.assumptions += [
        'Histories: "the same call alone in a new process" is the call in a NEW instance of srctools.math (the module body '
        'executed again in an empty namespace): state kept outside math.py (another module, the interpreter) would be shared by both '
        'sides; the state census reports every import from outside the standard library.',
        'c04_history_independent: the census (read set, write set) is a footprint of the real calls - visible hypothesis.',
        'In-place protocol: a mutable receiver of an in-place operator must be the object returned (property: "in-place and frozen '
        'variants included"; a rebound name with a stale receiver breaks `for a in angles: a @= m`).',
        'c04_euler_roundtrip_binary64: the accuracy of atan2 / degrees / % 360 / radians / sin / cos in binary64 is one visible '
        'hypothesis (distance of the six sin / cos values from those of the exact Euler angles), measured on sampled rotations only.',
    ]
    ck.trusted += ['translate/c04_inplace.py (in-place census: expansion of the exec() templates and path classification; its '
                   'per-class method sets are compared with vars() of the running classes on every run)']
    ck.trusted += ['translate/c04_state.py (census of process state: which module-level / class-level objects are mutable, which '
                   'function bodies read / update them, decorators, defaults, global declarations, reflective access, imports; '
                   'compared with the objects, function attributes, defaults and closure cells of the running module on every '
                   'run); that the census is a FOOTPRINT of the real calls is the visible hypothesis of c04_history_independent']
    ck.trusted += ['translate/c04_formulas.py symbolic executors (formulas: tied bit-for-bit to the implementation on every run; '
                   'dispatch: every table row compared with the implementation on every run)',
                   'Coq.Reals classical axioms (listed per theorem in axioms_per_theorem)',
                   'translate/c04_inverse.py loop unroller for MatrixBase.inverse (tied: the interpreter of the generated program '
                   'over IEEE binary64 is compared bit for bit with inverse() on every run)',
                   'Coq primitive floats (PrimFloat: sub, mul, div, abs, ltb, leb, eqb) are the IEEE binary64 operations of the CPU, '
                   'as are CPython float operations',
                   'translate/c04_formulas.py polynomial expansion of the reified guard / _mat_mul entries (re-proved by ring '
                   'against the generated formulas in Rot/RotReifyProofs.v on every build)']
    ok_f = ck.translate('RotFormulas_gen', tr.translate_formulas)
    ok_d = ck.translate('RotDispatch_gen', tr.translate_dispatch)
    ok_i = ck.translate('RotInverse_gen', tri.translate_inverse)
    # not gated on ok_f: when the formula model cannot express today's code, the reified pieces are still read (tolerant mode)
    ok_r = ck.translate('RotReified_gen', tr.translate_reified)
    ok_rr = ok_f and ck.translate('RotRounded_gen', trr.translate_rounded)
    ok_ip = ck.translate('RotInplace_gen', trp.translate_inplace)
    ok_im = ok_f and ok_d and ck.translate('RotMethods_gen', trp.translate_methods)
    ok_cp = ck.translate('RotCopies_gen', trp.translate_copies)
    ok_st = ck.translate('RotState_gen', trs.translate_state)
    ok_pv = ck.translate('RotPivot_gen', tri.translate_pivot)
    A = tr.analyse() if (ok_f and ok_d) else None
    built = False
    # 1. models and generated objects (definitions only: these compile whatever the source computes)
    models = ck.build(['Rot/RotGJ.vo', 'Rot/RotGJTotal.vo', 'Rot/RotGJFloat.vo', 'Rot/RotDispatch.vo', 'Rot/RotReify.vo', 'Rot/RotRound.vo',
                       'Rot/RotInplace.vo', 'Rot/RotMethods.vo', 'Rot/RotCopies.vo', 'Rot/RotState.vo']
                      + (['Gen/RotCopies_gen.vo'] if ok_cp else [])
                      + (['Gen/RotState_gen.vo'] if ok_st else [])
                      + (['Rot/RotPivot.vo', 'Gen/RotPivot_gen.vo'] if ok_pv else [])
                      + (['Gen/RotInplace_gen.vo'] if ok_ip else [])
                      + (['Gen/RotMethods_gen.vo'] if ok_im else [])
                      + (['Gen/RotFormulas_gen.vo', 'Gen/RotDispatch_gen.vo'] if A is not None else [])
                      + (['Gen/RotReified_gen.vo'] if ok_r else [])
                      + (['Gen/RotRounded_gen.vo'] if ok_rr else [])
                      + (['Gen/RotInverse_gen.vo'] if ok_i else []))
    # 2. instance obligations: the generated objects are accepted by the decidable tests of the generic theorems
    # One coqc run evaluates all of them, a second one closes the true ones by vm_compute; reflexivity (the groups whose
    # generated file is missing are left out, so they cannot take the others down).
    obs: dict[str, str] = {}
    imports: list[str] = []
    evals: list[tuple[str, str]] = []

    def group(imps: list[str], d: dict[str, str]) -> None:
        obs.update(d)
        imports.extend(i for i in imps if i not in imports)
    if A is not None and models:
        group(DISP_IMPORTS, {
            'dispatch_matmul_rows_ok': 'forallb (fun t => triple_ok t && handled t) (rows_of FMatmul dispatch_table)',
            'dispatch_imatmul_rows_ok': 'forallb (fun t => triple_ok t && handled t) (rows_of FImatmul dispatch_table)',
            # the in-place protocol: a mutable receiver is returned itself (holding the product), a frozen one never is
            'dispatch_inplace_on_mutable_receiver_stores_into_self': 'forallb inplace_ok (rows_mut true dispatch_table)',
            'dispatch_inplace_on_frozen_receiver_returns_new_object': 'forallb inplace_ok (rows_mut false dispatch_table)',
            'dispatch_reflected_rows_ok': 'forallb (fun t => triple_ok t && handled t) (rows_of FRmatmul dispatch_table)',
            'dispatch_table_complete': 'covered dispatch_table',
            'dispatch_table_ok': 'table_ok dispatch_table',
        })
        evals.append(('dispatch_rows_rejected', 'failing dispatch_table'))
        ck.extra['dispatch_table_rows'] = len(A['rows'])
        ck.extra['mat_mul_alias_safe'] = A['F']['mat_mul_alias_safe']
    if ok_ip and models:
        # the census of ALL in-place operator methods (also the exec()-template ones): a mutable class's in-place method returns
        # the receiver after storing into it on every path that returns a value; no frozen class has or inherits one
        group(INPLACE_IMPORTS, {
            'inplace_methods_return_the_receiver_after_storing_into_it': 'inplace_paths_return_self inplace_census',
            'inplace_methods_update_the_receiver_on_some_path': 'inplace_methods_store inplace_census',
            'inplace_methods_exist_on_mutable_classes_only': 'inplace_only_on_mutable inplace_census',
            'inplace_census_ok': 'census_ok inplace_census',
        })
        ck.extra['inplace_census'] = [f'{r["cls"]}.{r["name"]} ({r["origin"]}): ' + ', '.join(
            p['kind'] + (f'({p["stores"]})' if p['kind'] == 'PSelf' else '') + (f' [{p["why"]}]' if p['why'] else '') for p in r['paths'])
            for r in trp.analyse()['rows']]
    if ok_cp and models:
        # copy / __deepcopy__ / freeze / thaw / _new_copy of the matrix classes: `return self` only for a frozen receiver's copy,
        # otherwise a new object of the right class with the receiver's nine slots field for field (the translator fails closed
        # on anything else)
        group(COPIES_IMPORTS, {
            'matrix_copies_are_new_objects_of_the_right_class': 'forallb crow_ok copy_table',
            'matrix_copies_ok': 'copies_ok copy_table',
        })
    if ok_pv and models:
        # the SHAPE of the pivot searches of inverse(), read by a tolerant reader (also when the program translator fails closed):
        # an accepted shape selects a non-zero, largest entry whenever there is one (c04_pivot_search_finds_nonzero_pivot)
        group(PIVOT_IMPORTS, {
            'inverse_pivot_search_compares_with_gt': 'forallb pv_cmp_ok pivot_shapes_today',
            'inverse_pivot_search_starts_from_zero_or_from_an_absolute_value': 'forallb pv_seed_ok pivot_shapes_today',
            'inverse_pivot_search_missing_pivot_test_matches_its_start': 'forallb pv_miss_ok pivot_shapes_today',
            'inverse_pivot_search_selects_a_nonzero_entry_when_there_is_one': 'pv_shapes_ok pivot_shapes_today',
        })
        ck.extra['pivot_shapes'] = tri.translate_pivot()[1]['pivot_shapes']
    if ok_st and models:
        # census of process state (round 5): nothing that outlives a call is updated by a function, no caching decorator, no
        # mutable default, no global declaration, no reflective access, no foreign import -> every call of a history returns
        # what it returns alone (state_ok_history_independent)
        group(STATE_IMPORTS, {
            'state_no_function_reads_a_long_lived_object_that_a_function_updates': 'reads_not_written state_census_today',
            'state_no_long_lived_object_is_updated_by_a_function': 'no_long_lived_object_updated state_census_today',
            'state_no_class_or_function_attribute_is_stored_by_a_function': 'no_class_attribute_stored state_census_today',
            'state_no_caching_decorator': 'no_caching_decorator state_census_today',
            'state_no_mutable_parameter_default': 'no_mutable_default state_census_today',
            'state_no_global_declaration': 'no_global_declaration state_census_today',
            'state_no_reflective_access_inside_functions': 'no_reflective_access state_census_today',
            'state_no_import_from_outside_the_standard_library': 'no_foreign_import state_census_today',
            'state_census_ok': 'state_ok state_census_today',
        })
        S = trs.analyse()
        ck.extra['state_census'] = {k: S[k] for k in ('long_lived_module', 'long_lived_class', 'read_sites', 'writes', 'write_sites',
                                                      'class_writes', 'decorators', 'defaults', 'globals', 'reflective', 'imports',
                                                      'functions', 'template_functions', 'references')}
    if ok_im and models:
        # the in-place rotation METHODS, executed symbolically: the receiver ends up holding the pure operator form
        group(METHOD_IMPORTS, {
            'inplace_method_localise_is_rotate_then_translate': 'forallb mrow_ok (rows_of_meth MLocalise method_table)',
            'inplace_method_vec_transform_is_vec_matmul_rotation': 'forallb mrow_ok (rows_of_meth MVecTransform method_table)',
            'inplace_method_angle_transform_is_angle_matmul_rotation': 'forallb mrow_ok (rows_of_meth MAngTransform method_table)',
            'inplace_method_rotate_is_vec_matmul_angle': 'forallb mrow_ok (rows_of_meth MRotate method_table)',
            'inplace_methods_ok': 'methods_ok method_table',
        })
    if ok_r and models:
        group(REIFY_IMPORTS, {
            'to_angle_guard_operator_is_gt': 'guard_operator_ok ta_guard_cfg',
            'to_angle_guard_literal_is_0_001': 'guard_literal_ok ta_guard_cfg',
            'to_angle_guard_operand_is_horizontal_length': 'guard_operand_ok ta_guard_cfg',
            'to_angle_pitch_is_atan2_of_minus_forward_z_and_horizontal_length': 'pitch_ok ta_pitch_main_cfg',
            'to_angle_gimbal_pitch_is_atan2_of_minus_forward_z_and_horizontal_length': 'pitch_ok ta_pitch_lock_cfg',
            'mat_mul_alias_row_a': 'alias_row_ok 0 mat_mul_self_polys mat_mul_ss_polys',
            'mat_mul_alias_row_b': 'alias_row_ok 1 mat_mul_self_polys mat_mul_ss_polys',
            'mat_mul_alias_row_c': 'alias_row_ok 2 mat_mul_self_polys mat_mul_ss_polys',
            'mat_mul_alias_safe': 'polys_eqb mat_mul_self_polys mat_mul_ss_polys',
        })
    if ok_rr and models:
        # "up to rounding", quantified: the running error analysis (Rot/RotRound.v, sound for every tree and every rounding with
        # |rnd t - t| <= u|t| + eta, binary64 via Flocq) accepts today's trees of _vec_rot / _mat_mul with these bounds
        group(ROUND_IMPORTS, {
            'vec_rot_rounding_error_below_2e-15_for_unit_inputs':
                'errs_within (1000001 # 1000000) 1 (2 # 1000000000000000) vec_rot_fe',
            'vec_rot_rounding_error_below_2e-9_for_components_up_to_1e6':
                'errs_within (1000001 # 1000000) 1000000 (2 # 1000000000) vec_rot_fe',
            'mat_mul_rounding_error_below_2e-15_on_rotations': 'errs_within (1000001 # 1000000) 0 (2 # 1000000000000000) mat_mul_fe',
            'rounded_trees_are_float_computations': 'forallb (fun e => Nat.ltb 0 (fe_ops e)) (vec_rot_fe ++ mat_mul_fe)',
            # from_angle: the arithmetic alone (exact sin / cos values), and with libm's values within 5e-15 of the real sin / cos
            'from_angle_arithmetic_rounding_error_below_1e-15': 'errs_within_in 1 0 (1 # 1000000000000000) from_angle_fe',
            'from_angle_error_below_3e-14_given_sin_cos_within_5e-15':
                'errs_within_in 1 (5 # 1000000000000000) (3 # 100000000000000) from_angle_fe',
            # Matrix -> Angle -> Matrix in binary64 outside the gimbal band (c04_euler_roundtrip_binary64; d measured by
            # correspondence:euler-angle-inputs)
            'euler_roundtrip_error_below_2e-13_given_sin_cos_within_2e-14':
                'errs_within_in 1 (2 # 100000000000000) (2 # 10000000000000) from_angle_fe',
        })
    if ok_i and models:
        # gj_prog_ok: what inverse() returns when it returns; gj_total_ok (Rot/RotGJTotal.v, interval / determinant abstract
        # interpretation): it RETURNS on every rotation
        group(GJT_IMPORTS, {
            'inverse_left_block_is_self': 'init_l_ok inverse_prog',
            'inverse_right_block_starts_as_identity': 'init_r_ok inverse_prog',
            'inverse_result_is_right_block': 'out_ok inverse_prog',
            'inverse_indexes_in_range': 'ops_in_range inverse_prog',
            'inverse_left_block_becomes_identity': 'left_becomes_identity inverse_prog',
            'inverse_skip_guards_fire_only_for_a_zero_multiplier': 'skips_only_exact_zero inverse_prog',
            'inverse_prog_ok': 'gj_prog_ok inverse_prog',
            'inverse_pivot_searches_succeed_on_rotations': 'pivots_found inverse_prog',
            'inverse_divisors_nonzero_on_rotations': 'divisors_nonzero inverse_prog',
            'inverse_threshold_tests_pass_on_rotations': 'thresholds_passed inverse_prog',
            'inverse_total_on_rotations': 'gj_total_ok inverse_prog',
        })
        evals += [('inverse_left_block_final_pattern', 'abs_run (gp_ops inverse_prog) top3'),
                  ('inverse_final_intervals_on_rotations', 'total_trace inverse_prog'),
                  ('inverse_first_operation_not_shown_to_succeed', 'abs2_fail (gp_ops inverse_prog) rot_init')]
        ck.extra['inverse_program'] = [tri.coq_op(o) for o in tri.analyse()['P']['ops']]
    if obs:
        ck.instance_obligations(imports, obs, name='inst')
        vals = ck.coq_eval(imports, [e for _, e in evals], name='extras')
        if vals is not None:
            for (k, _), v in zip(evals, vals):
                v = ' '.join(v.split())
                if not (k == 'dispatch_rows_rejected' and v in ('[]', 'nil')):
                    ck.extra[k] = v
    # 3. the proofs about the generated formulas
    if A is not None and models:
        core = ck.build(['Rot/RotAlgebra.vo', 'Rot/RotAliasProofs.vo', 'Rot/RotEulerProofs.vo', 'Rot/RotDispatchProofs.vo',
                         'Rot/RotGJProofs.vo', 'Rot/RotGJTotalProofs.vo', 'Rot/RotGJExample.vo', 'Rot/RotMethodsProofs.vo'] + (['Rot/RotReifyProofs.vo'] if ok_r else [])
                        + (['Rot/RotRoundProofs.vo', 'Rot/RotRoundFlocq.vo', 'Rot/RotRoundTied.vo', 'Rot/RotRoundEuler.vo'] if ok_rr else []))
        built = core and ck.build(['Props/C04.vo'])
        if built:
            theorems_with_axioms(ck)
            if ok_i and ok_ip and ok_im and ok_st and ok_pv:
                # today's generated table / program / census meet the hypotheses of c04_property (one Example, kernel-checked)
                ck.build(['Props/C04Today.vo'])
    # 4. correspondences and 5. searches, each under `guarded` (exception / hang -> violation with the input in flight)
    found: dict[str, tuple[str, dict]] = {}
    if A is not None:
        guarded(ck, found, 'correspondence-formulas', corr_formulas, ck, A['F'])
        guarded(ck, found, 'correspondence-dispatch', corr_dispatch, ck, A['F'], A['rows'])
        guarded(ck, found, 'correspondence-angle-operand', corr_angle_operand, ck)
    if ok_i and models:
        guarded(ck, found, 'correspondence-inverse', corr_inverse, ck)
    if ok_ip:
        guarded(ck, found, 'correspondence-inplace-census', corr_inplace_census, ck)
    if ok_st:
        guarded(ck, found, 'correspondence-state-census', corr_state_census, ck)
    if ok_rr:
        guarded(ck, found, 'correspondence-rounding', corr_rounding, ck)
        guarded(ck, found, 'correspondence-euler-float', corr_euler_float, ck, found)
    guarded(ck, found, 'search-operands', search_operands, ck, found)
    guarded(ck, found, 'search-identities', search_identities, ck, found)
    guarded(ck, found, 'search-composed', search_composed, ck, found)
    guarded(ck, found, 'search-inplace', search_inplace, ck, found)
    guarded(ck, found, 'search-conversions', search_conversions, ck, found)
    guarded(ck, found, 'search-histories', search_histories, ck, found)
    hist_dep = history_dependent(found) if found else []
    ck.extra['history_dependent_violations'] = hist_dep
    for key, (what, rp) in sorted(found.items()):
        ck.violation(key, what, rp)
    keys = set(found)
    if hist_dep:
        # a concrete input that fails after the oracle's earlier calls and passes alone: state that outlives a call is really used
        ck.explain('instance:state_')
        ck.explain('translate:RotState_gen')
        ck.explain('correspondence:state-census')
    # A rejected dispatch row / failed proof is explained when the search exhibits the corresponding concrete failure.
    if any(k.startswith(('left-operand-mutated', 'right-operand-mutated', 'result-not-fresh', 'value-mismatch', 'unsupported',
                         'exception', 'result-kind', 'not-in-place')) for k in keys):
        ck.explain('instance:dispatch_')
    if any(k.startswith(TO_ANGLE_KEYS) for k in keys):
        ck.explain('instance:to_angle_')
    if 'euler-roundtrip-float' in keys:
        ck.explain('correspondence:euler-angle-inputs')
    # a stage that was cut short is explained by its own hang: / exception: violation (which carries the input in flight)
    for k in keys:
        if k.startswith(('hang:', 'exception:')) and k.split(':', 1)[1] in STAGES:
            ck.explain('stage-completed:' + k.split(':', 1)[1])
    if any(k.startswith('value-mismatch:Matrix:same-object') for k in keys):
        ck.explain('instance:mat_mul_alias_')
    if any(k.startswith(('not-in-place', 'inplace-')) for k in keys):
        ck.explain('instance:inplace_')
        ck.explain('translate:RotInplace_gen')
    if any(k.startswith('inplace-method-') for k in keys):
        ck.explain('translate:RotMethods_gen')
    if any(k.startswith('history:') for k in keys):
        # a call that answers differently after a history: the state the census rejected (or could not read) is really used
        ck.explain('instance:state_')
        ck.explain('translate:RotState_gen')
        ck.explain('correspondence:state-census')
    if any(k.startswith(('conversion:to_matrix', 'history:to_matrix', 'history-result-changed:to_matrix')) for k in keys):
        # Vec.localise goes through to_matrix(): a to_matrix the method executor cannot read AND a concrete wrong to_matrix result
        for o in ck.obligations:
            if not o['ok'] and o['name'] == 'translate:RotMethods_gen' and 'to_matrix' in o['detail']:
                o['explained'] = True
    if any(k.startswith('conversion:') for k in keys):
        ck.explain('translate:RotCopies_gen')
        ck.explain('instance:matrix_copies_')
    if any(k.startswith('inverse-') for k in keys):
        ck.explain('instance:inverse_')
        ck.explain('correspondence:inverse')
        # the translator could not read inverse() (fail closed) AND the search exhibits a concrete wrong inverse
        ck.explain('translate:RotInverse_gen')
        ck.explain('translate:RotPivot_gen')
    # a changed _vec_rot / _mat_mul tree changes its error bound too: explained by the concrete wrong value
    for fn, pref in (('_vec_rot', 'instance:vec_rot_rounding'), ('_mat_mul', 'instance:mat_mul_rounding'),
                     ('from_angle', 'instance:from_angle_')):
        if any(k.startswith(FUNCTION_EXPLAINED_BY[fn]) for k in keys):
            ck.explain(pref)
    explain_translate(ck, keys, found)
    if any(k.startswith('hang:') for k in keys):
        # a loop the translators refuse to read (fail closed) and a concrete input on which the implementation does not return
        ck.explain('translate:Rot')
    # Props/C04Today.v is the conjunction of five instance obligations: it fails with them and is explained with them
    if any(o['name'] in ('instance:dispatch_table_ok', 'instance:inverse_prog_ok', 'instance:inverse_total_on_rotations',
                         'instance:inplace_census_ok', 'instance:inplace_methods_ok', 'instance:state_census_ok',
                         'instance:inverse_pivot_search_selects_a_nonzero_entry_when_there_is_one') and not o['ok'] and o.get('explained') for o in ck.obligations):
        ck.explain('build:Props/C04Today.vo')
    explain_build(ck, keys)


TO_ANGLE_KEYS = ('euler-roundtrip', 'gimbal-bound', 'composed-roundtrip', 'assoc-vec-angle', 'value-mismatch:Angle',
                 'value-mismatch:FrozenAngle', 'exception:Angle', 'exception:FrozenAngle')
# A translator that failed closed names the function it could not read (`<function>: line N: ...`).  The failure is marked
# as explained only when the search exhibits a concrete failing input of an identity that goes through that function.
FUNCTION_EXPLAINED_BY = {
    '_to_angle': TO_ANGLE_KEYS,
    # the dispatch executor could not follow an operator method: explained by a concrete wrong outcome of some operator form
    'dispatch': ('value-mismatch', 'not-in-place', 'left-operand-mutated', 'right-operand-mutated', 'result-not-fresh',
                 'unsupported', 'exception:', 'result-kind', 'inplace-'),
    '_mat_mul': ('assoc-matrix', 'value-mismatch:Matrix', 'convention-own-factors'),
    '_vec_rot': ('assoc-vec-matrix', 'value-mismatch:Vec', 'value-mismatch:FrozenVec', 'value-mismatch:tuple'),
    'transpose': ('transpose-formula', 'inverse-vs-transpose'),
    'from_angle': ('from-angle-', 'convention-'), 'from_pitch': ('from_pitch-formula',), 'from_yaw': ('from_yaw-formula',),
    'from_roll': ('from_roll-formula',),
}


def explain_translate(ck: Ck, keys: set, found: dict | None = None) -> None:
    for o in ck.obligations:
        if o['ok'] or not o['name'].startswith('translate:Rot'):
            continue
        m = re.search(r'translator failed closed: ([A-Za-z_]+)[:>]', o['detail'])
        if m and m.group(1) in FUNCTION_EXPLAINED_BY and any(k.startswith(FUNCTION_EXPLAINED_BY[m.group(1)]) for k in keys):
            o['explained'] = True
        # the function the translator could not read raises / hangs on a concrete input (traceback names it)
        if m and found and any(f' raised in {m.group(1)} (' in w for k, (w, _r) in found.items()
                               if k.startswith('exception') or ':exception' in k or '-exception' in k):
            o['explained'] = True


# Which concrete violation (key prefix) exhibits the failure of which lemma.  A failed proof build is marked as explained
# only when the lemma that stopped the build is listed here AND the search produced a matching replayable input.
LEMMA_EXPLAINED_BY = {
    'from_angle_orthonormal': ('from-angle-not-orthonormal',), 'from_angle_det_one': ('from-angle-determinant',),
    'from_angle_obj_eq': ('value-mismatch',), 'from_axis_rotation': ('from_roll-formula', 'from_pitch-formula', 'from_yaw-formula'),
    # axis_fixed / handedness rotate the unit vectors with the generated vec_rot: a wrong _vec_rot breaks them too
    'from_angle_convention': ('convention-',),
    'axis_fixed': ('from_roll-formula', 'from_pitch-formula', 'from_yaw-formula', 'assoc-vec-matrix', 'value-mismatch:Vec'),
    'handedness': ('from_roll-formula', 'from_pitch-formula', 'from_yaw-formula', 'assoc-vec-matrix', 'value-mismatch:Vec'),
    'mat_mul_assoc': ('assoc-matrix',), 'vec_rot_assoc': ('assoc-vec-matrix',), 'mat_mul_I_l': ('assoc-matrix', 'value-mismatch:Matrix'),
    'mat_mul_I_r': ('assoc-matrix', 'value-mismatch:Matrix'), 'vec_rot_I': ('assoc-vec-matrix', 'value-mismatch:Vec'),
    'det_mul': ('assoc-matrix', 'value-mismatch:Matrix'), 'transpose_involutive': ('transpose-formula',),
    'det_transpose': ('transpose-formula',), 'orthonormal_transpose': ('transpose-formula',),
    'orthonormal_mul_transpose': ('transpose-formula', 'inverse-vs-transpose'), 'transpose_mul': ('transpose-formula',),
    'vec_rot_len': ('assoc-vec-matrix', 'value-mismatch:Vec'),
    'mat_mul_self_eq': ('value-mismatch:Matrix:same-object',),
    'ta_guard_horiz': ('euler-roundtrip', 'gimbal-bound'), 'euler_roundtrip': ('euler-roundtrip',),
    'gimbal_error_bound': ('gimbal-bound',),
    'rowrel_elim': ('assoc-vec-matrix', 'value-mismatch:Vec', 'inverse-'), 'rowrel_scale': ('assoc-vec-matrix', 'value-mismatch:Vec', 'inverse-'),
    'gauss_jordan_inverse': ('assoc-vec-matrix', 'assoc-matrix', 'value-mismatch:Matrix', 'inverse-'),
    'ta_guard_tied': ('euler-roundtrip', 'gimbal-bound'), 'mat_mul_self_tied': ('value-mismatch:Matrix:same-object',),
    'mat_mul_ss_tied': ('assoc-matrix', 'value-mismatch:Matrix'),
}


def explain_build(ck: Ck, keys: set) -> None:
    import re
    from harness.common import ROCQ
    for o in ck.obligations:
        if o['ok'] or not o['name'].startswith('build:'):
            continue
        m = re.search(r'build failed at ([A-Za-z0-9_/]+\.v):(\d+)', o['detail'])
        if not m:
            continue
        try:
            lines = (ROCQ / m.group(1)).read_text().splitlines()[:int(m.group(2))]
        except OSError:
            continue
        lemma = None
        for ln in reversed(lines):
            mm = re.match(r'\s*(?:Lemma|Theorem|Corollary)\s+([A-Za-z0-9_\']+)', ln)
            if mm:
                lemma = mm.group(1)
                break
        ck.extra['failed_lemma'] = f'{m.group(1)}:{m.group(2)} ({lemma})'
        if lemma in LEMMA_EXPLAINED_BY and any(k.startswith(LEMMA_EXPLAINED_BY[lemma]) for k in keys):
            o['explained'] = True


def euler_float_error(p: float, y: float, r: float) -> float:
    """Largest entry distance between Matrix.from_angle(Matrix.from_angle(p, y, r).to_angle()) and the exact rotation."""
    import decimal
    from srctools.math import Matrix
    with decimal.localcontext() as ctx:
        ctx.prec = 60
        (sp, cp), (sy, cy), (sr, cr) = hp_sin_cos(p), hp_sin_cos(y), hp_sin_cos(r)
        M = [cp * cy, cp * sy, -sp, sr * sp * cy - cr * sy, sr * sp * sy + cr * cy, sr * cp,
             cr * sp * cy + sr * sy, cr * sp * sy - sr * cy, cr * cp]
        back = snapshot(Matrix.from_angle(Matrix.from_angle(p, y, r).to_angle()))
        return max(abs(float(Decimal(b) - m)) for b, m in zip(back, M))


def replay(data: dict) -> int:
    """Re-run the input of a violation.  An exception or a call that does not return within 60 s is the failure itself."""
    import signal
    old = signal.signal(signal.SIGALRM, _on_alarm)
    signal.alarm(60)
    try:
        return _replay(data)
    except StageTimeout:
        print('the call into srctools.math did not return within 60 s')
        return 1
    except Exception as e:      # noqa: BLE001
        import traceback
        traceback.print_exc()
        print(f'problem   : unexpected {type(e).__name__}: {e}')
        return 1
    finally:
        signal.alarm(0)
        signal.signal(signal.SIGALRM, old)


def _replay(data: dict) -> int:
    r = data['replay']
    if r.get('kind') == 'inverse':
        out = run_inverse(list(r['matrix']))
        print('inverse() of', r['matrix'], '->', out)
        return 1 if out[0].startswith('other') else 0
    if r.get('kind') == 'euler-float':
        e = euler_float_error(*r['angle'])
        print('Matrix.from_angle(M.to_angle()) vs the exact rotation for angle', r['angle'], ': error', e)
        return 1 if e > 2e-13 else 0
    if r.get('kind') == 'conversion':
        probs = conversion_problems({k: tuple(v) for k, v in r['vals'].items()})
        print('conversions of', r['vals'])
        print('problems  :', probs or 'none')
        return 1 if probs else 0
    if r.get('kind') == 'history':
        steps = r['steps']
        res = run_history(steps)
        for i, (st, out) in enumerate(zip(steps, res)):
            if st[0] in ('call', 'call!'):
                alone = call_alone(st)
                print(f'  step {i}: {st[1]}{tuple(st[2])!r} -> {hshow(out)}' + ('' if out == alone else f'   BUT alone in a new process: {hshow(alone)}'))
            else:
                print(f'  step {i}: the caller modifies the object returned by step {st[1]}')
        changed: list = []
        run_history(steps, changed)
        for c in changed:
            print(f'  the object returned by step {c[0]} was {hshow(c[2])} and became {hshow(c[3])} when step {c[1]} ran')
        pr = history_problem(steps)
        print('problem   :', pr[2] if pr else 'none')
        return 1 if pr else 0
    if r.get('kind') == 'stage':
        print('no single input was in flight; re-run the check to reproduce:', r)
        return 1
    if r.get('kind') == 'triple':
        vl = {k: tuple(v) for k, v in r['left'].items()}
        vr = {k: tuple(v) for k, v in r['right'].items()}
        ob = observe(r['form'], r['l'], r['r'], r['alias'], vl, vr)
        print('operation :', r['form'], r['l'], r['r'], '(same object)' if r['alias'] else '')
        for k, v in ob.items():
            print(f'  {k:5}: {v}')
        probs = check_triple(r['form'], r['l'], r['r'], r['alias'], vl, vr)
        print('problems  :', probs or 'none')
        return 1 if probs else 0
    if r.get('kind') == 'composed':
        pr = composed_problem(tuple(r['a']), tuple(r['b']), r['form'])
        print('from_angle', r['a'], '@ from_angle', r['b'], 'form', r['form'])
        print('problem   :', pr or 'none')
        return 1 if pr else 0
    if r.get('kind') == 'inplace-op':
        probs = inplace_op_problems(r['iname'], r['pname'], r['l'], r['r'], {k: (tuple(v) if isinstance(v, list) else v) for k, v in r['left'].items()},
                                    {k: (tuple(v) if isinstance(v, list) else v) for k, v in r['right'].items()})
        print('in-place operator', r['iname'], 'on', r['l'], 'and', r['r'], r['left'], r['right'])
        print('problems  :', probs or 'none')
        return 1 if probs else 0
    if r.get('kind') == 'inplace-method':
        probs = inplace_method_problems(r['name'], r['r'], {k: (tuple(v) if isinstance(v, list) else v) for k, v in r['left'].items()},
                                        {k: (tuple(v) if isinstance(v, list) else v) for k, v in r['right'].items()})
        print('in-place method', r['name'], 'with a', r['r'], r['left'], r['right'])
        print('problems  :', probs or 'none')
        return 1 if probs else 0
    if r.get('kind') == 'identity':
        probs = ident_problems(*r['angle'], tuple(r['vector']), tuple(r['second_angle']))
        print('angle', r['angle'], 'vector', r['vector'], 'second angle', r['second_angle'])
        print('problems  :', probs or 'none')
        return 1 if probs else 0
    print(r)
    return 0
