"""C19 — all filesystem backends resolve names alike; chains honour priority."""
from __future__ import annotations

import contextlib
import itertools
import os
import random
import shutil
import signal
import sys
import tempfile
import threading
import time
import zipfile

from harness.common import Ck, coq_list, coq_str, coq_bytes, parse_coq_N_list
from translate import c19_walk, c19_state

MANIFEST = dict(
    technique='Rocq proof (backends as translated operation lists refining one folded-name map for every query string; walk_folder exactness for the sound folder forms; RawFileSystem lookup/walk from its translated operations; chain first-match / priority / prefix / de-duplication laws; every public lookup form of a chain - [], in, _get_file, _file_exists, open_bin, open_str, the bytes read, walk_folder, iter - equal to one specification function for members of any backend kind; the VPK content expression and the container reader FileInfo.read() as translated expressions that return the stored bytes in every placement) + fail-closed ast translator working on a canonical form of filesys.py / vpk.py (semantic normalisation, 15 rewrite rules, the rewritten module is executed and compared with the real one on every run) ; round 4: the property as one statement (c19_property: source_ok cfg -> property_holds cfg, instantiated at the generated configuration on every run), add_sys over whole histories of calls with its early-return guard translated, the names RawFileSystem.walk_folder lists as a translated shape, the walk of chains with directory members from a member interface, subfolder prefixes and folder arguments in any spelling without "..") + instance obligations and two groups of instance theorems at the generated configuration + vm_compute correspondence over the four real backends and chains + differential oracle (every call into the implementation under an alarm: a hang or an unexpected exception is a violation with its input); round 5: a census of stores (translate/c19_state.py: every store a walk / lookup method of filesys.py or the reading side of vpk.py makes into self, a class, a module-level object or a mutable default, and where it stands relative to the yields of a generator - produced and judged also when the shape translator fails closed) with a model of walk generators consumed completely or given up after k items and of chain lookups between edits of `systems` (SM/FsState.v), c19_property_over_histories, and history oracles (abandoned / interleaved / failing walks followed by complete walks on every backend and on chains, failed lookups repeated, direct edits of chain.systems after lookups)',
    text='Theorems in Props/C19.v, generic over a backend record of normalisation operations regenerated from filesys.py on every run. '
         'Lookup: backends whose query functions convert the slashes, normalise the path and fold the case (today\'s source, obligation *_keys_normalise_every_spelling) agree with each other and with the specification map (folded name -> last stored file) on _get_file, _file_exists and open_bin for EVERY query string; empty and "." segments, either slash and letter case are proved insignificant (c19_normpath_noise, c19_lookup_noise_insensitive); any other recognised form agrees on queries normpath leaves alone (c19_lookup_agree); the pinned forms are refuted on "./x" and ".\\x". '
         'Bytes: what VPKFileSystem.open_bin/open_str read is a translated expression over the FileInfo, and FileInfo.read() itself is translated from vpk.py with the slice displacements found in the source; expressions recognised as whole return the stored bytes for every split between preload and rest, for the directory tail, a numbered archive and a single-file VPK, wherever the rest lies (c19_vpk_content_whole_all_placements, c19_vpk_open_same_bytes, c19_vpk_reader_whole_all_placements, c19_vpk_open_through_reader); the preload shortcut and the one-byte-short slice are refuted. '
         'RawFileSystem, from the operations that reach _resolve_path: an exact-case name in any spelling and either slash finds the stored file in the directory backend and in every folding backend; its walk lists exactly the files below the normalised folder and every listed name looks up. '
         'walk_folder with a sound form (dictionary source, folded key compared with a folder-boundary prefix) lists exactly the surviving files inside the folder (empty folder = all), every listed name looks up to that file, no name twice; string-prefix, root-is-dot, case-sensitive, container-prefilter (VPK.fileinfos) and container-iteration forms are refuted by kernel-computed witnesses. '
         'FileSystemChain: c19_chain_every_form_spec - for every query string and every list of members of whatever backend kind (no premise on the prefixes) chain[q] / _get_file(q), the resolution of open_bin / open_str(q), q in chain / _file_exists(q) in every recognised sound shape and the bytes read from the handle are the specification function chain_spec (first member, in priority order, whose files contain subfolder/name up to case, slash kind and redundant segments); hence the backend kind of a member is unobservable through a chain (c19_chain_backend_kind_unobservable); chains that also contain directory backends answer like chain_spec on queries that are exact for those members (c19_chain_with_directory_members_spec, premise shown necessary); a _file_exists loop that re-assigns the joined name is refuted (c19_chain_exists_carried_name_refuted). Priority insertion first / plain insertion last (both add_sys branches translated); the de-duplicated walk lists each folded name once keeping the first member\'s entry, the dict-overwrite shape is refuted. '
         'Composition (c19_chain_walk_lookup_closed, c19_chain_walk_complete, c19_chain_walk_every_entry_spec, c19_chain_walk_lists_spec, c19_chain_iter_lists_spec): for members with empty or clean prefixes and an empty or clean folder, every (path, File) the de-duplicated walk lists is the specification\'s answer for path (it looks up in every form and reads the listed bytes), and every clean name the specification serves inside the folder is listed with that File; iter(chain) lists every clean name served. All of these are re-instantiated at the generated configuration on every run. '
         'Round 4 - c19_property: for every configuration (three backend records, VPK content expressions and reader, the directory backend\'s operations and listed-name shape, add_sys guard and branch actions, _file_exists mode, de-duplication mode / key / relative-name mode) that passes the named recognisers, the three sentences of the property hold (backends_agree, walks_exact, chains_honour_priority); today\'s generated configuration passes (obligation property_hypotheses_hold_for_the_generated_configuration, instance theorem today_c19_property). add_sys: c19_chain_history_order / _mounts_all / _spec - after ANY sequence of add_sys calls (method always inserts, first for priority, last otherwise) the chain is the priority members latest first then the others in order, and every lookup form is the specification over that order; a guard `if (sys, prefix) in self.systems: return` is translated (chain_add_guard) and refuted (second archive under the same label dropped, priority re-add ignored). RawFileSystem.walk_folder: how the listed name is computed is translated (raw_walk_relmode); relpath of the joined file name lists stored names (c19_raw_walk_lists_stored_names), relpath of the directory joined with the file name lists root files as "./x" (refuted, also inside a chain). Walk of chains: c19_chain_walk_from_member_interface proves the composition from what the chain needs from a member (lists_sound / lists_complete); folding backends and the directory backend (on folders exact for it - premise shown necessary) satisfy it, so c19_chain_walk_with_directory_members covers chains that contain RawFileSystem; c19_chain_walk_any_spelling / _any_member / _any_member_any_spelling extend it to prefixes and folders spelt with redundant separators and "." segments in either slash, for folding and directory members (spells; c19_spellings_one_normal_form). c19_case_duplicate_winner_needs_order: no reader of a container that is the same for both insertion orders serves "the file stored last" - why the known finding cannot be repaired inside VPKFileSystem. '
         'The generated model is compared with the real Virtual/Zip/VPK/Raw backends (lookups in all spellings incl. open_str, VPKs written in 7 data placements, walks of normalised and un-normalised folders) and with chains ([], in, open_bin, open_str, walk_folder, walk_folder_repeat); a reference oracle written from the property checks every public form on the four real backends and on chains of up to 4 members in all orderings, file contents for 5 VPK placement classes with sizes around the preload limits (1024, 65535), plus non-ASCII case folding for the in-memory and zip backends.'
         ' Round 5 - programs instead of single calls: the census of stores is a generated object (one fs_census per class: stores of the walk methods, stores of the lookup methods; helpers of filesys.py; the reading side of vpk.py) and every group must be empty (obligations <class>_walks_keep_no_state / _lookups_keep_no_state, filesys_helpers_keep_no_state, vpk_reader_keeps_no_state). c19_walk_history_irrelevant: for code that stores nothing (or stores a folder listing only after its scan has finished), after ANY history of walks - complete, or given up after any number of items by break / any() / next(iter(fs)) / an exception / close() - a complete walk lists the complete listing, and every walk hands its consumer a prefix of it; the memo registered before the scan and filled while yielding (seeded fault c19_7) is refuted (c19_walk_memo_while_yielding_refuted), and a store with a yield still to come puts code into that class (c19_census_decides_discipline). c19_chain_lookup_history: lookups that store nothing answer chain_get over the members mounted after any history of lookups, add_sys calls and direct edits of the public list systems; remembered member positions (c19_8) are refuted for systems.pop(0) and shown to need the direct edit (c19_chain_position_memo_refuted, _add_sys_resets). c19_property_over_histories: source_ok cfg -> state_ok census -> the three sentences for every call and histories_irrelevant; instantiated at both generated objects on every run.',
    note='Trusted: Coq kernel + vm_compute, translate/c19_walk.py (its canonicalisation rewrites are meant to be equivalences of Python programs; on every run the rewritten filesys.py is compiled, executed and compared with the real classes on every lookup form, walks and chains - obligations translate:canonical-form-runs / -is-equivalent), zipfile, the VPK writer of vpk.py (where the bytes are put; the reader is translated; VPK.fileinfos only through a shape check), which numbered archive file is opened (C13), the OS directory semantics (RawFileSystem: exact names via os.path.isfile/open/os.walk after abspath; RootEscapeError belongs to C18). Model restrictions: ASCII case folding only in the model (non-ASCII casefold is searched on the in-memory and zip backends; VPK names are ASCII); stored names are clean relative "/" paths; ".." segments are modelled (full posixpath.normpath) and compared by correspondence but the general noise theorem covers only empty and "." segments; the walk/composition theorems cover prefixes and folders in any spelling of an empty or clean path without ".." (redundant separators, "." segments, either slash; ".." in a prefix or folder: correspondence and oracle), directory members need a cleanly spelt folder that is exact for them - the chain lookup theorem has no premise on prefixes; absolute paths are outside the statement; reading a slice of the wrong home is modelled as returning nothing (such readers are never recognised as whole). Which of two stored names differing only in case wins depends on container order (c19_lookup_order_matters_for_case_duplicates); VPK regroups files, see known finding case-duplicate-winner-vpk-differs. Round 5: the census is syntactic - it trusts that Python locals and generator frames die with the call, that the functions of os / zipfile / io the methods call keep no state of their own that matters (zipfile.ZipFile.open shares a file position under its own lock), and that callers do not mutate the ZipInfo / FileInfo objects handed out; aliases are followed through assignments, loops, with, get/setdefault/pop/values/items, not through calls of other functions; the reading of the census as a walk discipline (SM/FsState.v) models sequential histories (each generator dropped before the next walk starts; interleaved walks are searched); a listing stored after the scan has finished is proved harmless but alarms (the census cannot check what is stored). Observations (not violations): RawFileSystem.open_bin of a directory raises IsADirectoryError where the others raise FileNotFoundError; File.path of a lookup differs per backend.',
)

IMPORTS = ['Coq.Lists.List', 'Coq.NArith.NArith', 'Coq.Bool.Bool', 'SV.SM.FsChain', 'SV.SM.FsChainForms', 'SV.SM.FsChainRead', 'SV.SM.FsChainAdd', 'SV.SM.FsChainNoise', 'SV.SM.FsChainProperty', 'SV.Gen.FsWalk_gen']
PRE = '''Import ListNotations. Open Scope N_scope.
Fixpoint l1_eqb (a b : list N) : bool := match a, b with [], [] => true | x :: a', y :: b' => (x =? y) && l1_eqb a' b' | _, _ => false end.
Fixpoint l2_eqb (a b : list (list N)) : bool := match a, b with [], [] => true | x :: a', y :: b' => l1_eqb x y && l2_eqb a' b' | _, _ => false end.
Fixpoint l3_eqb (a b : list (list (list N))) : bool := match a, b with [], [] => true | x :: a', y :: b' => l2_eqb x y && l3_eqb a' b' | _, _ => false end.
Fixpoint bad_idx {A} (f : A -> bool) (n : N) (l : list A) : list N := match l with [] => [] | x :: r => (if f x then [] else [n]) ++ bad_idx f (n + 1) r end.
Definition code (o : option file) : list N := match o with Some (_, b) => 1 :: b | None => [0] end.
Definition vcode (lim : N) (d : bool) (c : cexpr) (o : option file) : list N :=
  match o with Some (_, b) => 1 :: ceval_r vpk_reader c (rfile_of [] [] (N.to_nat lim) d b) | None => [0] end.
Definition obs (k : N) (lim : N) (d : bool) (b : backend) (fs : list file) (qs folders : list str) : list (list (list N)) :=
  let cb := fun o => if k =? 2 then vcode lim d vpk_open_bin_content o else code o in
  let cs := fun o => if k =? 2 then vcode lim d vpk_open_str_content o else code o in
  [map (fun q => cb (lookup b fs q)) qs; map (fun q => if exists_ b fs q then [1] else [0]) qs; map (fun q => cb (open_ b fs q)) qs;
   map (fun q => cs (open_ b fs q)) qs]
  ++ map (fun f => map fst (walk b fs f)) folders.
Definition cfg_of (k : N) : backend := match k with 0 => virtual_cfg | 1 => zip_cfg | _ => vpk_cfg end.
Definition raw_obs (fs : list file) (qs folders : list str) : list (list (list N)) :=
  [map (fun q => code (raw_lookup_ops raw_get_ops fs q)) qs;
   map (fun q => match raw_lookup_ops raw_exists_ops fs q with Some _ => [1] | None => [0] end) qs;
   map (fun q => code (raw_lookup_ops raw_open_ops fs q)) qs;
   map (fun q => code (raw_lookup_ops raw_open_ops fs q)) qs]
  ++ map (fun f => map fst (raw_walk_rel raw_walk_relmode raw_walk_ops fs f)) folders.
(* add_sys over the history of calls, as translated: both branch actions and the guard (a membership test compares the
   file systems - same object or same kind and path, i.e. here same kind and same file set - and the prefix strings) *)
Fixpoint fs_eqb (a b : list file) : bool := match a, b with [], [] => true | x :: a', y :: b' => l1_eqb (fst x) (fst y) && l1_eqb (snd x) (snd y) && fs_eqb a' b' | _, _ => false end.
Definition same_desc (a b : N * list file * str) : bool := (fst (fst a) =? fst (fst b)) && fs_eqb (snd (fst a)) (snd (fst b)) && l1_eqb (snd a) (snd b).
Definition mk_descs (ms : list ((N * list file * str) * bool)) : list (N * list file * str) :=
  build_chain chain_add_guard same_desc chain_prio_action chain_plain_action (map (fun x => (snd x, fst x)) ms).
Definition mk_chain (ms : list ((N * list file * str) * bool)) : list member :=
  map (fun d : N * list file * str => member_of (cfg_of (fst (fst d))) (snd (fst d)) (snd d)) (mk_descs ms).
Definition ordered (ms : list member) (fwd : bool) := if fwd then ms else rev ms.
Definition mk_xchain (ms : list ((N * list file * str) * bool)) : list xmember :=
  map (fun d : N * list file * str => xmember_of (cfg_of (fst (fst d))) (snd (fst d)) (snd d)) (mk_descs ms).
Definition chain_obs (ms : list ((N * list file * str) * bool)) (qs folders : list str) : list (list (list N)) :=
  let c := mk_chain ms in
  let xc := mk_xchain ms in
  [map (fun q => code (chain_get (ordered c chain_get_forward) q)) qs;
   map (fun q => if chain_exists chain_exists_mode (if chain_get_forward then xc else rev xc) q then [1] else [0]) qs;
   map (fun q => code (chain_open (ordered c chain_get_forward) q)) qs]
  ++ map (fun f => flat_map (fun x => [fst x; snd (snd x)]) (chain_walk_mode chain_dedup_mode chain_relmode chain_dedup_ops (ordered c chain_walk_forward) f)) folders
  ++ map (fun f => flat_map (fun x => [fst x; snd (snd x)]) (chain_walk_repeat chain_relmode (ordered c chain_walk_forward) f)) folders.
'''

TODAY_CFG = ('{| s_backends := cons virtual_cfg (cons zip_cfg (cons vpk_cfg nil)); '
             's_contents := cons vpk_open_bin_content (cons vpk_open_str_content nil); s_reader := vpk_reader; '
             's_raw_get := raw_get_ops; s_raw_exists := raw_exists_ops; s_raw_open := raw_open_ops; s_raw_walk := raw_walk_ops; '
             's_raw_rel := raw_walk_relmode; s_guard := chain_add_guard; s_prio := chain_prio_action; s_plain := chain_plain_action; '
             's_exists := chain_exists_mode; s_dedup := chain_dedup_mode; s_rel := chain_relmode; s_dedup_ops := chain_dedup_ops |}')

INSTANCE_THEOREM = '''Import ListNotations.
Definition gen_member (m : member) : Prop :=
  exists b fs p, In b [virtual_cfg; zip_cfg; vpk_cfg] /\\ m = member_of b fs p /\\ clean_fs fs = true /\\ okp p.
Theorem today_chain_walk_lookup_closed : forall ms folder x,
  Forall gen_member ms -> okp folder ->
  In x (chain_walk_mode chain_dedup_mode chain_relmode chain_dedup_ops ms folder) ->
  chain_get ms (fst x) = Some (snd x).
Proof.
  intros ms folder x Hms Hf Hin.
  apply (c19_chain_walk_lookup_closed chain_dedup_ops ms folder x); [vm_compute; reflexivity| |exact Hf|exact Hin].
  eapply Forall_impl; [|exact Hms]. intros m [b [fs [p [Hb [-> [Hc Hp]]]]]]. exists b, fs, p.
  split; [reflexivity|]. destruct Hb as [<-|[<-|[<-|[]]]]; (split; [vm_compute; reflexivity|]); (split; [vm_compute; reflexivity|]); split; assumption.
Qed.
Print Assumptions today_chain_walk_lookup_closed.
(* ... and every entry today's walk_folder / iter lists is the specification's answer for the listed name (chain_spec is
   written from the property text; that every lookup form equals it is the other instance theorem) *)
Definition gen_kmember0 (m : kmember) : Prop :=
  In (k_b m) [virtual_cfg; zip_cfg; vpk_cfg] /\\ clean_fs (k_fs m) = true /\\ okp (k_p m) /\\ k_store m = None.
Theorem today_chain_walk_every_entry_spec : forall ms folder x,
  Forall gen_kmember0 ms -> okp folder ->
  In x (chain_walk_mode chain_dedup_mode chain_relmode chain_dedup_ops (map k_member ms) folder) ->
  chain_spec (map k_spec ms) (fst x) = Some (snd x).
Proof.
  intros ms folder x Hms Hf Hin.
  destruct (c19_chain_walk_every_entry_spec ExViaGet chain_dedup_ops ms folder x) as [A _];
    [reflexivity|vm_compute; reflexivity| |exact Hf|exact Hin|exact A].
  eapply Forall_impl; [|exact Hms]. intros m [Hb [Hfs [Hp Hs]]].
  split; [split; [|split; [exact Hfs|rewrite Hs; exact I]]|split; [|exact Hp]];
    destruct Hb as [<-|[<-|[<-|[]]]]; vm_compute; reflexivity.
Qed.
Print Assumptions today_chain_walk_every_entry_spec.
(* ... also when some members are today's RawFileSystem (what it lists: raw_walk_relmode; what reaches _resolve_path:
   raw_get_ops / raw_walk_ops - the same operations, checked here), on folders that are exact for those members *)
Definition gen_gmember (folder : str) (m : member) : Prop :=
  gen_member m \\/
  exists fs p, m = raw_member_of raw_walk_relmode raw_walk_ops fs p /\\ clean_fs fs = true
               /\\ NoDup (map (fun e => nkey (fst e)) fs) /\\ okp p /\\ folder_exact fs p folder.
Theorem today_chain_walk_with_directory_members : forall ms folder x,
  raw_get_ops = raw_walk_ops ->
  Forall (gen_gmember folder) ms -> okp folder ->
  In x (chain_walk_mode chain_dedup_mode chain_relmode chain_dedup_ops ms folder) ->
  chain_get ms (fst x) = Some (snd x).
Proof.
  intros ms folder x _ Hms Hf Hin.
  apply (c19_chain_walk_with_directory_members chain_dedup_ops ms folder x); [vm_compute; reflexivity|exact Hf| |exact Hin].
  eapply Forall_impl; [|exact Hms]. intros m [[b [fs [p [Hb [-> [Hc Hp]]]]]]|[fs [p [-> [Hc [Hn [Hp Hx]]]]]]].
  - left. exists b, fs, p. split; [reflexivity|].
    destruct Hb as [<-|[<-|[<-|[]]]]; (split; [vm_compute; reflexivity|]); (split; [vm_compute; reflexivity|]); split; assumption.
  - right. exists raw_walk_relmode, raw_walk_ops, fs, p. split; [reflexivity|].
    split; [vm_compute; reflexivity|]. split; [vm_compute; reflexivity|]. repeat split; assumption.
Qed.
Print Assumptions today_chain_walk_with_directory_members.
Example today_raw_get_and_walk_ops_agree : raw_get_ops = raw_walk_ops. Proof. vm_compute. reflexivity. Qed.
(* ... and for members mounted under any spelling of a clean subfolder ("d/", "./d", "d/.", backslashes), walked with any
   spelling of a clean folder *)
Definition gen_noisy (f f0 : str) (m : member) : Prop :=
  exists b fs p p0, In b [virtual_cfg; zip_cfg; vpk_cfg] /\\ m = member_of b fs p /\\ clean_fs fs = true
                    /\\ okp p0 /\\ spells p p0 /\\ okp f0 /\\ spells f f0.
Theorem today_chain_walk_any_spelling : forall ms f f0 x,
  Forall (gen_noisy f f0) ms ->
  In x (chain_walk_mode chain_dedup_mode chain_relmode chain_dedup_ops ms f) ->
  chain_get ms (fst x) = Some (snd x).
Proof.
  intros ms f f0 x Hms Hin.
  apply (c19_chain_walk_any_spelling chain_dedup_ops ms f f0 x); [vm_compute; reflexivity| |exact Hin].
  eapply Forall_impl; [|exact Hms]. intros m [b [fs [p [p0 [Hb [-> [Hc [Hp0 [Hsp [Hf0 Hsf]]]]]]]]]].
  exists b, fs, p, p0. split; [reflexivity|].
  destruct Hb as [<-|[<-|[<-|[]]]]; (split; [vm_compute; reflexivity|]); (split; [vm_compute; reflexivity|]);
    (split; [vm_compute; reflexivity|]); (split; [exact Hc|]); (split; [exact Hp0|]); (split; [exact Hsp|]); (split; [exact Hf0|exact Hsf]).
Qed.
Print Assumptions today_chain_walk_any_spelling.
'''

STATE_IMPORTS = ['Coq.Lists.List', 'Coq.Bool.Bool', 'SV.SM.FsChain', 'SV.SM.FsState', 'SV.Gen.FsState_gen']
TODAY_CENSUS = ('{| sc_chain := chain_census; sc_virtual := virtual_census; sc_raw := raw_census; sc_zip := zip_census; '
                'sc_vpk := vpk_census; sc_helpers := helpers_census; sc_vpk_reader := vpk_reader_census |}')
STATE_SHORTS = ('chain', 'virtual', 'raw', 'zip', 'vpk')
# needs only Gen/FsState_gen.v: it is checked also when the shape translator (FsWalk_gen) fails closed
INSTANCE_THEOREM_STATE = '''Import ListNotations.
Definition today_census : state_census := TODAY_CENSUS.
(* on today's source histories of walks (complete or given up), lookups, add_sys calls and edits of `systems` do not
   change what a call answers *)
Theorem today_histories_irrelevant : histories_irrelevant today_census.
Proof. apply c19_property_over_histories with (s := witness_cfg); [exact (proj1 c19_property_over_histories_hypotheses_satisfiable)|vm_compute; reflexivity]. Qed.
Print Assumptions today_histories_irrelevant.
Theorem today_vpk_walk_history : forall b fs h folder,
  walk_after file (walk b fs) (fun s => s) (discipline_of (cs_walk vpk_census)) h folder = walk b fs folder.
Proof. intros. apply c19_backend_walk_history. vm_compute. reflexivity. Qed.
Theorem today_chain_lookup_history : forall ms h q,
  chain_lookup_after (lookup_discipline_of (cs_lookup chain_census)) ms h q = chain_get (members_after ms h) q.
Proof. intros. apply c19_chain_lookup_history. vm_compute. reflexivity. Qed.
'''.replace('TODAY_CENSUS', TODAY_CENSUS)

INSTANCE_THEOREM_FORMS = '''Import ListNotations.
Definition gen_xmember (m : xmember) : Prop :=
  exists b fs p, In b [virtual_cfg; zip_cfg; vpk_cfg] /\\ m = xmember_of b fs p /\\ clean_fs fs = true.
(* `name in chain` answers exactly when chain[name] finds a file, for every chain over today's backends *)
Theorem today_chain_exists_agrees : forall ms q,
  Forall gen_xmember ms ->
  chain_exists chain_exists_mode ms q = is_some (chain_get (map x_base ms) q).
Proof.
  intros ms q Hms.
  apply (c19_chain_exists_agrees_backends chain_exists_mode ms q); [vm_compute; reflexivity|].
  eapply Forall_impl; [|exact Hms]. intros m [b [fs [p [Hb [-> Hc]]]]]. exists b, fs, p.
  split; [reflexivity|]. split; [|exact Hc]. destruct Hb as [<-|[<-|[<-|[]]]]; vm_compute; reflexivity.
Qed.
Print Assumptions today_chain_exists_agrees.
(* the VPK backend returns the bytes the in-memory and zip backends return, wherever the VPK keeps them *)
Theorem today_vpk_same_bytes : forall limit in_dir b2 fs q,
  In b2 [virtual_cfg; zip_cfg] -> clean_fs fs = true ->
  open_bytes vpk_open_bin_content limit in_dir vpk_cfg fs q = option_map snd (open_ b2 fs q)
  /\\ open_bytes vpk_open_str_content limit in_dir vpk_cfg fs q = option_map snd (open_ b2 fs q)
  /\\ open_bytes vpk_open_bin_content limit in_dir vpk_cfg fs q = option_map snd (lookup b2 fs q).
Proof.
  intros limit in_dir b2 fs q Hb Hc.
  assert (H2 : backend_keys_norm b2 = true) by (destruct Hb as [<-|[<-|[]]]; vm_compute; reflexivity).
  destruct (c19_vpk_open_same_bytes vpk_open_bin_content limit in_dir vpk_cfg b2 fs q) as [E1 E2];
    [vm_compute; reflexivity|vm_compute; reflexivity|exact H2|exact Hc|].
  destruct (c19_vpk_open_same_bytes vpk_open_str_content limit in_dir vpk_cfg b2 fs q) as [E3 _];
    [vm_compute; reflexivity|vm_compute; reflexivity|exact H2|exact Hc|].
  repeat split; assumption.
Qed.
Print Assumptions today_vpk_same_bytes.
(* the chain sentence of the property at today's source: every lookup form of a chain over today's backends - VPK
   members read through today's open_bin / open_str expression, bytes kept in any placement - is the specification *)
Definition gen_kmember (c : cexpr) (m : kmember) : Prop :=
  In (k_b m) [virtual_cfg; zip_cfg; vpk_cfg] /\\ clean_fs (k_fs m) = true /\\
  (k_store m = None \\/ exists limit in_dir, k_b m = vpk_cfg /\\ k_store m = Some (c, limit, in_dir)).
Theorem today_chain_every_form_spec : forall c ms q,
  In c [vpk_open_bin_content; vpk_open_str_content] -> Forall (gen_kmember c) ms ->
  chain_get (map k_member ms) q = chain_spec (map k_spec ms) q
  /\\ chain_open (map k_member ms) q = chain_spec (map k_spec ms) q
  /\\ chain_exists chain_exists_mode (map k_xmember ms) q = is_some (chain_spec (map k_spec ms) q)
  /\\ chain_read ms q = option_map snd (chain_spec (map k_spec ms) q).
Proof.
  intros c ms q Hc Hms. apply c19_chain_every_form_spec; [vm_compute; reflexivity|].
  eapply Forall_impl; [|exact Hms]. intros m [Hb [Hf Hs]]. split; [|split; [exact Hf|]].
  - destruct Hb as [<-|[<-|[<-|[]]]]; vm_compute; reflexivity.
  - destruct Hs as [->|[limit [in_dir [_ ->]]]]; [exact I|].
    destruct Hc as [<-|[<-|[]]]; vm_compute; reflexivity.
Qed.
Print Assumptions today_chain_every_form_spec.
(* today's FileInfo.read() and today's open_bin / open_str over it hand out the stored bytes wherever the VPK keeps them *)
Theorem today_vpk_reader_whole : forall c before after limit in_dir data,
  In c [vpk_open_bin_content; vpk_open_str_content] ->
  reval vpk_reader (rfile_of before after limit in_dir data) = data
  /\\ ceval_r vpk_reader c (rfile_of before after limit in_dir data) = data.
Proof.
  intros c before after limit in_dir data Hc. split.
  - apply c19_vpk_reader_whole_all_placements. vm_compute. reflexivity.
  - apply c19_vpk_open_through_reader; [vm_compute; reflexivity|]. destruct Hc as [<-|[<-|[]]]; vm_compute; reflexivity.
Qed.
Print Assumptions today_vpk_reader_whole.
(* chains that also contain today's RawFileSystem (the operations that reach _resolve_path in _get_file): on queries that
   are exact for the directory members the lookup is the specification *)
Definition gen_mmember (q : str) (m : mmember) : Prop :=
  match m with
  | MFold k => gen_kmember vpk_open_bin_content k
  | MRaw ops fs p => ops = raw_get_ops /\\ clean_fs fs = true /\\ NoDup (map (fun e => nkey (fst e)) fs)
                     /\\ exact_or_absent fs (normpath (slash (pjoin p q)))
  end.
Theorem today_chain_with_directory_members : forall ms q,
  Forall (gen_mmember q) ms -> mchain_get ms q = chain_spec (map m_spec ms) q.
Proof.
  intros ms q H. apply c19_chain_with_directory_members_spec. eapply Forall_impl; [|exact H].
  intros [k|ops fs p]; cbn [gen_mmember mmember_ok].
  - intros [Hb [Hf Hs]]. split; [|split; [exact Hf|]].
    + destruct Hb as [<-|[<-|[<-|[]]]]; vm_compute; reflexivity.
    + destruct Hs as [->|[limit [in_dir [_ ->]]]]; [exact I|vm_compute; reflexivity].
  - intros [-> [Hc [Hn Hx]]]. split; [vm_compute; reflexivity|]. split; [exact Hc|]. split; assumption.
Qed.
Print Assumptions today_chain_with_directory_members.
(* the chain a program ends up with after any sequence of today's add_sys calls answers every lookup form like the
   specification applied to the members in priority order *)
Theorem today_chain_history_spec : forall same c (h : list (bool * kmember)) q,
  In c [vpk_open_bin_content; vpk_open_str_content] -> Forall (gen_kmember c) (map snd h) ->
  let ms := build_chain chain_add_guard same chain_prio_action chain_plain_action h in
  let sp := map k_spec (priority_order h) in
  chain_get (map k_member ms) q = chain_spec sp q
  /\\ chain_open (map k_member ms) q = chain_spec sp q
  /\\ chain_exists chain_exists_mode (map k_xmember ms) q = is_some (chain_spec sp q)
  /\\ chain_read ms q = option_map snd (chain_spec sp q).
Proof.
  intros same c h q Hc Hms. apply c19_chain_history_spec; [vm_compute; reflexivity|vm_compute; reflexivity|vm_compute; reflexivity|].
  eapply Forall_impl; [|exact Hms]. intros m [Hb [Hf Hs]]. split; [|split; [exact Hf|]].
  - destruct Hb as [<-|[<-|[<-|[]]]]; vm_compute; reflexivity.
  - destruct Hs as [->|[limit [in_dir [_ ->]]]]; [exact I|].
    destruct Hc as [<-|[<-|[]]]; vm_compute; reflexivity.
Qed.
Print Assumptions today_chain_history_spec.
(* what today's RawFileSystem.walk_folder lists are stored names *)
Theorem today_raw_walk_lists_stored_names : forall fs folder e,
  In e (raw_walk_rel raw_walk_relmode raw_walk_ops fs folder) -> In e fs.
Proof. intros fs folder e. apply c19_raw_walk_lists_stored_names. vm_compute. reflexivity. Qed.
Print Assumptions today_raw_walk_lists_stored_names.
(* the whole property at everything the translator read off today's source *)
Definition today_cfg : source_cfg := TODAY_CFG.
Theorem today_c19_property : property_holds today_cfg.
Proof. apply c19_property. vm_compute. reflexivity. Qed.
Print Assumptions today_c19_property.
'''.replace('TODAY_CFG', TODAY_CFG)
# ... and over programs (needs both generated files)
INSTANCE_THEOREM_FORMS_STATE = '''
Theorem today_c19_property_over_histories : property_holds today_cfg /\\ histories_irrelevant TODAY_CENSUS.
Proof. apply c19_property_over_histories; vm_compute; reflexivity. Qed.
Print Assumptions today_c19_property_over_histories.
'''.replace('TODAY_CENSUS', TODAY_CENSUS)

BACKENDS = ['virtual', 'zip', 'vpk', 'raw']
FOLDERS = ['mat', 'materials', 'Materials', 'sub', 'Sub', 'a', 'A', 'deep', 'models', '.git', 'maps']
FILES = ['x.txt', 'X.TXT', 'a.vmt', 'wall.vmt', 'Wall.VMT', 'noext', '.dot', 'mat', 'readme.md', 'x.txt.bak', 'a.b.c', 'sub']


# ------------------------------------------------------------------------------------------------ guards around the implementation
# A fault may make the implementation loop for ever or raise something unexpected where the harness does not expect it
# (a constructor, a generator): either must end as a VIOLATION with the input that did it, never as a hung check or an
# INTERNAL-ERROR.  One case normally takes well under a second (also on a loaded machine): the limit is far above that.
CASE_LIMIT = 30.0
MAX_HANGS = 2


class ImplHang(BaseException):
    """Raised by the alarm inside a call into the implementation (BaseException: no `except Exception` swallows it)."""


@contextlib.contextmanager
def time_limit(seconds: float):
    if threading.current_thread() is not threading.main_thread() or not hasattr(signal, 'setitimer'):
        yield
        return

    def on_alarm(signum, frame):
        raise ImplHang(f'no result within {seconds:.0f} s')
    old = signal.signal(signal.SIGALRM, on_alarm)
    signal.setitimer(signal.ITIMER_REAL, seconds)
    try:
        yield
    finally:
        signal.setitimer(signal.ITIMER_REAL, 0)
        signal.signal(signal.SIGALRM, old)


def guarded(stage: str, fn, rep: dict, limit: float = CASE_LIMIT) -> list[tuple[str, str, dict]]:
    """fn() -> list of (key, what, replay); a hang or an unexpected exception of the implementation becomes such an entry."""
    try:
        with time_limit(limit):
            return fn()
    except ImplHang as e:
        return [(f'hang-{stage}', f'{stage}: the implementation did not return ({e}) on this input', rep)]
    except Exception as e:      # noqa: BLE001 - whatever a broken implementation throws is a finding, not a harness error
        return [(f'exception-{stage}', f'{stage}: unexpected {type(e).__name__}: {e}', rep)]


# ------------------------------------------------------------------------------------------------ generators
def fold(s: str) -> str:
    return s.replace('\\', '/').casefold()


def gen_files(rng: random.Random, tag: str = '', allow_dups: bool = True) -> list[tuple[str, bytes]]:
    n = rng.choice([1, 2, 3, 4, 5, 6, 8])
    names: list[str] = []
    for _ in range(n * 3):
        if len(names) >= n:
            break
        depth = rng.choice([0, 1, 1, 2, 2, 3])
        segs = [rng.choice(FOLDERS) for _ in range(depth)] + [rng.choice(FILES)]
        name = '/'.join(segs)
        if allow_dups and names and rng.random() < 0.15:
            name = _recase(rng, rng.choice(names))
        if name in names:
            continue
        # a path cannot be both a file and a directory (exact spelling; a directory tree must be able to hold the set)
        if any(o.startswith(name + '/') or name.startswith(o + '/') for o in names):
            continue
        if not allow_dups and any(fold(o) == fold(name) for o in names):
            continue
        # ... and, so that one set can be given to case-insensitive backends, not up to case either
        if any(fold(o).startswith(fold(name) + '/') or fold(name).startswith(fold(o) + '/') for o in names):
            continue
        names.append(name)
    return [(nm, f'{tag}{i}:{nm}'.encode()) for i, nm in enumerate(names)]


def _recase(rng: random.Random, s: str) -> str:
    return ''.join(c.upper() if rng.random() < 0.5 else c.lower() for c in s)


def spellings(rng: random.Random, name: str) -> list[str]:
    out = [name, name.lower(), name.upper(), name.swapcase(), _recase(rng, name)]
    res = []
    for s in out:
        res.append(s)
        if '/' in s:
            res.append(s.replace('/', '\\'))
            res.append(''.join(('\\' if c == '/' and rng.random() < 0.5 else c) for c in s))
    return list(dict.fromkeys(res))


def path_spellings(rng: random.Random, name: str, is_file: bool = True) -> list[tuple[str, str]]:
    """(spelling, class): the same path written with redundant separators or dot segments, with either slash."""
    segs = name.split('/')
    out = [('./' + name, 'dot-segment')]
    if len(segs) > 1:
        i = rng.randrange(1, len(segs))
        out.append(('/'.join(segs[:i]) + '//' + '/'.join(segs[i:]), 'doubled-slash'))
        out.append(('/'.join(segs[:i]) + '/./' + '/'.join(segs[i:]), 'dot-segment'))
        out.append(('/'.join(segs[:i]) + '/../' + '/'.join(segs[i - 1:]), 'dotdot-segment'))
    else:
        out.append((name + '/../' + name, 'dotdot-segment'))
    out.append((name + '/', 'trailing-slash'))
    out.append((name + '/.', 'dot-segment'))
    res = []
    for sp, cls in out:
        res.append((sp, cls))
        res.append((sp.replace('/', '\\'), cls + '-backslash'))
    if not is_file:
        res = [(sp, cls) for sp, cls in res if not cls.startswith('trailing-slash') or '\\' in sp]
    return res


NORM_CLASSES = ('dot-segment', 'doubled-slash', 'dotdot-segment', 'trailing-slash')


def folder_candidates(rng: random.Random, files) -> list[tuple[str, str]]:
    """(folder argument, class of the argument)."""
    out: list[tuple[str, str]] = [('', 'root')]
    dirs = set()
    for nm, _ in files:
        parts = nm.split('/')
        for i in range(1, len(parts)):
            dirs.add('/'.join(parts[:i]))
    for d in sorted(dirs):
        out.append((d, 'exact'))
        out.append((d + '/', 'trailing-slash'))
        out.append((_recase(rng, d), 'case-variant'))
        out.append((d.upper(), 'case-variant'))
        if '/' in d:
            out.append((d.replace('/', '\\'), 'backslash'))
        if len(d) > 1:
            out.append((d[:-1], 'partial-name'))
        first = d.split('/')[0]
        if len(first) > 2:
            out.append((first[:2], 'partial-name'))
    for d in sorted(dirs)[:4]:
        for sp, cls in path_spellings(rng, d, is_file=False):
            out.append((sp, 'unnormalised-' + cls))
    out += [('.', 'unnormalised-root'), ('./', 'unnormalised-root'), ('.\\', 'unnormalised-root-backslash')]
    for nm, _ in files[:3]:
        out.append((nm, 'file-name'))
    out.append(('nonexistent', 'missing'))
    seen = set()
    res = []
    for f, c in out:
        if f not in seen:
            seen.add(f)
            res.append((f, c))
    return res


# ------------------------------------------------------------------------------------------------ building real backends
def mixed_slashes(name: str) -> str:
    """The separators of a stored name alternately as backslash and slash (first one a backslash)."""
    parts = name.split('/')
    return ''.join(seg + ('' if i == len(parts) - 1 else ('\\' if i % 2 == 0 else '/')) for i, seg in enumerate(parts))


class Built:
    def __init__(self, root: str, files, which=BACKENDS, vpk_limit=1024, vpk_arch=0, mod=None) -> None:
        if mod is None:
            import srctools.filesys as mod
        VirtualFileSystem, ZipFileSystem, VPKFileSystem, RawFileSystem = (mod.VirtualFileSystem, mod.ZipFileSystem,
                                                                          mod.VPKFileSystem, mod.RawFileSystem)
        from srctools.vpk import VPK
        self.dir = tempfile.mkdtemp(dir=root)
        self.files = files
        self.fs: dict = {}
        if 'virtual' in which:
            self.fs['virtual'] = VirtualFileSystem(dict(files))
            # round 6: the same set keyed the way a Windows tool spells names (all backslashes / alternating separators)
            self.fs['virtualbs'] = VirtualFileSystem({n.replace('/', '\\'): b for n, b in files})
            self.fs['virtualmix'] = VirtualFileSystem({mixed_slashes(n): b for n, b in files})
        if 'zip' in which:
            zp = os.path.join(self.dir, 'a.zip')
            with zipfile.ZipFile(zp, 'w') as z:
                for n, b in files:
                    z.writestr(n, b)
            self.fs['zip'] = ZipFileSystem(zp)
            # the documented way of mounting an archive held in memory (BSP pakfile): the path is only a label, so two
            # different archives mounted like this compare equal (FileSystem.__eq__: type and path)
            self.fs['ziplabel'] = mod.ZipFileSystem('<pakfile>', zipfile=zipfile.ZipFile(zp))
        if 'vpk' in which:
            vp = os.path.join(self.dir, 'p_dir.vpk')
            with VPK(vp, mode='w', dir_data_limit=vpk_limit) as vk:
                for n, b in files:
                    vk.add_file(n, b, arch_index=vpk_arch)
            self.fs['vpk'] = VPKFileSystem(vp)
            # the container's iteration order with the bytes that were stored (not what its reader returns)
            stored = dict(files)
            self.vpk_order = [(f.filename, stored[f.filename] if f.filename in stored else f.read()) for f in self.fs['vpk'].vpk]
        if 'raw' in which:
            rd = os.path.join(self.dir, 'raw')
            os.makedirs(rd)
            for n, b in files:
                p = os.path.join(rd, n)
                os.makedirs(os.path.dirname(p), exist_ok=True)
                with open(p, 'wb') as fh:
                    fh.write(b)
            self.fs['raw'] = RawFileSystem(rd)

    def close(self) -> None:
        for k in ('zip', 'ziplabel'):
            z = self.fs.get(k)
            if z is not None:
                z.zip.close()
        shutil.rmtree(self.dir, ignore_errors=True)


def impl_lookup(fs, q):
    """(exists, bytes via fs[q], bytes via fs.open_bin(q)); None = FileNotFoundError."""
    try:
        ex = q in fs
    except Exception as e:      # noqa: BLE001 - an exception is a result
        ex = f'{type(e).__name__}'
    try:
        f = fs[q]
        with f.open_bin() as fh:
            got = fh.read()
    except FileNotFoundError:
        got = None
    except Exception as e:      # noqa: BLE001
        got = f'{type(e).__name__}'
    try:
        with fs.open_bin(q) as fh:
            op = fh.read()
    except (FileNotFoundError, IsADirectoryError):
        # RawFileSystem.open_bin(<a directory>) raises IsADirectoryError where the others raise FileNotFoundError:
        # an observation (docs/C19.md), the name is reported as not being a file either way
        op = None
    except Exception as e:      # noqa: BLE001
        op = f'{type(e).__name__}'
    return ex, got, op


def impl_open_str(fs, q):
    try:
        with fs.open_str(q, 'utf8') as fh:
            return fh.read().encode('utf8')
    except (FileNotFoundError, IsADirectoryError):
        return None
    except Exception as e:      # noqa: BLE001
        return f'{type(e).__name__}'


def impl_walk(fs, folder):
    try:
        return [f.path for f in fs.walk_folder(folder)]
    except Exception as e:      # noqa: BLE001
        return f'{type(e).__name__}: {e}'


# ------------------------------------------------------------------------------------------------ reference (the property)
def spec_map(files) -> dict[str, list[tuple[str, bytes]]]:
    m: dict[str, list[tuple[str, bytes]]] = {}
    for n, b in files:
        m.setdefault(fold(n), []).append((n, b))
    return m


def _pfx(pfx: str) -> str:
    """The folded subfolder a member is restricted to ('' = unrestricted); './sub', 'sub/.', 'sub/' all mean 'sub'."""
    p = os.path.normpath(fold(pfx)) if pfx else ''
    return '' if p == '.' else p.rstrip('/')


def spec_inside(folder: str, name: str) -> bool:
    """The file `name` is located inside `folder` (case and slash kind insignificant; '' = everything)."""
    f = fold(folder).rstrip('/')
    if f and set(f.split('/')) & {'', '.', '..'}:
        # redundant separators and dot segments do not change which folder is meant
        f = os.path.normpath(f)
        f = '' if f == '.' else f
    return f == '' or fold(name).startswith(f + '/')


# ------------------------------------------------------------------------------------------------ correspondence
def _parallel(fn, items, workers: int = 4):
    """Evaluate independent coqc batches concurrently (each batch has its own scratch name); results in input order."""
    from concurrent.futures import ThreadPoolExecutor
    items = list(items)
    if len(items) <= 1:
        return [fn(x) for x in items]
    with ThreadPoolExecutor(max_workers=workers) as ex:
        return list(ex.map(fn, items))


def _code(x) -> str:
    return coq_bytes(b'\x00') if x is None else '[' + ';'.join(['1'] + [str(c) for c in x]) + ']%N'


def _files_lit(files) -> str:
    return coq_list(f'({coq_str(n)}, {coq_bytes(b)})' for n, b in files)


def corr_backends(ck: Ck, root: str, pool):
    """Builds the cases on the real backends (main thread, guarded), starts their evaluation by the model on `pool`
    and returns the function that collects the results - the coqc processes run while the caller goes on."""
    n = ck.budget(28, 400)
    cases = []
    for i in range(n):
        rng = ck.rng
        files = CORPUS_SETS[i] if i < len(CORPUS_SETS) else gen_files(rng)
        if not files:
            continue
        # where the VPK keeps the data: preload only / split with a numbered archive / split with the directory tail
        lim, arch = rng.choice([(1024, 0), (0, 0), (3, 1), (0, None), (3, None), (7, None), (1, 2)])
        ck.hist('corr_vpk_placement', f'limit={lim} arch_index={arch}')
        frep = {'op': 'backends', 'files': [(x, y.decode()) for x, y in files], 'seed': 0}
        try:
            with time_limit(CASE_LIMIT):
                bt = Built(root, files, ['virtual', 'zip', 'vpk', 'raw'], vpk_limit=lim, vpk_arch=arch)
                place = f'({lim}, {"true" if arch is None else "false"})'
                try:
                    qs = []
                    for nm, _ in rng.sample(files, min(3, len(files))):
                        sp = spellings(rng, nm)
                        qs += rng.sample(sp, min(3, len(sp)))
                    for nm, _ in rng.sample(files, min(2, len(files))):
                        ps = [q for q, _ in path_spellings(rng, nm)]
                        qs += rng.sample(ps, min(3, len(ps)))
                        qs.append(_recase(rng, rng.choice(ps)))
                    qs = rng.sample(qs, min(12, len(qs)))
                    qs += ['nonexistent.txt', files[0][0] + 'x', files[0][0].split('/')[0], './nonexistent', '', '.']
                    qs = list(dict.fromkeys(qs))
                    fc = folder_candidates(rng, files)
                    folders = [f for f, _ in rng.sample(fc, min(7, len(fc)))]
                    if '' not in folders:
                        folders.append('')
                    for k, name in enumerate(['virtual', 'zip', 'vpk']):
                        fs = bt.fs[name]
                        fl = bt.vpk_order if name == 'vpk' else files
                        res = [impl_lookup(fs, q) + (impl_open_str(fs, q),) for q in qs]
                        walks = [impl_walk(fs, f) for f in folders]
                        if any(isinstance(x, str) for r in res for x in r) or any(isinstance(w, str) for w in walks):
                            ck.violation(f'exception-{name}', f'{name} backend raised an unexpected exception',
                                         {'files': [(a, b.decode()) for a, b in files], 'queries': qs, 'folders': folders,
                                          'results': repr(res), 'walks': repr(walks)})
                            continue
                        exp = coq_list([coq_list(_code(r[1]) for r in res),
                                        coq_list(('[1]%N' if r[0] else '[0]%N') for r in res),
                                        coq_list(_code(r[2]) for r in res),
                                        coq_list(_code(r[3]) for r in res)]
                                       + [coq_list(coq_str(p) for p in w) for w in walks])
                        cases.append((f'(({k}, {_files_lit(fl)}), ({coq_list(coq_str(q) for q in qs)}, {coq_list(coq_str(f) for f in folders)}), {place}, {exp})',
                                      {'backend': name, 'files': [(a, b.decode()) for a, b in fl], 'queries': qs, 'folders': folders,
                                       'impl_lookup': [(r[0], None if r[1] is None else r[1].decode(), None if r[2] is None else r[2].decode()) for r in res],
                                       'impl_walk': walks, 'vpk_dir_data_limit': lim, 'vpk_arch_index': arch}))
                        ck.count('corr_backend_cases')
                        ck.count('corr_backend_observations', 4 * len(qs) + len(folders))
                        ck.hist('corr_backend', name)
                        if len(files) > 1 and any(w for w in walks):
                            ck.seen(('corr', name, tuple(a for a, _ in fl), tuple(qs), tuple(folders)))
                    # raw: the same queries and folders (exact-case semantics; os.walk's order is the OS's: listed names are
                    # put into stored order, anything unexpected is kept so that it shows as a disagreement)
                    rres = [impl_lookup(bt.fs['raw'], q) + (impl_open_str(bt.fs['raw'], q),) for q in qs]
                    order = {nm: i for i, (nm, _) in enumerate(files)}
                    rwalks = []
                    for f in folders:
                        w = impl_walk(bt.fs['raw'], f)
                        rwalks.append(w if isinstance(w, str) else sorted(w, key=lambda p: (order.get(os.path.normpath(p), len(order)), p)))
                    if not any(isinstance(x, str) for r in rres for x in r) and not any(isinstance(w, str) for w in rwalks):
                        exp = coq_list([coq_list(_code(r[1]) for r in rres),
                                        coq_list(('[1]%N' if r[0] else '[0]%N') for r in rres),
                                        coq_list(_code(r[2]) for r in rres),
                                        coq_list(_code(r[3]) for r in rres)]
                                       + [coq_list(coq_str(p) for p in w) for w in rwalks])
                        cases.append((f'((3, {_files_lit(files)}), ({coq_list(coq_str(q) for q in qs)}, {coq_list(coq_str(f) for f in folders)}), {place}, {exp})',
                                      {'backend': 'raw', 'files': [(a, b.decode()) for a, b in files], 'queries': qs, 'folders': folders,
                                       'impl_lookup': [(r[0], None if r[1] is None else r[1].decode(), None if r[2] is None else r[2].decode()) for r in rres],
                                       'impl_walk': rwalks}))
                        ck.count('corr_raw_cases')
                        ck.count('corr_backend_observations', 4 * len(qs) + len(folders))
                        ck.hist('corr_backend', 'raw')
                    else:
                        ck.violation('exception-raw', 'raw backend raised an unexpected exception',
                                     {'files': [(a, b.decode()) for a, b in files], 'queries': qs, 'folders': folders,
                                      'results': repr(rres), 'walks': repr(rwalks)})
                finally:
                    bt.close()
        except ImplHang as e:
            ck.violation('hang-backends', f'a backend did not return ({e}) while the correspondence cases were computed', frep)
            break
        except Exception as e:      # noqa: BLE001
            ck.violation('exception-backends', f'building / querying the backends raised {type(e).__name__}: {e}', frep)
            continue
    if cases:
        ck.sample({'correspondence_case': cases[min(5, len(cases) - 1)][1]})
    bad: list[int] = []
    _t0 = time.time()

    def batch(lo: int):
        part = cases[lo:lo + 45]
        lit = coq_list(c for c, _ in part)
        expr = ('bad_idx (fun c : (N * list file) * (list str * list str) * (N * bool) * list (list (list N)) => '
                'let \'(kf, qf, pl, e) := c in '
                'match fst kf with 3 => l3_eqb (raw_obs (snd kf) (fst qf) (snd qf)) e '
                '| k => l3_eqb (obs k (fst pl) (snd pl) (cfg_of k) (snd kf) (fst qf) (snd qf)) e end) 0 ' + lit)
        return lo, ck.coq_eval(IMPORTS, [expr], name=f'backends{lo}', preamble=PRE)

    futs = [pool.submit(batch, lo) for lo in range(0, len(cases), 45)]

    def finish() -> None:
        for f in futs:
            lo, vals = f.result()
            if vals is None:
                ck.obligation('correspondence:backends', False, 'model could not be evaluated')
                ck.tie_broken.append('correspondence backends: model evaluation failed')
                return
            bad.extend(lo + i for i in parse_coq_N_list(vals[0]))
        bad.sort()
        ck.extra['corr_backends_coq_s'] = round(time.time() - _t0, 1)
        ck.obligation('correspondence:backends', not bad,
                      f'{len(cases)} (backend, file set, queries, folders) cases: generated model (vm_compute) vs real '
                      f'Virtual/Zip/VPK/Raw file systems: {len(bad)} disagreements')
        if bad:
            ck.tie_broken.append('correspondence backends (SM/FsChain.v over Gen/FsWalk_gen.v vs srctools.filesys)')
            ck.extra['backend_disagreement'] = min((cases[i][1] for i in bad), key=lambda d: len(repr(d)))
    return finish


def corr_chain(ck: Ck, root: str, pool):
    from srctools.filesys import FileSystemChain
    n = ck.budget(40, 400)
    cases = []
    for i in range(n):
        rng = ck.rng
        sets = [gen_files(rng, tag=f's{j}:') for j in range(rng.choice([1, 2, 3]))]
        sets = [s for s in sets if s]
        if not sets:
            continue
        members = []
        crep = lambda: {'op': 'chain', 'sets': [[(x, y.decode()) for x, y in s] for s in sets], 'members': [list(m) for m in members]}
        builts = []
        try:
            with time_limit(CASE_LIMIT):
                builts = [Built(root, s, ['virtual', 'zip', 'vpk']) for s in sets]
                try:
                    members = []
                    for _ in range(rng.choice([1, 2, 3, 4])):
                        j = rng.randrange(len(sets))
                        kind = rng.choice(['virtual', 'zip', 'vpk'])
                        dirs = sorted({'/'.join(nm.split('/')[:k]) for nm, _ in sets[j] for k in range(1, len(nm.split('/')))})
                        pfx = ''
                        if dirs and rng.random() < 0.6:
                            d = rng.choice(dirs)
                            pfx = rng.choice([d, d, d + '/', _recase(rng, d), d.replace('/', '\\'), './' + d, d + '/.'])
                        members.append((kind, j, pfx, rng.random() < 0.3))
                    ch = FileSystemChain()
                    for kind, j, pfx, prio in members:
                        ch.add_sys(builts[j].fs[kind], pfx, priority=prio)
                    qs = []
                    for kind, j, pfx, _ in members:
                        for nm, _b in rng.sample(sets[j], min(2, len(sets[j]))):
                            qs.append(nm)
                            p = _pfx(pfx)
                            if p and fold(nm).startswith(p + '/'):
                                qs.append(_recase(rng, nm[len(p) + 1:]))
                                qs.append(nm[len(p) + 1:].replace('/', '\\'))
                    qs = list(dict.fromkeys(qs + ['nonexistent']))[:10]
                    folders = ['']
                    for kind, j, pfx, _ in members[:2]:
                        c = folder_candidates(rng, sets[j])
                        folders += [f for f, _ in rng.sample(c, min(2, len(c)))]
                    folders = list(dict.fromkeys(folders))
                    gets = []
                    exs = []
                    opens = []
                    for q in qs:
                        try:
                            with ch[q].open_bin() as fh:
                                gets.append(fh.read())
                        except FileNotFoundError:
                            gets.append(None)
                        exs.append(bool(q in ch))
                        try:
                            with ch.open_bin(q) as fh:
                                opens.append(fh.read())
                        except FileNotFoundError:
                            opens.append(None)
                    walks = []
                    for f in folders:
                        w = []
                        for fl in ch.walk_folder(f):
                            with fl.open_bin() as fh:
                                w += [coq_str(fl.path), coq_bytes(fh.read())]
                        walks.append(w)
                    for f in folders:       # walk_folder_repeat: every member's listing, in member order
                        w = []
                        for fl in ch.walk_folder_repeat(f):
                            with fl.open_bin() as fh:
                                w += [coq_str(fl.path), coq_bytes(fh.read())]
                        walks.append(w)
                    ms_lit = coq_list(
                        f'(({BACKENDS.index(kind)}, {_files_lit(builts[j].vpk_order if kind == "vpk" else sets[j])}, {coq_str(pfx)}), {"true" if prio else "false"})'
                        for kind, j, pfx, prio in members)
                    exp = coq_list([coq_list(_code(g) for g in gets), coq_list(('[1]%N' if x else '[0]%N') for x in exs),
                                    coq_list(_code(g) for g in opens)] + [coq_list(w) for w in walks])
                    cases.append((f'(({ms_lit}, ({coq_list(coq_str(q) for q in qs)}, {coq_list(coq_str(f) for f in folders)})), {exp})',
                                  {'members(kind,set,prefix,priority)': members, 'sets': [[a for a, _ in s] for s in sets], 'queries': qs,
                                   'folders': folders, 'impl_get': [None if g is None else g.decode() for g in gets], 'impl_in': exs}))
                    ck.count('corr_chain_cases')
                    ck.count('corr_chain_observations', 3 * len(qs) + 2 * len(folders))
                    ck.hist('corr_chain_members', len(members))
                    if len(members) > 1 and any(g is not None for g in gets):
                        ck.seen(('corrchain', tuple(members), tuple(tuple(a for a, _ in s) for s in sets), tuple(qs)))
                except Exception as e:      # noqa: BLE001
                    ck.violation('chain-exception', f'FileSystemChain raised {type(e).__name__}: {e}',
                                 {'members': members, 'sets': [[a for a, _ in s] for s in sets]})
                finally:
                    for b in builts:
                        b.close()
        except ImplHang as e:
            ck.violation('hang-chain', f'FileSystemChain or a member did not return ({e}) while the correspondence cases were computed', crep())
            break
        except Exception as e:      # noqa: BLE001
            ck.violation('exception-chain', f'building the members raised {type(e).__name__}: {e}', crep())
            continue
    if cases:
        ck.sample({'chain_correspondence_case': cases[min(3, len(cases) - 1)][1]})
    bad: list[int] = []

    def batch(lo: int):
        part = cases[lo:lo + 40]
        lit = coq_list(c for c, _ in part)
        expr = ('bad_idx (fun c : (list ((N * list file * str) * bool) * (list str * list str)) * list (list (list N)) => '
                'l3_eqb (chain_obs (fst (fst c)) (fst (snd (fst c))) (snd (snd (fst c)))) (snd c)) 0 ' + lit)
        return lo, ck.coq_eval(IMPORTS, [expr], name=f'chain{lo}', preamble=PRE)

    futs = [pool.submit(batch, lo) for lo in range(0, len(cases), 40)]

    def finish() -> None:
        for f in futs:
            lo, vals = f.result()
            if vals is None:
                ck.obligation('correspondence:chain', False, 'model could not be evaluated')
                ck.tie_broken.append('correspondence chain: model evaluation failed')
                return
            bad.extend(lo + i for i in parse_coq_N_list(vals[0]))
        bad.sort()
        ck.obligation('correspondence:chain', not bad,
                      f'{len(cases)} chains (1-4 members over Virtual/Zip/VPK, prefixes, priority flags): generated model vs '
                      f'FileSystemChain chain[q] / q in chain / open_bin(q) / walk_folder / walk_folder_repeat: {len(bad)} disagreements')
        if bad:
            ck.tie_broken.append('correspondence chain (SM/FsChain.v chain_get/chain_walk vs srctools.filesys.FileSystemChain)')
            ck.extra['chain_disagreement'] = min((cases[i][1] for i in bad), key=lambda d: len(repr(d)))
    return finish


# ------------------------------------------------------------------------------------------------ oracle: single backends
# ------------------------------------------------------------------------------------------------ oracle: histories of walks
# A walk is a generator: the consumer may stop after k items (break, any(), next(iter(fs))), an exception may be raised in
# the loop body or thrown into the generator, two walks may be interleaved.  Nothing of that may change what a later
# complete walk of the folder (any spelling, '' and iteration included) lists.
ABANDON_MODES = ('take0', 'take1', 'take2', 'all-but-one', 'any', 'body-raises', 'throw', 'close', 'interleaved')


class _ConsumerFailed(Exception):
    pass


def abandon_walk(make_gen, mode: str, n_expected: int = 0, meanwhile=()):
    """Start the walk make_gen() and give it up the way `mode` says.  Returns None, or for 'interleaved' the pair
    (items of a second walk started and exhausted while the first was suspended, all items of the first walk)."""
    if mode in ('take0', 'take1', 'take2', 'all-but-one'):
        g = make_gen()
        for _ in range(max(n_expected - 1, 0) if mode == 'all-but-one' else int(mode[-1])):
            next(g, None)
        del g
    elif mode == 'any':
        any(True for _ in make_gen())
    elif mode == 'body-raises':
        try:
            for _f in make_gen():
                raise _ConsumerFailed()
        except _ConsumerFailed:
            pass
    elif mode == 'throw':
        g = make_gen()
        next(g, None)
        if hasattr(g, 'throw'):       # the interface promises an iterator, not a generator: a plain iterator is just dropped
            try:
                g.throw(_ConsumerFailed())
            except (_ConsumerFailed, StopIteration):
                pass
    elif mode == 'close':
        g = make_gen()
        next(g, None)
        next(g, None)
        if hasattr(g, 'close'):
            g.close()
    elif mode == 'interleaved':
        g = make_gen()
        first = [f.path for f in itertools.islice(g, 1)]
        second = [f.path for f in make_gen()]
        for other in meanwhile:       # walks of other folders / other objects while the first walk is suspended
            for _f in other():
                pass
        return second, first + [f.path for f in g]
    else:
        raise ValueError(mode)
    return None


def backend_walk_expect(name: str, files, sm, folder: str, fcls: str):
    """(expected sorted listing, how to normalise a listed path) of one backend for one folder argument."""
    if name == 'raw':
        fe = os.path.normpath(folder.replace('\\', '/')) if fcls.startswith('unnormalised') else folder.replace('\\', '/').rstrip('/')
        fe = '' if fe == '.' else fe
        return sorted(nm for nm, _ in files if fe == '' or nm.startswith(fe + '/')), (lambda p: p)
    return sorted(k for k in sm if spec_inside(folder, k)), fold


def walk_history_case(fs, name: str, files, folder: str, fcls: str, mode: str, again: str, use_iter: bool) -> list[tuple[str, str, dict]]:
    """One history on one backend object: a walk of `folder` is given up the way `mode` says, then `again` (the same
    folder, possibly spelt differently) is walked completely - and, for the root, the object is iterated."""
    out: list[tuple[str, str, dict]] = []
    sm = spec_map(files)
    exp, norm = backend_walk_expect(name, files, sm, folder, fcls)
    make = (lambda: iter(fs)) if use_iter else (lambda: fs.walk_folder(folder))
    rep = {'op': 'walk-history', 'backend': name, 'files': [(a, b.decode()) for a, b in files], 'folder': folder, 'folder_class': fcls,
           'mode': mode, 'then_walk': again, 'first_walk_is_iter': use_iter, 'expected': exp}
    try:
        inter = abandon_walk(make, mode, len(exp), (lambda: fs.walk_folder(again), lambda: fs.walk_folder(''), lambda: fs.walk_folder('nonexistent')))
    except Exception as e:      # noqa: BLE001 - whatever comes out of an abandoned walk other than what was thrown in
        return [(f'walk-{name}-abandoned-walk-raises', f'{name}: giving up a walk of {folder!r} ({mode}) raised {type(e).__name__}: {e}', rep)]
    if inter is not None:
        for label, listing in (('started while another walk was suspended', inter[0]), ('suspended while another walk ran', inter[1])):
            if sorted(norm(p) for p in listing) != exp:
                out.append((f'walk-{name}-interleaved-walks-interfere', f'{name}.walk_folder({folder!r}) {label} listed {sorted(listing)}, '
                            f'expected {exp}', rep))
    listings = [(f'walk_folder({again!r})', impl_walk(fs, again))]
    if folder == '':
        try:
            listings.append(('iter(fs)', [f.path for f in fs]))
        except Exception as e:      # noqa: BLE001
            listings.append(('iter(fs)', f'{type(e).__name__}: {e}'))
    for what, w in listings:
        if isinstance(w, str) or sorted(norm(p) for p in w) != exp:
            out.append((f'walk-{name}-wrong-after-abandoned-walk', f'{name}: after a walk of {folder!r} was given up ({mode}), the complete '
                        f'{what} listed {w if isinstance(w, str) else sorted(w)}, expected {exp}', rep))
            break
    return out


def check_walk_histories(bt: 'Built', files, rng: random.Random, stats=None, hist=None) -> list[tuple[str, str, dict]]:
    """Abandoned walks followed by complete ones, on backends nobody has walked yet."""
    out: list[tuple[str, str, dict]] = []
    sm = spec_map(files)
    dirs = sorted({'/'.join(nm.split('/')[:i]) for nm, _ in files for i in range(1, len(nm.split('/')))})
    # (folder as first walked, class, the same folder spelt differently for the walk that follows)
    plan: list[tuple[str, str, str]] = [('', 'root', '')]
    for d in dirs[:3]:
        plan.append((d, 'exact', d + '/'))
    plan.append(('', 'root', '.'))
    modes = list(ABANDON_MODES)
    rng.shuffle(modes)
    for name in BACKENDS:
        fs = bt.fs[name]
        for i, (folder, fcls, again) in enumerate(plan):
            mode = modes[(i + BACKENDS.index(name)) % len(modes)]
            if name != 'raw' and again and again != '.' and rng.random() < 0.5:
                again = _recase(rng, again).replace('/', '\\')
            use_iter = folder == '' and rng.random() < 0.5
            out += walk_history_case(fs, name, files, folder, fcls, mode, again, use_iter)
            if hist is not None:
                hist('walk_history_mode', mode)
            if stats is not None:
                stats('walk_history_observations', 1)
        # File objects handed out by a complete walk stay valid: they are opened after further walks (one given up) and
        # a failed lookup have happened on the object
        hrep = {'op': 'backends', 'files': [(a, b.decode()) for a, b in files], 'seed': 0, 'history': 'handles of a complete walk opened after later calls'}
        try:
            handles = list(fs.walk_folder(''))
            abandon_walk(lambda: fs.walk_folder(''), 'take1')
            impl_lookup(fs, 'nonexistent.txt')
            for h in handles:
                with h.open_bin() as fh:
                    got = fh.read()
                want = {dict(files).get(h.path)} if name == 'raw' else {x for _, x in sm.get(fold(h.path), [])}
                if got not in want:
                    out.append((f'walk-{name}-handle-stale', f'{name}: the File {h.path!r} listed by a walk, opened after later calls, reads {got!r}', hrep))
            if stats is not None:
                stats('walk_history_observations', len(handles))
        except Exception as e:      # noqa: BLE001
            out.append((f'walk-{name}-handle-exception', f'{name}: opening the Files of a walk after later calls raised {type(e).__name__}: {e}', hrep))
        # lookups are untouched by the walks that went before
        for nm, b in files:
            ex, got, _op = impl_lookup(fs, nm)
            okb = {b} if name == 'raw' else {x for _, x in sm[fold(nm)]}
            if ex is not True or got not in okb:
                out.append((f'lookup-{name}-wrong-after-abandoned-walk', f'{name}: after abandoned walks {nm!r}: exists={ex!r} get={got!r}',
                            {'op': 'backends', 'files': [(a, b.decode()) for a, b in files], 'seed': 0, 'query': nm}))
    return out


CORPUS_SETS = [
    [('materials/Brick/wall.vmt', b'1'), ('mat/x.txt', b'2'), ('materials/a.vmt', b'3'), ('top.txt', b'4'), ('.dot', b'5'),
     ('sub/deep/er/f.txt', b'6'), ('noext', b'7'), ('sub/noext2', b'8')],
    [('A/z.txt', b'g'), ('a/x.txt', b'first'), ('A/x.txt', b'second')],
    [('Mat/x', b'1')],
    [('materials/x', b'1')],
]


def check_backends(root: str, files, rng: random.Random, stats=None, hist=None) -> list[tuple[str, str, dict]]:
    """All violations of the single-backend part of the property on one file set: (key, what, replay)."""
    out: list[tuple[str, str, dict]] = []
    bt = Built(root, files)
    try:
        # histories of walks: on the very objects the oracles below use (they then run on objects with a past), or on a
        # second set of backends (the oracles below then see objects nobody has touched)
        hrng = random.Random(rng.randrange(1 << 30))
        if hrng.random() < 0.5:
            out += check_walk_histories(bt, files, hrng, stats, hist)
        else:
            bth = Built(root, files)
            try:
                out += check_walk_histories(bth, files, hrng, stats, hist)
            finally:
                bth.close()
        sm = spec_map(files)
        has_dups = any(len(v) > 1 for v in sm.values())
        fj = [(a, b.decode()) for a, b in files]
        # ---- lookups
        queries: list[tuple[str, str, str]] = []      # (query, class, stored name)
        for nm, _ in files:
            for q in spellings(rng, nm):
                cls = 'exact' if q == nm else ('slash-variant' if q.replace('\\', '/') == nm else
                                               ('case-variant' if '\\' not in q else 'case-and-slash-variant'))
                queries.append((q, cls, nm))
        # the same path with redundant separators / dot segments (2 stored names per set, every class, both slash kinds)
        pqueries: list[tuple[str, str, str]] = []
        for nm, _ in files[:2]:
            for q, cls in path_spellings(rng, nm):
                pqueries.append((q, 'unnormalised-' + cls, nm))
                if rng.random() < 0.3:
                    pqueries.append((_recase(rng, q), 'unnormalised-' + cls, nm))
        queries += pqueries
        absent = ['nonexistent.txt', files[0][0] + 'x', files[0][0][:-1]] + sorted({nm.split('/')[0] for nm, _ in files if '/' in nm})
        absent = [q for q in absent if fold(q) not in sm]
        for name in ['virtual', 'zip', 'vpk']:
            fs = bt.fs[name]
            for q, cls, nm in queries:
                cands = sm[fold(nm)]
                ex, got, op = impl_lookup(fs, q)
                if stats is not None:
                    stats('lookup_observations', 3)
                okb = {b for _, b in cands}
                if ex is not True or got not in okb or op not in okb:
                    out.append((f'lookup-{name}-{cls}', f'{name}: stored {nm!r} queried as {q!r}: exists={ex!r} get={got!r} open={op!r}',
                                {'op': 'lookup', 'backend': name, 'files': fj, 'query': q, 'expected_bytes': sorted(x.decode() for x in okb)}))
                elif got != op:
                    out.append((f'lookup-{name}-get-open-differ', f'{name}: {q!r}: fs[q] gives {got!r}, open_bin(q) gives {op!r}',
                                {'op': 'lookup', 'backend': name, 'files': fj, 'query': q}))
                if cls in ('exact', 'case-and-slash-variant'):
                    # the remaining public forms: _get_file, _file_exists, open_str, File.open_str
                    forms = read_forms(fs, q, 'utf8')
                    if stats is not None:
                        stats('lookup_observations', 4)
                    for form, kind in forms_problems(forms, okb):
                        if form in ('get_file', 'file_exists', 'open_str', 'file_open_str'):
                            out.append((f'lookup-{name}-{form}-{kind}', f'{name}: stored {nm!r} queried as {q!r}: {form} gave {forms[form]!r}',
                                        {'op': 'lookup', 'backend': name, 'files': fj, 'query': q, 'expected_bytes': sorted(x.decode() for x in okb)}))
            for q in absent:
                ex, got, op = impl_lookup(fs, q)
                if ex is not False or got is not None or op is not None:
                    out.append((f'lookup-{name}-phantom', f'{name}: {q!r} is not a stored file but exists={ex!r} get={got!r}',
                                {'op': 'lookup', 'backend': name, 'files': fj, 'query': q, 'expected_bytes': None}))
                    continue
                # error paths: every form has now failed once for q (and fails once more here); what a failed call
                # leaves behind must not make the name exist afterwards (the walks below must not list it either)
                forms = read_forms(fs, q, 'utf8')
                again = impl_lookup(fs, q)
                if stats is not None:
                    stats('lookup_observations', 10)
                if forms_problems(forms, None) or again != (False, None, None):
                    out.append((f'lookup-{name}-phantom-after-failed-lookup', f'{name}: {q!r} is not a stored file; after lookups of it failed: '
                                f'{forms!r}, then exists/get/open = {again!r}',
                                {'op': 'lookup', 'backend': name, 'files': fj, 'query': q, 'expected_bytes': None, 'history': 'the same lookup repeated after it failed in every form'}))
        # raw: exact-case names, either slash kind, redundant separators / dot segments
        rawq = [(nm, 'exact', nm) for nm, _ in files]
        rawq += [(nm.replace('/', '\\'), 'slash-variant', nm) for nm, _ in files if '/' in nm]
        rawq += pqueries
        dfiles = dict(files)
        for q, cls, nm in rawq:
            if cls.startswith('unnormalised') and os.path.normpath(q.replace('\\', '/')) != nm:
                continue      # a re-cased spelling: the directory backend is exact-case
            b = dfiles[nm]
            ex, got, op = impl_lookup(bt.fs['raw'], q)
            if stats is not None:
                stats('lookup_observations', 3)
            if ex is not True or got != b or op != b:
                out.append((f'lookup-raw-{cls}', f'raw: stored {nm!r} queried as {q!r}: exists={ex!r} get={got!r} open={op!r}',
                            {'op': 'lookup', 'backend': 'raw', 'files': fj, 'query': q, 'expected_bytes': [b.decode()]}))
        for q in absent:
            ex, got, op = impl_lookup(bt.fs['raw'], q)
            if ex is not False or got is not None:
                out.append(('lookup-raw-phantom', f'raw: {q!r} exists={ex!r}', {'op': 'lookup', 'backend': 'raw', 'files': fj, 'query': q}))
        # cross-backend agreement on bytes (decides case-duplicates)
        for q, cls, nm in queries:
            got = {name: impl_lookup(bt.fs[name], q)[1] for name in ['virtual', 'zip', 'vpk']}
            if len(set(got.values())) > 1 and all(isinstance(g, bytes) for g in got.values()):
                odd = 'vpk' if got['virtual'] == got['zip'] else 'virtual-zip'
                out.append((f'case-duplicate-winner-{odd}-differs' if has_dups else f'lookup-bytes-differ-{odd}',
                            f'{q!r}: ' + ', '.join(f'{k}={v!r}' for k, v in got.items()),
                            {'op': 'agree', 'files': fj, 'query': q}))
        # ---- walks
        for folder, fcls in folder_candidates(rng, files):
            for name in BACKENDS:
                if name == 'raw' and fcls == 'case-variant':
                    continue     # the directory backend is exact-case
                w = impl_walk(bt.fs[name], folder)
                if stats is not None:
                    stats('walk_observations', 1)
                if isinstance(w, str):
                    out.append((f'walk-{name}-exception', f'{name}.walk_folder({folder!r}) raised {w}',
                                {'op': 'walk', 'backend': name, 'files': fj, 'folder': folder}))
                    continue
                if name == 'raw':
                    fe = os.path.normpath(folder.replace('\\', '/')) if fcls.startswith('unnormalised') else folder.replace('\\', '/').rstrip('/')
                    fe = '' if fe == '.' else fe
                    exp = sorted(nm for nm, _ in files if fe == '' or nm.startswith(fe + '/'))
                    gotn = sorted(w)
                    cmp_got, cmp_exp = gotn, exp
                else:
                    exp = sorted(k for k in sm if spec_inside(folder, k))
                    cmp_got, cmp_exp = sorted(fold(p) for p in w), exp
                if cmp_got != cmp_exp:
                    extra = [p for p in cmp_got if p not in cmp_exp]
                    missing = [p for p in cmp_exp if p not in cmp_got]
                    dup = len(set(cmp_got)) != len(cmp_got)
                    if dup and not extra and not missing:
                        kind = 'lists-a-name-twice'
                    elif fcls.startswith('unnormalised'):
                        kind = 'folder-' + fcls
                    elif fcls == 'root':
                        kind = 'root-folder-incomplete'
                    elif extra and fcls == 'partial-name':
                        kind = 'no-folder-boundary'
                    elif extra and fcls == 'file-name':
                        kind = 'file-listed-as-folder'
                    elif extra:
                        kind = f'lists-files-outside-{fcls}'
                    elif fcls == 'trailing-slash':
                        kind = 'trailing-slash-hides-direct-files'
                    elif fcls == 'backslash':
                        kind = 'backslash-folder-not-matched'
                    elif fcls == 'case-variant' or (name != 'raw' and any(n != n.lower() for m in missing for n, _ in sm[m])):
                        kind = 'case-sensitive'
                    else:
                        kind = f'misses-files-{fcls}'
                    out.append((f'walk-{name}-{kind}', f'{name}.walk_folder({folder!r}) listed {sorted(w)}, expected (folded) {exp}',
                                {'op': 'walk', 'backend': name, 'files': fj, 'folder': folder, 'expected_folded': exp}))
                    continue
                # every listed name looks up and yields that file
                if name != 'raw':
                    for p in w:
                        want = {b for _, b in sm[fold(p)]}
                        ex, got, op = impl_lookup(bt.fs[name], p)
                        if got not in want or ex is not True:
                            out.append((f'walk-{name}-listed-name-not-found', f'{name}: listed {p!r} looks up to {got!r}',
                                        {'op': 'walk', 'backend': name, 'files': fj, 'folder': folder}))
                else:
                    for p in w:
                        ex, got, op = impl_lookup(bt.fs[name], p)
                        if got != dict(files).get(p):
                            out.append(('walk-raw-listed-name-not-found', f'raw: listed {p!r} looks up to {got!r}',
                                        {'op': 'walk', 'backend': name, 'files': fj, 'folder': folder}))
        # the file systems are read-only views: the directory handed to RawFileSystem (and the scratch folder around it)
        # holds exactly what was put there
        on_disk = sorted(os.path.relpath(os.path.join(dp, f), os.path.join(bt.dir, 'raw')).replace(os.sep, '/')
                         for dp, _, fns in os.walk(os.path.join(bt.dir, 'raw')) for f in fns)
        if on_disk != sorted(nm for nm, _ in files) or any(n not in ('a.zip', 'raw') and not (n.startswith('p_') and n.endswith('.vpk')) for n in os.listdir(bt.dir)):
            out.append(('directory-modified', f'after the lookups and walks the directory holds {on_disk}, the scratch folder {sorted(os.listdir(bt.dir))}',
                        {'op': 'backends', 'files': fj, 'seed': 0}))
    finally:
        bt.close()
    return out


# ------------------------------------------------------------------------------------------------ oracle: non-ASCII letter case
NONASCII_SETS = [
    [('Straße/Größe.txt', b'1'), ('Straße/b.txt', b'2'), ('ÉCOLE/élève.vmt', b'3'), ('top.txt', b'4')],
    [('ΣΊΣΥΦΟΣ/ς.txt', b'1'), ('İstanbul/ı.txt', b'2')],
    [('ǅ/ǆ.txt', b'1'), ('ﬁle/ﬂ.txt', b'2')],
]


def check_nonascii(root: str, files, rng: random.Random, stats=None) -> list[tuple[str, str, dict]]:
    """Letter case beyond ASCII (str.casefold: 'ß' = 'ss' = 'SS', final sigma, ligatures): the in-memory and zip
    backends must agree with the reference; VPK cannot hold such names (ASCII only), the directory backend is exact-case."""
    out: list[tuple[str, str, dict]] = []
    bt = Built(root, files, ['virtual', 'zip', 'raw'])
    fj = [(a, b.decode()) for a, b in files]
    try:
        sm = spec_map(files)
        for nm, b in files:
            for q in dict.fromkeys([nm, nm.upper(), nm.lower(), nm.casefold(), nm.swapcase(), _recase(rng, nm), nm.upper().replace('/', '\\')]):
                for name in ('virtual', 'zip'):
                    ex, got, op = impl_lookup(bt.fs[name], q)
                    if stats is not None:
                        stats('lookup_observations', 3)
                    want = {x for _, x in sm[fold(q)]} if fold(q) in sm else {None}
                    if got not in want or op not in want or ex is not (None not in want):
                        out.append((f'lookup-{name}-nonascii-case-variant', f'{name}: stored {nm!r} queried as {q!r}: exists={ex!r} get={got!r} open={op!r}',
                                    {'op': 'nonascii', 'files': fj}))
            ex, got, op = impl_lookup(bt.fs['raw'], nm)
            if got != b:
                out.append(('lookup-raw-nonascii-exact', f'raw: {nm!r}: exists={ex!r} get={got!r}', {'op': 'nonascii', 'files': fj}))
        dirs = sorted({nm.split('/')[0] for nm, _ in files if '/' in nm})
        for d in dirs:
            for f in dict.fromkeys([d, d.upper(), d.lower(), d.casefold(), d.upper() + '/']):
                exp = sorted(k for k in sm if spec_inside(f, k))
                for name in ('virtual', 'zip'):
                    w = impl_walk(bt.fs[name], f)
                    if stats is not None:
                        stats('walk_observations', 1)
                    if isinstance(w, str) or sorted(fold(p) for p in w) != exp:
                        out.append((f'walk-{name}-nonascii-case', f'{name}.walk_folder({f!r}) listed {w}, expected (folded) {exp}',
                                    {'op': 'nonascii', 'files': fj}))
    finally:
        bt.close()
    return out


# ------------------------------------------------------------------------------------------------ the canonical form, executed
def canonical_validation(ck: Ck, root: str) -> None:
    """The translator matches on a canonical form of filesys.py (translate/c19_walk.py: canonical_module + normalise).
    Its rewrite rules are meant to be equivalences of Python programs; here the rewritten module is *run*: every function
    and method of filesys.py is replaced by its canonical form, the module is compiled and executed, and its filesystem
    classes are compared with the real ones on file sets, queries, folders and chains (every public form).  A difference
    means a rewrite rule changed behaviour - then nothing the translator says about the source can be trusted."""
    import ast as _ast
    import types
    from harness.common import src_text
    name = 'srctools._c19_canonical_filesys'
    try:
        tree = c19_walk.canonical_module(_ast.parse(src_text('filesys.py')))
        tr = c19_walk.Tr(tree, 'filesys.py')
        nfn = 0
        for i, node in enumerate(tree.body):
            if isinstance(node, _ast.FunctionDef):
                tr.cls = None
                tree.body[i] = c19_walk.normalise(tr, None, node)
                nfn += 1
            elif isinstance(node, _ast.ClassDef):
                tr.cls = node
                for j, m in enumerate(node.body):
                    if isinstance(m, _ast.FunctionDef):
                        node.body[j] = c19_walk.normalise(tr, node, m)
                        nfn += 1
        _ast.fix_missing_locations(tree)
        mod = types.ModuleType(name)
        mod.__package__ = 'srctools'
        sys.modules[name] = mod
        exec(compile(tree, '<canonical form of filesys.py>', 'exec'), mod.__dict__)
    except Exception as e:      # noqa: BLE001
        sys.modules.pop(name, None)
        ck.obligation('translate:canonical-form-runs', False, f'the canonical form of filesys.py could not be built / executed: {type(e).__name__}: {e}')
        ck.tie_broken.append('canonical form of filesys.py does not run')
        return
    ck.obligation('translate:canonical-form-runs', True, f'{nfn} functions of filesys.py rewritten to their canonical form, compiled and executed')
    import srctools.filesys as real
    diffs: list[str] = []
    nobs = 0
    rng = random.Random(ck.seed ^ 0xC19CA)
    try:
        for i in range(ck.budget(10, 60)):
            files = CORPUS_SETS[i] if i < len(CORPUS_SETS) else gen_files(rng)
            if not files:
                continue
            lim, arch = rng.choice([(1024, 0), (0, 0), (3, 1), (0, None), (3, None)])
            a = Built(root, files, BACKENDS, vpk_limit=lim, vpk_arch=arch)
            b = Built(root, files, BACKENDS, vpk_limit=lim, vpk_arch=arch, mod=mod)
            try:
                qs = []
                for nm, _ in files[:4]:
                    qs += rng.sample(spellings(rng, nm), 2) + [q for q, _ in rng.sample(path_spellings(rng, nm), 2)]
                qs += ['nonexistent.txt', '', '.', files[0][0].split('/')[0]]
                folders = [f for f, _ in folder_candidates(rng, files)][:10]
                for kind in BACKENDS:
                    for q in qs:
                        ra = impl_lookup(a.fs[kind], q) + (impl_open_str(a.fs[kind], q),)
                        rb = impl_lookup(b.fs[kind], q) + (impl_open_str(b.fs[kind], q),)
                        nobs += 1
                        if ra != rb:
                            diffs.append(f'{kind}: query {q!r} over {[n for n, _ in files]}: real {ra!r}, canonical {rb!r}')
                    for f in folders:
                        wa, wb = impl_walk(a.fs[kind], f), impl_walk(b.fs[kind], f)
                        if kind == 'raw' and not isinstance(wa, str) and not isinstance(wb, str):
                            wa, wb = sorted(wa), sorted(wb)
                        nobs += 1
                        if wa != wb:
                            diffs.append(f'{kind}: walk_folder({f!r}) over {[n for n, _ in files]}: real {wa!r}, canonical {wb!r}')
                # a chain over the same members, built by each module's own FileSystemChain
                dirs = sorted({'/'.join(nm.split('/')[:k]) for nm, _ in files for k in range(1, len(nm.split('/')))})
                membs = [(rng.choice(BACKENDS[:3]), rng.choice([''] + dirs[:3] + [d + '/' for d in dirs[:1]] + ['./' + d for d in dirs[:1]]),
                          rng.random() < 0.3) for _ in range(rng.choice([2, 3, 4]))]
                ca, cb = real.FileSystemChain(), mod.FileSystemChain()
                for kind, pfx, prio in membs:
                    ca.add_sys(a.fs[kind], pfx, priority=prio)
                    cb.add_sys(b.fs[kind], pfx, priority=prio)
                cq = list(dict.fromkeys(qs + [nm.split('/', 1)[1] for nm, _ in files if '/' in nm]))
                for q in cq:
                    ra = impl_lookup(ca, q) + (impl_open_str(ca, q),)
                    rb = impl_lookup(cb, q) + (impl_open_str(cb, q),)
                    nobs += 1
                    if ra != rb:
                        diffs.append(f'chain {membs}: query {q!r}: real {ra!r}, canonical {rb!r}')
                for f in ['', '.'] + dirs[:3]:
                    for meth in ('walk_folder', 'walk_folder_repeat'):
                        try:
                            wa = [x.path for x in getattr(ca, meth)(f)]
                        except Exception as e:      # noqa: BLE001
                            wa = type(e).__name__
                        try:
                            wb = [x.path for x in getattr(cb, meth)(f)]
                        except Exception as e:      # noqa: BLE001
                            wb = type(e).__name__
                        nobs += 1
                        if wa != wb:
                            diffs.append(f'chain {membs}: {meth}({f!r}): real {wa!r}, canonical {wb!r}')
                la = [x.path for x in ca]
                lb = [x.path for x in cb]
                nobs += 1
                if la != lb:
                    diffs.append(f'chain {membs}: iter: real {la!r}, canonical {lb!r}')
            finally:
                a.close()
                b.close()
    finally:
        sys.modules.pop(name, None)
    # the same for vpk.py, whose FileInfo.read() is translated from its canonical form: containers written by the real
    # module in every placement class are read back by the canonical module
    vname = 'srctools._c19_canonical_vpk'
    try:
        vtree = c19_walk.canonical_module(_ast.parse(src_text('vpk.py')))
        vtr = c19_walk.Tr(vtree, 'vpk.py')
        for i, node in enumerate(vtree.body):
            if isinstance(node, _ast.FunctionDef):
                vtr.cls = None
                vtree.body[i] = c19_walk.normalise(vtr, None, node)
            elif isinstance(node, _ast.ClassDef):
                vtr.cls = node
                for j, m in enumerate(node.body):
                    if isinstance(m, _ast.FunctionDef):
                        node.body[j] = c19_walk.normalise(vtr, node, m)
        _ast.fix_missing_locations(vtree)
        vmod = types.ModuleType(vname)
        vmod.__package__ = 'srctools'
        sys.modules[vname] = vmod
        exec(compile(vtree, '<canonical form of vpk.py>', 'exec'), vmod.__dict__)
        for i, sized in enumerate(CORPUS_SIZED + [gen_sized_files(rng) for _ in range(ck.budget(2, 10))]):
            files = [(n, content_bytes(n, sz)) for n, sz in sized]
            if not files:
                continue
            for placement in VPK_PLACEMENTS:
                params = placement_params(rng, placement, len(files))
                d = tempfile.mkdtemp(dir=root)
                try:
                    fs = build_vpk_placement(d, files, params)
                    stored = dict(files)
                    real_read = {f.filename: f.read() for f in fs.vpk}
                    canon_read = {f.filename: f.read() for f in vmod.VPK(os.path.join(d, params['file']))}
                    nobs += len(real_read)
                    if real_read != canon_read:
                        bad = sorted(k for k in set(real_read) | set(canon_read) if real_read.get(k) != canon_read.get(k))
                        diffs.append(f'vpk.py {placement} {params}: FileInfo.read() differs between vpk.py and its canonical form for {bad[:3]}')
                    ck.count('canonical_vpk_reads', len(real_read))
                    del stored
                finally:
                    shutil.rmtree(d, ignore_errors=True)
    except Exception as e:      # noqa: BLE001
        diffs.append(f'the canonical form of vpk.py could not be built / executed: {type(e).__name__}: {e}')
    finally:
        sys.modules.pop(vname, None)
    ck.count('canonical_form_observations', nobs)
    ck.obligation('translate:canonical-form-is-equivalent', not diffs,
                  f'{nobs} observations (every lookup form and walk of the four backends and of chains; FileInfo.read() of containers in '
                  f'every placement class) agree between filesys.py / vpk.py and their canonical forms as executed' if not diffs else f'{len(diffs)} differences, first: {diffs[0][:600]}')
    if diffs:
        ck.tie_broken.append('canonical form of filesys.py behaves differently from filesys.py')


# ------------------------------------------------------------------------------------------------ oracle: file contents
# 'return the same bytes' for every place a VPK can keep a file's data: the preload bytes inside the directory tree
# (FileInfo.start_data), the block after the tree of the _dir / single file (VPK.footer_data, arch_index None), a numbered
# archive, and splits between the preload and either of the other two; sizes around the two limits (dir_data_limit,
# default 1024; the 16-bit preload size 65535).
SIZES_SMALL = [0, 1, 2, 5, 17, 100]
SIZES_LARGE = [1023, 1024, 1025, 4096, 65535, 65536, 70000]
VPK_PLACEMENTS = ['vpk-multi-default', 'vpk-multi-archive', 'vpk-multi-dirtail', 'vpk-multi-nolimit', 'vpk-single']
LOOKUP_FORMS = ['getitem', 'get_file', 'open_bin', 'open_str', 'file_open_str', 'contains', 'file_exists']


def content_bytes(name: str, size: int) -> bytes:
    """Deterministic printable content (no '\r': open_str translates newlines) that differs per name and per offset."""
    if size == 0:
        return b''
    seed = sum(name.encode()) % 251
    unit = bytes(33 + ((seed + 7 * i) % 90) for i in range(97)) + b'\n'
    out = (f'<{name}:{size}>'.encode() + unit * (size // len(unit) + 1))[:size]
    return out[:-1] + b'$' if size > 1 else out


def gen_sized_files(rng: random.Random) -> list[tuple[str, int]]:
    names = [nm for nm, _ in gen_files(rng, allow_dups=False)]
    out = []
    large = 0
    for nm in names:
        if large < 2 and rng.random() < 0.45:
            out.append((nm, rng.choice(SIZES_LARGE)))
            large += 1
        else:
            out.append((nm, rng.choice(SIZES_SMALL)))
    return out


def placement_params(rng: random.Random, placement: str, n: int) -> dict:
    """How the VPK of one placement class is written: file name (…_dir.vpk = multi-part), dir_data_limit, arch_index per file."""
    if placement == 'vpk-multi-default':
        return {'file': 'p_dir.vpk', 'limit': 1024, 'arch': [0] * n}
    if placement == 'vpk-multi-archive':
        return {'file': 'q_dir.vpk', 'limit': rng.choice([0, 1, 3, 16]), 'arch': [rng.choice([0, 0, 1, 2]) for _ in range(n)]}
    if placement == 'vpk-multi-dirtail':
        return {'file': 'r_dir.vpk', 'limit': rng.choice([0, 1, 3, 16, 1024]), 'arch': [None] * n}
    if placement == 'vpk-multi-nolimit':
        return {'file': 's_dir.vpk', 'limit': None, 'arch': [rng.choice([0, None]) for _ in range(n)]}
    return {'file': 'single.vpk', 'limit': rng.choice([1024, 4]), 'arch': [rng.choice([0, None]) for _ in range(n)]}


def build_vpk_placement(dirpath: str, files, params: dict):
    from srctools.filesys import VPKFileSystem
    from srctools.vpk import VPK
    os.makedirs(dirpath, exist_ok=True)
    vp = os.path.join(dirpath, params['file'])
    with VPK(vp, mode='w', dir_data_limit=params['limit']) as vk:
        for (n, b), ai in zip(files, params['arch']):
            vk.add_file(n, b, arch_index=ai)
    return VPKFileSystem(vp)


def vpk_place_class(info) -> str:
    pre, tail = len(info.start_data), info.arch_len
    where = 'dirtail' if info.arch_index is None else 'archive'
    if not tail:
        return 'preload-only' if pre else 'empty'
    return f'preload+{where}' if pre else f'{where}-only'


def read_forms(fs, q: str, encoding: str = 'latin-1') -> dict:
    """Every public way of asking a filesystem (or chain) for the name q.  Bytes, None (= not found), bool, or 'ExcName'."""
    def rd(opener, text=False):
        try:
            with opener() as fh:
                d = fh.read()
            return d.encode(encoding) if text else d
        except (FileNotFoundError, IsADirectoryError):
            return None
        except Exception as e:      # noqa: BLE001 - an exception is a result
            return type(e).__name__
    def ex(fn):
        try:
            return bool(fn())
        except Exception as e:      # noqa: BLE001
            return type(e).__name__
    return {
        'getitem': rd(lambda: fs[q].open_bin()),
        'get_file': rd(lambda: fs._get_file(q).open_bin()),
        'open_bin': rd(lambda: fs.open_bin(q)),
        'open_str': rd(lambda: fs.open_str(q, encoding), True),
        'file_open_str': rd(lambda: fs[q].open_str(encoding), True),
        'contains': ex(lambda: q in fs),
        'file_exists': ex(lambda: fs._file_exists(q)),
    }


def forms_problems(forms: dict, want) -> list[tuple[str, str]]:
    """(form, kind) for every form that disagrees with `want` (a set of acceptable bytes, or None = the name does not exist)."""
    out = []
    for form, got in forms.items():
        if form in ('contains', 'file_exists'):
            if got is not (want is not None):
                out.append((form, 'says-missing' if want is not None else 'says-present'))
        elif want is None:
            if got is not None:
                out.append((form, 'phantom'))
        elif got is None:
            out.append((form, 'not-found'))
        elif isinstance(got, str):
            out.append((form, 'raised-' + got))
        elif got not in want:
            w = next(iter(want))
            out.append((form, 'truncated' if len(got) < len(w) and w.startswith(got) else 'wrong-bytes'))
    return out


def check_content(root: str, sized, params: dict, stats=None, hist=None) -> list[tuple[str, str, dict]]:
    """Same bytes from every backend, for every VPK placement and every way of opening a file."""
    from srctools.filesys import FileSystemChain
    out: list[tuple[str, str, dict]] = []
    files = [(nm, content_bytes(nm, sz)) for nm, sz in sized]
    rep = {'op': 'content', 'files(name,size)': [list(x) for x in sized], 'placements': params}
    bt = Built(root, files, ['virtual', 'zip', 'raw'])
    try:
        fss = dict(bt.fs)
        for pl, prm in params.items():
            fss[pl] = build_vpk_placement(os.path.join(bt.dir, pl), files, prm)
            if hist is not None:
                for info in fss[pl].vpk:
                    hist('vpk_data_placement', vpk_place_class(info))
        for name, fs in fss.items():
            for nm, b in files:
                szc = 'large' if len(b) > 1000 else 'small'
                forms = read_forms(fs, nm)
                if stats is not None:
                    stats('content_observations', len(forms))
                for form, kind in forms_problems(forms, {b}):
                    got = forms[form]
                    out.append((f'content-{name}-{form}-{kind}',
                                f'{name}: {form}({nm!r}) gave {len(got) if isinstance(got, bytes) else got!r} bytes, the file has {len(b)}',
                                dict(rep, backend=name, name=nm, size=len(b), size_class=szc)))
            # the listed File objects open to the same bytes (walk_folder and __iter__)
            for how, lister in (('walk', lambda fs=fs: fs.walk_folder('')), ('iter', lambda fs=fs: iter(fs))):
                try:
                    listed = {}
                    for fl in lister():
                        with fl.open_bin() as fh:
                            listed[fold(fl.path)] = fh.read()
                except Exception as e:      # noqa: BLE001
                    out.append((f'content-{name}-{how}-exception', f'{name}: {how} raised {type(e).__name__}: {e}', dict(rep, backend=name)))
                    continue
                if stats is not None:
                    stats('content_observations', len(listed))
                want = {fold(nm): b for nm, b in files}
                if listed != want:
                    badn = sorted(k for k in set(listed) | set(want) if listed.get(k) != want.get(k))
                    trunc = all(k in listed and k in want and want[k].startswith(listed[k]) for k in badn)
                    out.append((f'content-{name}-{how}-listed-file-' + ('truncated' if trunc else 'differs'),
                                f'{name}: files listed by {how} open to other bytes than stored for {badn[:3]}', dict(rep, backend=name)))
            # ... and through a chain (File.open_bin -> member.open_bin(File))
            if name.startswith('vpk') and not any(k.startswith(f'content-{name}-') for k, _, _ in out):
                ch = FileSystemChain(fs)
                for nm, b in files:
                    forms = read_forms(ch, nm)
                    for form, kind in forms_problems(forms, {b}):
                        out.append((f'content-chain-over-{name}-{form}-{kind}', f'chain over {name}: {form}({nm!r}) disagrees with the stored {len(b)} bytes',
                                    dict(rep, backend=name, name=nm, size=len(b))))
    finally:
        bt.close()
    return out


# ------------------------------------------------------------------------------------------------ oracle: chains
def check_chain(root: str, sets, members, rng: random.Random, stats=None, seed=None, hist=None) -> list[tuple[str, str, dict]]:
    """members: [(backend kind, set index, prefix, priority)]. Reference computed from the file sets only."""
    from srctools.filesys import FileSystemChain
    out: list[tuple[str, str, dict]] = []
    builts = [Built(root, s) for s in sets]
    rep = {'op': 'chain', 'sets': [[(a, b.decode()) for a, b in s] for s in sets], 'members': [list(m) for m in members]}
    if seed is not None:
        rng = random.Random(seed)
        rep['seed'] = seed
    try:
        ch = FileSystemChain()
        order: list[tuple] = []
        for n_added, (kind, j, pfx, prio) in enumerate(members):
            if n_added:
                # the chain is used between the add_sys calls (a program mounts, looks something up, mounts more):
                # nothing the earlier answers leave behind may show in the later ones
                for nm, _b in sets[j][:2]:
                    read_forms(ch, nm, 'utf8')
                    read_forms(ch, nm.rsplit('/', 1)[-1], 'utf8')
                try:
                    if rng.random() < 0.5:
                        [fl.path for fl in ch.walk_folder('')]
                    else:
                        abandon_walk(lambda: ch.walk_folder(''), rng.choice(['take1', 'take2', 'any', 'close']))
                except Exception:      # noqa: BLE001 - judged below on the finished chain
                    pass
            ch.add_sys(builts[j].fs[kind], pfx, priority=prio)
            if prio:
                order.insert(0, (kind, j, pfx))
            else:
                order.append((kind, j, pfx))
        sms = [spec_map(s) for s in sets]
        if len(ch.systems) != len(order):
            out.append(('chain-mounted-count', f'{len(order)} add_sys calls left {len(ch.systems)} members in chain.systems', dict(rep)))

        def member_has(kind, j, pfx, q):
            p = _pfx(pfx)
            full = (p + '/' if p else '') + fold(q)
            if kind == 'raw':
                # exact-case backend: only exact spellings (the generator asks raw members with exact names)
                exact = (pfx.rstrip('/') + '/' if pfx else '') + q
                d = dict(sets[j])
                return {d[exact]} if exact in d else None
            return {b for _, b in sms[j][full]} if full in sms[j] else None

        # queries: names relative to each member's prefix, in several spellings
        qs: list[str] = []
        for kind, j, pfx, _ in members:
            p = _pfx(pfx)
            for nm, _b in sets[j]:
                if not p:
                    qs.append(nm)
                elif fold(nm).startswith(p + '/'):
                    qs.append(nm[len(p) + 1:])
        qs = list(dict.fromkeys(qs))
        raw_members = any(k == 'raw' for k, *_ in members)
        allq = []
        for q in qs:
            allq.append(q)
            if not raw_members:
                allq += rng.sample(spellings(rng, q), min(2, len(spellings(rng, q))))
        allq = list(dict.fromkeys(allq + ['nonexistent']))
        for q in allq:
            want = None
            for kind, j, pfx in order:
                want = member_has(kind, j, pfx, q)
                if want is not None:
                    break
            # every public lookup form of the chain against the same specification
            forms = read_forms(ch, q, 'utf8')
            got = forms['getitem']
            if stats is not None:
                stats('chain_get_observations', len(forms))
            for form, kind in forms_problems(forms, want):
                if form == 'getitem':
                    out.append(('chain-get-not-first-match', f'chain[{q!r}] gave {got!r}, the first member holding it has {want!r}',
                                dict(rep, query=q)))
                else:
                    out.append((f'chain-{form}-{kind}', f'chain: {form}({q!r}) gave {forms[form]!r}; chain[{q!r}] gives {got!r}, the first '
                                f'member holding the name has {want!r}', dict(rep, query=q)))
        # iteration = the root walk
        try:
            it_listed = [fl.path for fl in ch]
            root_listed = [fl.path for fl in ch.walk_folder('')]
            if it_listed != root_listed:
                out.append(('chain-iter-differs-from-root-walk', f'iter(chain) listed {it_listed}, walk_folder(\'\') {root_listed}', dict(rep)))
        except Exception as e:      # noqa: BLE001
            out.append(('chain-iter-exception', f'iter(chain) raised {type(e).__name__}: {e}', dict(rep)))
        # walks
        if raw_members:
            folders = [('', 'root')]
        else:
            folders = [('', 'root')]
            for kind, j, pfx, _ in members[:2]:
                p = _pfx(pfx)
                for f, c in folder_candidates(rng, sets[j]):
                    if c in ('exact', 'case-variant', 'trailing-slash') and p and fold(f).startswith(p + '/'):
                        folders.append((f[len(p) + 1:], c))
                    elif not p and c in ('exact', 'case-variant'):
                        folders.append((f, c))
            folders = list(dict.fromkeys(folders))[:6]
        def chain_exp(folder: str, order) -> dict:
            exp: dict[str, set] = {}
            for kind, j, pfx in order:
                p = _pfx(pfx)
                names = [n for n, _ in sets[j]] if kind == 'raw' else list(sms[j])
                for k in names:
                    fk = fold(k)
                    if kind == 'raw':
                        # exact-case: the prefix and folder must match exactly
                        pe = pfx.rstrip('/')
                        fe = (pe + '/' if pe else '') + folder.rstrip('/')
                        fe = fe.rstrip('/')
                        if fe and not k.startswith(fe + '/'):
                            continue
                        relk = fold(k[len(pe) + 1:] if pe else k)
                        content = {dict(sets[j])[k]}
                    else:
                        if p and not fk.startswith(p + '/'):
                            continue
                        relk = fk[len(p) + 1:] if p else fk
                        if not spec_inside(folder, relk):
                            continue
                        content = {b for _, b in sms[j][fk]}
                    exp.setdefault(relk, content)
            return exp

        # histories of walks: a walk of the chain (lazy over its members' walks) is given up, then the folder is walked completely
        if len(ch.systems) == len(order):
            hmodes = list(ABANDON_MODES)
            rng.shuffle(hmodes)
            for hi, (folder, _fcls) in enumerate(folders[:2] + [('', 'root')]):
                mode = hmodes[hi]
                which = rng.choice(['walk_folder', 'walk_folder_repeat', 'iter'] if folder == '' else ['walk_folder', 'walk_folder_repeat'])
                make = {'walk_folder': lambda: ch.walk_folder(folder), 'walk_folder_repeat': lambda: ch.walk_folder_repeat(folder),
                        'iter': lambda: iter(ch)}[which]
                hrep = dict(rep, folder=folder, history=[f'chain.{which}({folder!r}) given up ({mode})', f'complete chain.walk_folder({folder!r})'])
                exp = chain_exp(folder, order)
                try:
                    inter = abandon_walk(make, mode, len(exp), (lambda: ch.walk_folder(''), lambda: ch.walk_folder('nonexistent')))
                    after = [fl.path for fl in ch.walk_folder(folder)]
                except Exception as e:      # noqa: BLE001
                    out.append(('chain-walk-abandoned-walk-raises', f'chain: giving up {which}({folder!r}) ({mode}) and walking again raised {type(e).__name__}: {e}', hrep))
                    continue
                if hist is not None:
                    hist('chain_walk_history_mode', mode)
                if stats is not None:
                    stats('chain_walk_history_observations', 1)
                if inter is not None and which != 'walk_folder_repeat':
                    for label, listing in (('started while another walk was suspended', inter[0]), ('suspended while another walk ran', inter[1])):
                        if sorted(fold(p) for p in listing) != sorted(exp):
                            out.append(('chain-walk-interleaved-walks-interfere', f'chain.{which}({folder!r}) {label} listed {sorted(listing)}, expected {sorted(exp)}', hrep))
                if sorted(fold(p) for p in after) != sorted(exp):
                    out.append(('chain-walk-wrong-after-abandoned-walk', f'chain: after {which}({folder!r}) was given up ({mode}), the complete walk listed '
                                f'{sorted(after)}, expected {sorted(exp)}', hrep))

        for folder, fcls in folders:
            exp = chain_exp(folder, order)
            try:
                listed = []
                for fl in ch.walk_folder(folder):
                    with fl.open_bin() as fh:
                        listed.append((fl.path, fh.read()))
            except Exception as e:      # noqa: BLE001
                out.append(('chain-walk-exception', f'chain.walk_folder({folder!r}) raised {type(e).__name__}: {e}', dict(rep, folder=folder)))
                continue
            if stats is not None:
                stats('chain_walk_observations', 1)
            # walk_folder_repeat: every member's own listing in member order; the de-duplicated walk keeps, for every
            # name, the first of those
            try:
                rep_listed = []
                for fl in ch.walk_folder_repeat(folder):
                    with fl.open_bin() as fh:
                        rep_listed.append((fl.path, fh.read()))
            except Exception as e:      # noqa: BLE001
                out.append(('chain-walk-repeat-exception', f'chain.walk_folder_repeat({folder!r}) raised {type(e).__name__}: {e}', dict(rep, folder=folder)))
                rep_listed = None
            if rep_listed is not None:
                exp_multi: list[str] = []
                for kind, j, pfx in order:
                    p = _pfx(pfx)
                    if kind == 'raw':
                        pe = pfx.rstrip('/')
                        fe = ((pe + '/' if pe else '') + folder.rstrip('/')).rstrip('/')
                        exp_multi += [fold(k[len(pe) + 1:] if pe else k) for k, _ in sets[j] if not fe or k.startswith(fe + '/')]
                    else:
                        for fk in sms[j]:
                            if p and not fk.startswith(p + '/'):
                                continue
                            relk = fk[len(p) + 1:] if p else fk
                            if spec_inside(folder, relk):
                                exp_multi.append(relk)
                if sorted(fold(p) for p, _ in rep_listed) != sorted(exp_multi):
                    out.append(('chain-walk-repeat-wrong-listing', f'chain.walk_folder_repeat({folder!r}) listed {sorted(fold(p) for p, _ in rep_listed)}, '
                                f'the members hold {sorted(exp_multi)}', dict(rep, folder=folder)))
                else:
                    first: dict[str, tuple[str, bytes]] = {}
                    for p, b in rep_listed:
                        first.setdefault(fold(p), (p, b))
                    if listed != list(first.values()):
                        out.append(('chain-walk-dedup-is-not-first-of-repeat', f'chain.walk_folder({folder!r}) listed {listed}, the first entries of '
                                    f'walk_folder_repeat are {list(first.values())}', dict(rep, folder=folder)))
            got_keys = [fold(p) for p, _ in listed]
            kinds = sorted({k for k, *_ in members})
            # round 6: the names a chain lists are in the normal form (forward slashes), whatever spelling the member stores
            try:
                bs_names = [fl.path for fl in ch.walk_folder_repeat(folder) if '\\' in fl.path] + [p for p, _ in listed if '\\' in p]
            except Exception:      # noqa: BLE001 - reported above
                bs_names = []
            if bs_names:
                out.append(('chain-walk-name-has-backslash', f'chain.walk_folder / walk_folder_repeat({folder!r}) listed {sorted(set(bs_names))}: '
                            f'names with backslashes (walk_folder de-duplicates on the casefolded name only)', dict(rep, folder=folder)))
            if any(p.startswith('../') or '/../' in p for p, _ in listed):
                out.append((f'chain-walk-name-not-relative-to-prefix', f'chain.walk_folder({folder!r}) listed {[p for p, _ in listed]}',
                            dict(rep, folder=folder, expected_folded=sorted(exp))))
            elif len(set(got_keys)) != len(got_keys):
                out.append(('chain-walk-lists-a-name-twice', f'chain.walk_folder({folder!r}) listed {[p for p, _ in listed]}', dict(rep, folder=folder)))
            elif sorted(got_keys) != sorted(exp):
                out.append((f'chain-walk-wrong-set-{"+".join(kinds)}', f'chain.walk_folder({folder!r}) listed {sorted(got_keys)}, expected {sorted(exp)}',
                            dict(rep, folder=folder, expected_folded=sorted(exp))))
            else:
                for p, b in listed:
                    if b not in exp[fold(p)]:
                        out.append(('chain-walk-entry-not-from-first-member', f'chain.walk_folder({folder!r}): {p!r} has content {b!r}, first member holding it has {exp[fold(p)]!r}',
                                    dict(rep, folder=folder)))
                        continue
                    if True:
                        try:
                            with ch[p].open_bin() as fh:
                                again = fh.read()
                        except FileNotFoundError:
                            again = None
                        if again != b:
                            out.append(('chain-walk-listed-name-not-found', f'chain: listed {p!r} with content {b!r} looks up to {again!r}',
                                        dict(rep, folder=folder)))
        # the public list `systems` is edited directly after all those lookups and walks (packlist removes a member it
        # mounted with systems.pop(0)): every answer is that of the members now mounted, in their order
        if len(ch.systems) == len(order) and len(order) > 1:
            edits = ['pop-first', 'reverse', 'rotate', 'pop-last', 'swap-first-two', 'insert-copy-of-last-first']
            rng.shuffle(edits)
            done_edits: list[str] = []
            for edit in edits[:3]:
                if len(order) < 2:
                    break
                for lst in (ch.systems, order):
                    if edit == 'pop-first':
                        lst.pop(0)
                    elif edit == 'reverse':
                        lst.reverse()
                    elif edit == 'rotate':
                        lst.append(lst.pop(0))
                    elif edit == 'pop-last':
                        del lst[-1]
                    elif edit == 'swap-first-two':
                        lst[0], lst[1] = lst[1], lst[0]
                    else:
                        lst.insert(0, lst[-1])
                done_edits.append(edit)
                if hist is not None:
                    hist('chain_systems_edit', edit)
                erep = dict(rep, systems_edits=list(done_edits))
                for q in allq:
                    want = None
                    for kind, j, pfx in order:
                        want = member_has(kind, j, pfx, q)
                        if want is not None:
                            break
                    forms = read_forms(ch, q, 'utf8')
                    if stats is not None:
                        stats('chain_get_observations', len(forms))
                    bad = forms_problems(forms, want)
                    if bad:
                        out.append(('chain-stale-after-systems-edit-' + bad[0][0], f'chain after systems edits {done_edits}: {bad[0][0]}({q!r}) gave {forms[bad[0][0]]!r}, '
                                    f'the first member now holding the name has {want!r}', dict(erep, query=q)))
                        break
                exp = chain_exp('', order)
                try:
                    listed = []
                    for fl in ch.walk_folder(''):
                        with fl.open_bin() as fh:
                            listed.append((fold(fl.path), fh.read()))
                except Exception as e:      # noqa: BLE001
                    out.append(('chain-walk-exception', f'chain.walk_folder(\'\') after systems edits {done_edits} raised {type(e).__name__}: {e}', erep))
                    continue
                if sorted(k for k, _ in listed) != sorted(exp) or any(b not in exp[k] for k, b in listed):
                    out.append(('chain-stale-after-systems-edit-walk', f'chain after systems edits {done_edits}: walk_folder(\'\') listed {sorted(listed)}, '
                                f'expected {sorted((k, sorted(v)) for k, v in exp.items())}', erep))
    finally:
        for b in builts:
            b.close()
    return out


def gen_chain(rng: random.Random):
    sets = [gen_files(rng, tag=f's{j}:', allow_dups=False) for j in range(rng.choice([1, 2, 2, 3]))]
    sets = [s for s in sets if s]
    if not sets:
        return None
    members = []
    use_raw = rng.random() < 0.25
    for _ in range(rng.choice([1, 2, 3, 4])):
        j = rng.randrange(len(sets))
        kind = rng.choice(BACKENDS if use_raw else BACKENDS[:3])
        dirs = sorted({'/'.join(nm.split('/')[:k]) for nm, _ in sets[j] for k in range(1, len(nm.split('/')))})
        pfx = ''
        if dirs and rng.random() < 0.6:
            d = rng.choice(dirs)
            pfx = d if (kind == 'raw' or use_raw) else rng.choice([d, d, d + '/', _recase(rng, d), d.replace('/', '\\'), './' + d, d + '/.'])
        members.append((kind, j, pfx, rng.random() < 0.3))
    if not use_raw and rng.random() < 0.3:
        # archives mounted under one label: distinct objects with different contents that compare equal
        members = [(('ziplabel' if k == 'zip' or rng.random() < 0.4 else k), j, p, pr) for k, j, p, pr in members]
    if rng.random() < 0.25 and len(members) < 4:
        # a member that is mounted already is added again with priority (promotion)
        k, j, p, _ = rng.choice(members)
        members.append((k, j, p, True))
    return sets, members


def gen_chain_backslash(rng: random.Random):
    """Round 6: a chain in which a member mounted at the root stores its names with backslashes (all, or mixed with slashes),
    and the same file set is held by one more member (either side may have the priority)."""
    g = gen_chain(rng)
    if g is None:
        return None
    sets, members = g
    members = [((rng.choice(['virtualbs', 'virtualmix']) if k == 'virtual' else k), j, p, pr) for k, j, p, pr in members if k != 'raw'][:3]
    j = rng.randrange(len(sets))
    extra = [(rng.choice(['virtualbs', 'virtualmix']), j, '', rng.random() < 0.3),
             (rng.choice(['zip', 'vpk', 'virtual', 'virtualbs']), j, '', rng.random() < 0.3)]
    rng.shuffle(extra)
    members = members[:2] + extra
    rng.shuffle(members)
    return sets, members


CORPUS_CHAINS_BACKSLASH = [
    ([[('Materials/Dev/wall.vmt', b'override wall'), ('Scripts/extra.txt', b'extra')],
      [('materials/dev/wall.vmt', b'stock wall'), ('materials/dev/floor.vmt', b'stock floor'), ('models/props/crate.mdl', b'crate')]],
     [('virtualbs', 0, '', False), ('zip', 1, '', False)]),
    ([[('a/b/x.txt', b'one'), ('top.txt', b'two')]], [('zip', 0, '', False), ('virtualmix', 0, '', False)]),
    ([[('a/b/x.txt', b'one'), ('top.txt', b'two')]], [('virtualbs', 0, 'a', False), ('virtualmix', 0, '', True), ('vpk', 0, '', False)]),
]


# ------------------------------------------------------------------------------------------------ oracle: directory trees other tools write
VPK_TREE_LAYOUTS = ('block-per-file', 'folder-block-per-file', 'shuffled-runs', 'as-srctools-writes')


def vpk_tree_blocks(files, layout: str, rng: random.Random):
    """[(ext, [(folder, [(stem, data)])])]: the directory tree of a VPK, which the format leaves free to list an extension in
    several blocks and a folder several times under one extension (srctools' own writer never does; other tools do)."""
    from srctools.vpk import _get_file_parts
    parts = [(_get_file_parts(n), b) for n, b in files]      # (folder, stem, ext)
    order = list(parts)
    rng.shuffle(order)
    if layout == 'as-srctools-writes':
        order.sort(key=lambda x: (x[0][2], x[0][0], x[0][1]))
    elif layout == 'folder-block-per-file':
        exts = list(dict.fromkeys(x[0][2] for x in order))
        order.sort(key=lambda x: exts.index(x[0][2]))
    blocks: list = []
    for (folder, stem, ext), b in order:
        new_ext = not blocks or blocks[-1][0] != ext or layout == 'block-per-file'
        if new_ext:
            blocks.append((ext, []))
        fblocks = blocks[-1][1]
        if not fblocks or fblocks[-1][0] != folder or layout in ('block-per-file', 'folder-block-per-file'):
            fblocks.append((folder, []))
        fblocks[-1][1].append((stem, b))
    return blocks


def vpk_tree_repeats(blocks) -> tuple[int, int]:
    """(extensions listed in more than one block, folders listed more than once under one extension)."""
    exts = [e for e, _ in blocks]
    per_ext: dict = {}
    for e, fb in blocks:
        per_ext.setdefault(e, []).extend(f for f, _ in fb)
    return (len(exts) - len(set(exts)), sum(len(v) - len(set(v)) for v in per_ext.values()))


def encode_vpk_tree(blocks) -> bytes:
    """A version-1 directory file, every file's bytes as preload data in the directory (hand-encoded, not by VPK.write_dirfile)."""
    import struct
    import zlib

    def nul(x: str) -> bytes:
        return (x or ' ').encode('ascii') + b'\0'
    tree = bytearray()
    for ext, fblocks in blocks:
        tree += nul(ext)
        for folder, entries in fblocks:
            tree += nul(folder)
            for stem, b in entries:
                tree += nul(stem) + struct.pack('<IHHIIH', zlib.crc32(b), len(b), 0x7fff, 0, 0, 0xffff) + b
            tree += b'\0'
        tree += b'\0'
    tree += b'\0'
    return struct.pack('<III', 0x55AA1234, 1, len(tree)) + bytes(tree)


def check_vpk_trees(root: str, files, seed: int, stats=None, hist=None) -> list[tuple[str, str, dict]]:
    """VPKFileSystem over hand-encoded directory trees holding `files` (no case duplicates) answers like the in-memory and zip
    backends holding the same set, in every layout of the tree."""
    from srctools.filesys import VPKFileSystem
    out: list[tuple[str, str, dict]] = []
    rng = random.Random(seed)
    sm = spec_map(files)
    fj = [(a, b.decode()) for a, b in files]
    bt = Built(root, files, ['virtual', 'zip'])
    try:
        for layout in VPK_TREE_LAYOUTS:
            blocks = vpk_tree_blocks(files, layout, rng)
            rep_e, rep_f = vpk_tree_repeats(blocks)
            cls = ('repeated-ext-and-folder-blocks' if rep_e and rep_f else 'repeated-ext-blocks' if rep_e else
                   'repeated-folder-blocks' if rep_f else 'no-repeated-blocks')
            if hist is not None:
                hist('vpk_tree_layout_class', cls)
            rep = {'op': 'vpk-tree', 'files': fj, 'seed': seed, 'layout': layout,
                   'tree(ext,[(folder,[name])])': [(e, [(f, [st for st, _ in en]) for f, en in fb]) for e, fb in blocks]}
            vp = os.path.join(bt.dir, f'h{VPK_TREE_LAYOUTS.index(layout)}_dir.vpk')
            with open(vp, 'wb') as fh:
                fh.write(encode_vpk_tree(blocks))
            try:
                fs = VPKFileSystem(vp)
                n_held = len(fs.vpk)
            except Exception as e:      # noqa: BLE001
                out.append((f'lookup-vpk-foreign-tree-{cls}-not-readable', f'vpk over a hand-encoded tree ({layout}): {type(e).__name__}: {e}', rep))
                continue
            if n_held != len(files):
                out.append((f'lookup-vpk-foreign-tree-{cls}-file-count', f'vpk over a hand-encoded tree ({layout}) of {len(files)} files holds {n_held}: '
                            f'{sorted(f.filename for f in fs.vpk)}', rep))
            for nm, b in files:
                for q in [nm] + rng.sample(spellings(rng, nm), 1):
                    got = {k: impl_lookup(x, q) for k, x in (('vpk', fs), ('virtual', bt.fs['virtual']), ('zip', bt.fs['zip']))}
                    if stats is not None:
                        stats('vpk_tree_observations', 3)
                    if got['vpk'] != (True, b, b) or got['vpk'] != got['virtual'] or got['vpk'] != got['zip']:
                        out.append((f'lookup-vpk-foreign-tree-{cls}', f'hand-encoded tree ({layout}), stored {nm!r} queried as {q!r}: (exists, fs[q], open_bin) = '
                                    + ', '.join(f'{k}={v!r}' for k, v in got.items()), dict(rep, query=q)))
            for folder, fcls in [('', 'root')] + [x for x in folder_candidates(rng, files) if x[1] in ('exact', 'case-variant', 'backslash')][:4]:
                exp = sorted(k for k in sm if spec_inside(folder, k))
                got = {k: impl_walk(x, folder) for k, x in (('vpk', fs), ('virtual', bt.fs['virtual']), ('zip', bt.fs['zip']))}
                if stats is not None:
                    stats('vpk_tree_observations', 3)
                norm = {k: (v if isinstance(v, str) else sorted(fold(p) for p in v)) for k, v in got.items()}
                if norm['vpk'] != exp or norm['virtual'] != exp or norm['zip'] != exp:
                    out.append((f'walk-vpk-foreign-tree-{cls}', f'hand-encoded tree ({layout}): walk_folder({folder!r}) listed '
                                + ', '.join(f'{k}={v!r}' for k, v in norm.items()) + f', expected {exp}', dict(rep, folder=folder)))
    finally:
        bt.close()
    return out


CORPUS_TREE_SETS = [
    [('materials/dev/wall.vmt', b'w'), ('models/chair.mdl', b'c'), ('materials/dev/floor.vmt', b'f'), ('models/crate.mdl', b'k'),
     ('materials/other/glass.vmt', b'g'), ('models/props/barrel.mdl', b'b'), ('readme.txt', b'r')],
    [('a/x.txt', b'1'), ('a/y.txt', b'2'), ('b/x.txt', b'3'), ('a/z.vmt', b'4'), ('noext', b'5'), ('a/noext2', b'6'), ('.dot', b'7')],
]


CORPUS_CHAINS = [
    ([[('materials/Brick/wall.vmt', b'1'), ('materials/a.vmt', b'3'), ('top.txt', b'4')]], [('virtual', 0, 'Materials', False)]),
    ([[('materials/Brick/wall.vmt', b'1'), ('materials/a.vmt', b'3'), ('top.txt', b'4')]], [('vpk', 0, 'materials', False)]),
    ([[('a/x.txt', b'one'), ('b/y.txt', b'two')], [('x.txt', b'three'), ('a/x.txt', b'four')]],
     [('zip', 0, 'a', False), ('virtual', 1, '', False), ('vpk', 1, 'a', True)]),
    ([[('a/x.txt', b'one'), ('b/y.txt', b'two')], [('x.txt', b'three'), ('a/x.txt', b'four')]],
     [('ziplabel', 0, '', False), ('ziplabel', 1, '', False)]),
    ([[('a/x.txt', b'one'), ('b/y.txt', b'two')], [('x.txt', b'three'), ('a/x.txt', b'four')]],
     [('virtual', 1, '', False), ('zip', 0, '', False), ('zip', 0, '', True)]),
]


CORPUS_SIZED = [
    [('models/props/crate.mdl', 1025), ('sound/ambient/hum.wav', 65536), ('top.txt', 5), ('materials/Dev/Wall.vmt', 0)],
    [('a/big.bin', 70000), ('a/edge.bin', 65535), ('b/limit.txt', 1024), ('b/one.txt', 1)],
]


def shrink_files(files, pred):
    cur = list(files)
    changed = True
    while changed and len(cur) > 1:
        changed = False
        for i in range(len(cur)):
            cand = cur[:i] + cur[i + 1:]
            if cand and pred(cand):
                cur = cand
                changed = True
                break
    return cur


def vpk_forgets_order(root: str) -> bool:
    """Two VPKs holding 'a/x.txt' and 'A/x.txt', added in either order: are the files on disk the same bytes?"""
    from srctools.vpk import VPK
    blobs = []
    for order in ([('a/x.txt', b'first'), ('A/x.txt', b'second')], [('A/x.txt', b'second'), ('a/x.txt', b'first')]):
        d = tempfile.mkdtemp(dir=root)
        try:
            vp = os.path.join(d, 'p_dir.vpk')
            with VPK(vp, mode='w') as vk:
                for n, b in order:
                    vk.add_file(n, b)
            blobs.append({f: open(os.path.join(d, f), 'rb').read() for f in sorted(os.listdir(d))})
        finally:
            shutil.rmtree(d, ignore_errors=True)
    return blobs[0] == blobs[1]


def search(ck: Ck, root: str) -> None:
    found: dict[str, tuple[str, dict]] = {}

    def stats(k, n):
        ck.count(k, n)

    hangs = [0]

    def note(viols, shrinker=None):
        for key, what, rep in viols:
            size = len(repr(rep))
            if key.startswith('hang-'):
                hangs[0] += 1
            if key not in found or size < len(repr(found[key][1])):
                found[key] = (what, rep)

    def unshrinkable(key):
        return key.startswith(('hang-', 'exception-'))

    n = ck.budget(50, 300)
    for i in range(n):
        files = CORPUS_SETS[i] if i < len(CORPUS_SETS) else gen_files(ck.rng)
        if not files:
            continue
        ck.count('file_sets')
        ck.hist('file_set_size', len(files))
        ck.hist('file_set_case_duplicates', any(len(v) > 1 for v in spec_map(files).values()))
        ck.hist('file_set_max_depth', max(nm.count('/') for nm, _ in files))
        if len(files) > 1:
            ck.seen(('set', tuple(nm for nm, _ in files)))
        seed = ck.rng.randrange(1 << 30)
        if hangs[0] >= MAX_HANGS:
            break
        brep = {'op': 'backends', 'files': [(a, b.decode()) for a, b in files], 'seed': seed}
        v = guarded('backends', lambda: check_backends(root, files, random.Random(seed), stats, ck.hist), brep)
        for key in {k for k, _, _ in v}:
            if unshrinkable(key):
                note([x for x in v if x[0] == key])
                continue
            if key in found and len(found[key][1].get('files', [])) <= 2:
                continue
            small = shrink_files(files, lambda fs, key=key: any(k == key for k, _, _ in guarded('backends', lambda: check_backends(root, fs, random.Random(seed)), {})))
            v2 = [x for x in guarded('backends', lambda: check_backends(root, small, random.Random(seed)), {}) if x[0] == key]
            note(v2 or [x for x in v if x[0] == key])
    # contents: every VPK placement, sizes around the preload limits, every way of opening
    for i in range(ck.budget(8, 60)):
        sized = CORPUS_SIZED[i] if i < len(CORPUS_SIZED) else gen_sized_files(ck.rng)
        if not sized:
            continue
        prng = random.Random(ck.rng.randrange(1 << 30))
        params = {pl: placement_params(prng, pl, len(sized)) for pl in VPK_PLACEMENTS}
        ck.count('sized_file_sets')
        for _, sz in sized:
            ck.hist('content_size', sz)
        if len(sized) > 1:
            ck.seen(('sized', tuple(sized), repr(params)))
        if hangs[0] >= MAX_HANGS:
            break
        crep = {'op': 'content', 'files(name,size)': [list(x) for x in sized], 'placements': params}
        v = guarded('content', lambda: check_content(root, sized, params, stats, ck.hist), crep)
        for key in {k for k, _, _ in v}:
            if unshrinkable(key):
                note([x for x in v if x[0] == key])
                continue
            if key in found and len(found[key][1].get('files(name,size)', [])) <= 2:
                continue
            cur_s, cur_p = list(sized), params
            changed = True
            while changed and len(cur_s) > 1:
                changed = False
                for j in range(len(cur_s)):
                    cs = cur_s[:j] + cur_s[j + 1:]
                    cp = {pl: dict(prm, arch=prm['arch'][:j] + prm['arch'][j + 1:]) for pl, prm in cur_p.items()}
                    if any(k == key for k, _, _ in guarded('content', lambda: check_content(root, cs, cp), {})):
                        cur_s, cur_p, changed = cs, cp, True
                        break
            v2 = [x for x in guarded('content', lambda: check_content(root, cur_s, cur_p), {}) if x[0] == key]
            note(v2 or [x for x in v if x[0] == key])
    # the known finding case-duplicate-winner-vpk-differs: theorem c19_case_duplicate_winner_needs_order says that no
    # reader of a container that is the same for both insertion orders can serve "the file stored last"; here: the real
    # archives written in the two orders are byte-identical (VPK.write_dirfile sorts) - evidence, not an obligation
    try:
        with time_limit(CASE_LIMIT):
            ck.extra['vpk_archive_forgets_insertion_order'] = vpk_forgets_order(root)
    except (ImplHang, Exception) as e:      # noqa: BLE001
        ck.extra['vpk_archive_forgets_insertion_order'] = f'not determined: {type(e).__name__}'
    for files in NONASCII_SETS:
        ck.count('file_sets_nonascii')
        nseed = ck.rng.randrange(1 << 30)
        note(guarded('nonascii', lambda: check_nonascii(root, files, random.Random(nseed), stats),
                     {'op': 'nonascii', 'files': [(a, b.decode()) for a, b in files]}))
    ck.sample({'file_set': [nm for nm, _ in CORPUS_SETS[0]], 'folder_arguments': folder_candidates(random.Random(1), CORPUS_SETS[0])[:12],
               'query_spellings_of_first': spellings(random.Random(1), CORPUS_SETS[0][0][0])})
    # chains: random members; for small chains every ordering
    m = ck.budget(50, 350)
    for i in range(m):
        g = CORPUS_CHAINS[i] if i < len(CORPUS_CHAINS) else gen_chain(ck.rng)
        if g is None:
            continue
        sets, members = g
        orders = list(itertools.permutations(members)) if len(members) <= (4 if ck.thorough else 3) else [tuple(members)]
        if len(orders) > 6 and not ck.thorough:
            orders = [orders[0]] + ck.rng.sample(orders[1:], 5)
        for perm in orders:
            ck.count('chains')
            ck.hist('chain_members', len(perm))
            ck.hist('chain_prefixed_members', sum(1 for x in perm if x[2]))
            ck.hist('chain_priority_members', sum(1 for x in perm if x[3]))
            ck.hist('chain_member_kinds', '+'.join(sorted({x[0] for x in perm})))
            ck.hist('chain_same_label_archives', sum(1 for x in perm if x[0] == 'ziplabel'))
            ck.hist('chain_member_added_twice', len(perm) - len({x[:3] for x in perm}))
            if len(perm) > 1:
                ck.seen(('chain', perm, tuple(tuple(nm for nm, _ in s) for s in sets)))
            seed = ck.rng.randrange(1 << 30)
            if hangs[0] >= MAX_HANGS:
                break
            note(guarded('chain', lambda: check_chain(root, sets, list(perm), None, stats, seed, ck.hist),
                         {'op': 'chain', 'sets': [[(a, b.decode()) for a, b in s] for s in sets], 'members': [list(m) for m in perm], 'seed': seed}))
    # round 6: chains whose root-mounted members store backslash-spelled names; VPKs with directory trees other tools write
    for i in range(ck.budget(30, 200)):
        g = CORPUS_CHAINS_BACKSLASH[i] if i < len(CORPUS_CHAINS_BACKSLASH) else gen_chain_backslash(ck.rng)
        if g is None:
            continue
        sets, members = g
        ck.count('chains')
        ck.count('chains_with_backslash_stored_names')
        ck.hist('chain_member_kinds', '+'.join(sorted({x[0] for x in members})))
        ck.seen(('chain', tuple(members), tuple(tuple(nm for nm, _ in s) for s in sets)))
        seed = ck.rng.randrange(1 << 30)
        if hangs[0] >= MAX_HANGS:
            break
        note(guarded('chain', lambda: check_chain(root, sets, list(members), None, stats, seed, ck.hist),
                     {'op': 'chain', 'sets': [[(a, b.decode()) for a, b in s] for s in sets], 'members': [list(m) for m in members], 'seed': seed}))
    for i in range(ck.budget(25, 150)):
        files = CORPUS_TREE_SETS[i] if i < len(CORPUS_TREE_SETS) else gen_files(ck.rng, allow_dups=False)
        if not files:
            continue
        ck.count('vpk_tree_file_sets')
        seed = ck.rng.randrange(1 << 30)
        if hangs[0] >= MAX_HANGS:
            break
        v = guarded('vpk-tree', lambda: check_vpk_trees(root, files, seed, stats, ck.hist), {'op': 'vpk-tree', 'files': [(a, b.decode()) for a, b in files], 'seed': seed})
        for key in {k for k, _, _ in v}:
            if unshrinkable(key) or (key in found and len(found[key][1].get('files', [])) <= 3):
                note([x for x in v if x[0] == key])
                continue
            small = shrink_files(files, lambda fs, key=key: any(k == key for k, _, _ in guarded('vpk-tree', lambda: check_vpk_trees(root, fs, seed), {})))
            v2 = [x for x in guarded('vpk-tree', lambda: check_vpk_trees(root, small, seed), {}) if x[0] == key]
            note(v2 or [x for x in v if x[0] == key])
    ck.sample({'vpk_directory_tree_layouts': list(VPK_TREE_LAYOUTS), 'backslash_member_kinds': ['virtualbs', 'virtualmix'],
               'example_tree': [(e, [(f, [st for st, _ in en]) for f, en in fb]) for e, fb in vpk_tree_blocks(CORPUS_TREE_SETS[0], 'shuffled-runs', random.Random(1))]})
    ck.sample({'walk_history': {'ways_of_giving_a_walk_up': list(ABANDON_MODES), 'example': ['vpk.walk_folder(\'materials\') given up after 1 item (take1)',
                                'then the complete vpk.walk_folder(\'MATERIALS\\\\\') and, for the root, iter(vpk)']},
               'chain_systems_edits': ['pop-first', 'reverse', 'rotate', 'pop-last', 'swap-first-two', 'insert-copy-of-last-first']})
    ck.sample({'chain_members(kind,set,prefix,priority)': [list(x) for x in CORPUS_CHAINS[2][1]],
               'sets': [[nm for nm, _ in s] for s in CORPUS_CHAINS[2][0]]})
    for key, (what, rep) in sorted(found.items()):
        ck.violation(key, what, rep)
    ck.extra['search_violation_keys'] = sorted(found)


# ------------------------------------------------------------------------------------------------ round 6: two source shapes
def _method_ast(mod, cls: str, meth: str):
    import ast
    import inspect
    tree = ast.parse(inspect.getsource(mod))
    for c in tree.body:
        if isinstance(c, ast.ClassDef) and c.name == cls:
            for f in c.body:
                if isinstance(f, (ast.FunctionDef, ast.AsyncFunctionDef)) and f.name == meth:
                    return f
    return None


def vpk_reader_tree_level_shape(fn) -> tuple[bool, str]:
    """VPK.load_dirfile, inside the loops that read the tree: every `<dict>[key] = {}` (a level of _fileinfo created) stands in
    an `except KeyError` handler of a try that reads the same `<dict>[key]`, or under `if key not in <dict>`: a level is
    created only when it is missing (merge-or-create), so a repeated extension / folder block extends the earlier one."""
    import ast
    if fn is None:
        return False, 'VPK.load_dirfile not found'
    creates: list[tuple[str, bool]] = []

    def sub_key(t) -> str:
        return ast.dump(ast.Subscript(value=t.value, slice=t.slice, ctx=ast.Load()))

    def visit(node, guards: frozenset, in_loop: bool) -> None:
        if isinstance(node, ast.Assign) and isinstance(node.value, (ast.Dict, ast.Call)) and in_loop:
            empty = (isinstance(node.value, ast.Dict) and not node.value.keys) or \
                    (isinstance(node.value, ast.Call) and isinstance(node.value.func, ast.Name) and node.value.func.id in ('dict', 'OrderedDict') and not node.value.args)
            if empty:
                for t in node.targets:
                    if isinstance(t, ast.Subscript):
                        creates.append((ast.unparse(t), sub_key(t) in guards))
        if isinstance(node, ast.Try):
            reads = {ast.dump(ast.Subscript(value=x.value, slice=x.slice, ctx=ast.Load())) for b in node.body for x in ast.walk(b)
                     if isinstance(x, ast.Subscript) and isinstance(x.ctx, ast.Load)}
            for b in node.body + node.orelse + node.finalbody:
                visit(b, guards, in_loop)
            for h in node.handlers:
                names = {n.id for n in ast.walk(h.type) if isinstance(n, ast.Name)} if h.type is not None else set()
                g = guards | reads if ('KeyError' in names or 'LookupError' in names) else guards
                for b in h.body:
                    visit(b, frozenset(g), in_loop)
            return
        if isinstance(node, ast.If):
            t = node.test
            g = guards
            if isinstance(t, ast.Compare) and len(t.ops) == 1 and isinstance(t.ops[0], ast.NotIn):
                g = guards | {ast.dump(ast.Subscript(value=t.comparators[0], slice=t.left, ctx=ast.Load()))}
            for b in node.body:
                visit(b, frozenset(g), in_loop)
            for b in node.orelse:
                visit(b, guards, in_loop)
            return
        loop = in_loop or isinstance(node, (ast.For, ast.While))
        for ch in ast.iter_child_nodes(node):
            visit(ch, guards, loop)

    visit(fn, frozenset(), False)
    bad = [c for c, ok in creates if not ok]
    return (not bad, f'levels created: {[c for c, _ in creates]}; created without a check that the key is missing: {bad}')


def chain_walk_repeat_name_shape(fn) -> tuple[bool, str]:
    """FileSystemChain.walk_folder_repeat: on every branch, what is yielded is File(self, <name>, ...) with <name> computed from an
    expression that contains .replace('\\', '/') (the listed names are in the forward-slash normal form walk_folder de-duplicates on)."""
    import ast
    if fn is None:
        return False, 'FileSystemChain.walk_folder_repeat not found'

    def normalises(e, depth=0) -> bool:
        for x in ast.walk(e):
            if (isinstance(x, ast.Call) and isinstance(x.func, ast.Attribute) and x.func.attr == 'replace' and len(x.args) == 2
                    and all(isinstance(a, ast.Constant) for a in x.args) and x.args[0].value == '\\' and x.args[1].value == '/'):
                return True
        if isinstance(e, ast.Name) and depth < 3:
            defs = [a.value for a in ast.walk(fn) if isinstance(a, ast.Assign) and any(isinstance(t, ast.Name) and t.id == e.id for t in a.targets)]
            return bool(defs) and all(normalises(d, depth + 1) for d in defs)
        return False
    ys = [x for x in ast.walk(fn) if isinstance(x, (ast.Yield, ast.YieldFrom))]
    bad = []
    for y in ys:
        v = y.value
        if isinstance(y, ast.Yield) and isinstance(v, ast.Call) and isinstance(v.func, ast.Name) and v.func.id == 'File' and len(v.args) >= 2 and normalises(v.args[1]):
            continue
        bad.append(ast.unparse(y))
    return (bool(ys) and not bad, f'{len(ys)} yields; yields whose name is not passed through replace(backslash, slash): {bad}')


# ------------------------------------------------------------------------------------------------ main
def run(ck: Ck) -> None:
    ck.rule = ('file sets: 1-8 names built from a small vocabulary of folder and file names with mixed case, nesting 0-3, '
               'names that are string prefixes of others (mat / materials), dot-files, extension-less names and (15%) duplicates '
               'differing only in case; queries: exact, lower, upper, swapped and random case, each with /, \\ and mixed '
               'separators, the same path with "./", "//", "/./", "x/../x", a trailing "/" or "/." (each also with backslashes and '
               're-cased), plus absent names, "", "."; folders: root, every ancestor folder exact / trailing slash / re-cased / '
               'backslashed / truncated (no folder boundary) / un-normalised (dot, doubled slash, dot-dot, ".", "./"), file names, '
               'missing; the directory backend gets the exact-case subset in either slash; three fixed non-ASCII sets (ß/SS, final '
               'sigma, dotted I, ligatures) for the in-memory and zip backends; chains: 1-4 members over 1-3 file sets, optional '
               'subfolder prefix in several spellings (exact, trailing slash, re-cased, backslashed, "./d", "d/."), priority flags, '
               'every ordering of chains of up to 3 (thorough: 4) members; walk_folder and walk_folder_repeat; every public form '
               '([], in, _get_file, _file_exists, open_bin, open_str, File.open_str, iter) on backends and chains; VPKs written in every data '
               'placement (preload only, directory tail, numbered archive, single file, no limit) with file sizes 0-100 and around 1024 / 65535; '
               'chains also over archives mounted under one label (distinct objects that compare equal), a mounted member re-added with priority, and '
               'lookups / walks between the add_sys calls. '
               'Round 6: chains in which a member mounted at the root is an in-memory file system whose stored names are spelt with backslashes '
               '(all, or alternating with slashes) next to another member holding the same set (3 fixed + 30 random chains); VPK directory files '
               'encoded by hand (not by VPK.write_dirfile) in 4 layouts of the extension/folder/file tree - one extension block per file, one folder '
               'block per file, shuffled runs (repeated extension and folder blocks interleaved), srctools\' own sorted layout - over 2 fixed + 25 '
               'random file sets, VPKFileSystem compared with the in-memory and zip backends holding the same set on lookups and walks. '
               'Histories (round 5): on every backend of every file set, for the root and up to three folders, a walk (or iter) is given up in one of '
               '9 ways (0, 1, 2 or all-but-one items taken, any(), exception in the loop body, throw(), close(), a second walk plus walks of other '
               'folders while the first is suspended), then the folder is walked completely under another spelling and the object is iterated; every '
               'absent name is looked up again in every form after all forms failed once; the same on chains (walk_folder, walk_folder_repeat, iter), '
               'where the walk between add_sys calls is given up half of the time; after all lookups and walks three random direct edits of '
               'chain.systems (pop(0), reverse, rotate, del [-1], swap, insert a copy) each followed by every lookup form of every name and the root walk. '
               'Distinct = different name list (sets) or member tuple (chains); non-trivial = at least two files / two members.')
    ck.trusted.append('hand-written model SM/FsChain.v interpreted over Gen/FsWalk_gen.v (tied by correspondence on every run)')
    ck.trusted.append('zipfile, srctools.vpk.VPK writer/reader and the OS directory tree used to build the real backends; posixpath')
    ck.trusted.append('vpk.py VPK.fileinfos is read only when walk_folder calls it (shape check of its directory pre-filter)')
    ck.trusted.append('translate/c19_walk.py matches on a canonical form: its rewrite rules (inlining of single-return helpers, single-assignment '
                      'locals and module constants, loop/comprehension, if-continue, try/else, for/else, keyword arguments, SSA renaming) are '
                      'equivalences of Python programs; the rewritten module is executed and compared with the real one on every run '
                      '(canonical_validation), the rules themselves are not proved')
    ck.trusted.append('translate/c19_state.py: the census of stores is syntactic (assignments, mutating method calls, setattr, global/nonlocal, memoising '
                      'decorators; aliases through assignments / loops / with / get / setdefault); Python locals and generator frames die with the call; '
                      'os, zipfile and io keep no state that matters between the calls')
    ck.trusted.append('vpk.py FileInfo.read() is translated (slice displacements, homes, tests); FileInfo.write (where the bytes are put) and the '
                      'name of the numbered archive that is opened are trusted here (property C13)')
    ck.assumptions.append('case folding is modelled for ASCII only (non-ASCII casefold: oracle on the in-memory and zip backends); stored names are clean relative paths using "/"')
    ck.assumptions.append('the platform is POSIX with a case-sensitive file system (RawFileSystem: exact names only; "\\" is converted by the library, not by the OS)')
    ck.assumptions.append('walk composition theorems: member prefixes and the folder argument spell an empty or clean relative path (redundant separators and "." segments allowed, either slash, any case; no ".."); for directory members the folder is cleanly spelt and exact (every stored file below it up to case lies below it exactly)')
    root = str(ck.scratch)
    _ta = time.time()
    ok_s = ck.translate('FsState_gen', c19_state.translate)
    ok_t = ck.translate('FsWalk_gen', c19_walk.translate)
    # the census of stores is generated, built and judged also when the shape translator fails closed
    built_any = (ok_t or ok_s) and ck.build(['Props/C19.vo'] + (['Gen/FsWalk_gen.vo'] if ok_t else []) + (['Gen/FsState_gen.vo'] if ok_s else []))
    built = bool(ok_t and built_any)
    built_s = bool(ok_s and built_any)
    _tb = time.time()
    failed_state: list[str] = []
    fut_state = None
    sobs: dict = {}
    if built_s:
        from concurrent.futures import ThreadPoolExecutor as _TPE
        spool = _TPE(max_workers=1)
        fut_state = spool.submit(ck.coq_scratch, ''.join(f'Require Import {i}.\n' for i in STATE_IMPORTS + ['SV.SM.FsStateProofs', 'SV.SM.FsChainProperty', 'SV.SM.FsChainPropertyProofs', 'SV.Props.C19'])
                                 + INSTANCE_THEOREM_STATE, 'inst_state', 300)
        sobs = {}
        for short in STATE_SHORTS:
            sobs[f'{short}_walks_keep_no_state'] = f'walk_keeps_no_state {short}_census'
            sobs[f'{short}_lookups_keep_no_state'] = f'lookups_keep_no_state {short}_census'
        sobs['filesys_helpers_keep_no_state'] = 'census_clean helpers_census'
        sobs['vpk_reader_keeps_no_state'] = 'census_clean vpk_reader_census'
        sobs['census_hypothesis_holds_for_the_generated_census'] = f'state_ok {TODAY_CENSUS}'
        ck.extra['state_census_stores'] = ck.extra.get('translated', {}).get('FsState_gen', {}).get('stores', {})
        if not built:
            # the shape translator failed closed: the census is judged on its own
            failed_state = [oname for oname, ok in ck.instance_obligations(STATE_IMPORTS, sobs, 'inst_state_obs').items() if not ok]
    if built:
        # the two instance theorems are checked by their own coqc processes while the main thread goes on
        from concurrent.futures import ThreadPoolExecutor
        pool = ThreadPoolExecutor(max_workers=3)
        fut_thm = pool.submit(ck.theorems, 'Props/C19.v')      # Print Assumptions of every theorem (its obligations are moved to the front below)
        fut_compose = pool.submit(ck.coq_scratch, ''.join(f'Require Import {i}.\n' for i in IMPORTS + ['SV.SM.FsChainProofs', 'SV.SM.FsChainCompose', 'SV.SM.FsChainFormsProofs', 'SV.SM.FsChainWhole', 'SV.SM.FsChainAdd', 'SV.SM.FsChainWalkGen', 'SV.SM.FsChainNoise', 'SV.Props.C19'])
                                  + INSTANCE_THEOREM, 'inst_compose', 300)
        fut_forms = pool.submit(ck.coq_scratch, ''.join(f'Require Import {i}.\n' for i in IMPORTS + ['SV.SM.FsChainProofs', 'SV.SM.FsChainCompose', 'SV.SM.FsChainFormsProofs', 'SV.SM.FsChainWhole', 'SV.SM.FsChainReadProofs', 'SV.SM.FsChainMixed', 'SV.SM.FsChainAdd', 'SV.SM.FsChainProperty', 'SV.Props.C19']
                                                                                                         + (['SV.SM.FsState', 'SV.SM.FsStateProofs', 'SV.Gen.FsState_gen'] if built_s else []))
                                + INSTANCE_THEOREM_FORMS + (INSTANCE_THEOREM_FORMS_STATE if built_s else ''), 'inst_forms', 300)
        _tc = time.time()
        obs = {}
        for short, cfg in (('virtual', 'virtual_cfg'), ('zip', 'zip_cfg'), ('vpk', 'vpk_cfg')):
            obs[f'{short}_keys_case_and_slash_insensitive'] = f'backend_keys_ok {cfg}'
            obs[f'{short}_walk_folder_boundary'] = f'negb (folder_plain_prefix {cfg})'
            obs[f'{short}_walk_compares_normalised_key'] = f'walk_subject_normalised {cfg}'
            obs[f'{short}_walk_case_insensitive'] = f'negb (folder_not_folded {cfg})'
            obs[f'{short}_walk_sound_form'] = f'walk_ok {cfg}'
            obs[f'{short}_walk_iterates_folded_dict'] = f'walk_over_dict {cfg}'
            obs[f'{short}_walk_no_exact_case_prefilter'] = f'negb (prefilter_case_sensitive {cfg})'
            obs[f'{short}_walk_normalises_folder_spelling'] = f'walk_norm {cfg}'
        obs['virtual_walk_root_is_not_dot'] = 'negb (folder_root_is_dot virtual_cfg)'
        for short, cfg in (('virtual', 'virtual_cfg'), ('zip', 'zip_cfg'), ('vpk', 'vpk_cfg')):
            obs[f'{short}_keys_normalise_every_spelling'] = f'backend_keys_norm {cfg}'
        obs['raw_delegates_to_os'] = 'raw_is_os_exact'
        for what in ('get', 'exists', 'open', 'walk'):
            obs[f'raw_{what}_converts_slashes_only'] = f'raw_ops_ok raw_{what}_ops'
        obs['chain_priority_inserts_first'] = 'match chain_prio_action with InsertAt O => true | _ => false end'
        obs['chain_plain_appends_last'] = 'match chain_plain_action with Append => true | _ => false end'
        obs['chain_add_sys_mounts_every_member'] = 'guard_ok chain_add_guard'
        obs['chain_add_sys_history_in_priority_order'] = 'andb (guard_ok chain_add_guard) (actions_ok chain_prio_action chain_plain_action)'
        obs['raw_walk_lists_names_relative_to_root'] = 'raw_rel_ok raw_walk_relmode'
        obs['property_hypotheses_hold_for_the_generated_configuration'] = f'source_ok {TODAY_CFG}'
        obs['chain_get_in_member_order'] = 'chain_get_forward'
        obs['chain_get_joins_prefix'] = 'match chain_get_join_ops with cons OSlash nil => true | _ => false end'
        obs['chain_walk_in_member_order'] = 'chain_walk_forward'
        obs['chain_walk_joins_prefix'] = 'match chain_walk_join_ops with cons OSlash nil => true | _ => false end'
        obs['chain_dedup_ignores_case'] = 'andb (forallb is_sf chain_dedup_ops) (has_fold chain_dedup_ops)'
        obs['chain_dedup_keeps_first_member'] = 'match chain_dedup_mode with DedupSkip => true | DedupOverwrite => false end'
        obs['chain_walk_names_relative_to_prefix'] = 'match chain_relmode with RelDropSegs => true | RelPath => false end'
        obs['chain_exists_asks_each_member_its_own_name'] = 'exists_mode_ok chain_exists_mode'
        obs['chain_open_goes_through_get_file'] = 'chain_open_via_get'
        obs['filesystem_getitem_contains_iter_delegate'] = 'fs_dunders_delegate'
        obs['vpk_open_bin_reads_whole_file'] = 'cexpr_whole false vpk_open_bin_content'
        obs['vpk_open_str_reads_whole_file'] = 'cexpr_whole false vpk_open_str_content'
        obs['vpk_reader_returns_preload_and_exact_rest'] = 'rexpr_whole None false vpk_reader'
        if built_s:
            # one evaluation for the shape obligations and the census obligations
            obs.update(sobs)
        res_inst = ck.instance_obligations(IMPORTS + (STATE_IMPORTS[3:] if built_s else []), obs)
        failed_inst = [oname for oname, ok in res_inst.items() if not ok and oname not in sobs]
        failed_state = [oname for oname, ok in res_inst.items() if not ok and oname in sobs]
        _td = time.time()
        def collect_instance_theorems() -> None:
            # the composition theorem instantiated at the generated configuration (type-checks only if today's chain
            # de-duplicates by skipping, lists prefix-relative names and every backend form is sound)
            rc, out = fut_compose.result()
            ck.obligation('instance-theorem:chain_walk_lookup_closed', rc == 0,
                          'c19_chain_walk_lookup_closed, c19_chain_walk_every_entry_spec, c19_chain_walk_with_directory_members (raw_walk_relmode, raw_walk_ops) and c19_chain_walk_any_spelling applied to chain_walk_mode chain_dedup_mode '
                          'chain_relmode chain_dedup_ops over members built from virtual_cfg / zip_cfg / vpk_cfg' + ('' if rc == 0 else ': ' + out[-400:]))
            if rc != 0:
                ck.tie_broken.append('instance theorem chain_walk_lookup_closed does not check at the generated configuration')
            rc, out = fut_forms.result()
            if rc != 0:
                ck.tie_broken.append('instance theorem chain_exists_and_vpk_bytes does not check at the generated configuration')
            ck.obligation('instance-theorem:chain_exists_and_vpk_bytes', rc == 0,
                          'c19_chain_exists_agrees_backends at chain_exists_mode, c19_vpk_open_same_bytes at vpk_open_bin_content / '
                          'vpk_open_str_content, c19_chain_every_form_spec (every lookup form of a chain = the specification) over '
                          'virtual_cfg / zip_cfg / vpk_cfg, c19_vpk_open_through_reader at vpk_reader, c19_chain_with_directory_members_spec at raw_get_ops, c19_chain_history_spec at chain_add_guard / chain_prio_action / chain_plain_action, c19_raw_walk_lists_stored_names at raw_walk_relmode, c19_property at the whole generated configuration' + ('' if rc == 0 else ': ' + out[-400:]))
        import time as _t
        # the real backends / chains are run here (main thread, guarded); the model's answers are computed by coqc
        # processes on their own pool while the canonical-form validation and the search go on
        cpool = ThreadPoolExecutor(max_workers=4)
        t0 = _t.time(); fin_backends = corr_backends(ck, root, cpool); t1 = _t.time(); fin_chain = corr_chain(ck, root, cpool); t2 = _t.time()
        ck.extra['stage_seconds'] = {'translate_build': round(_tb - _ta, 1), 'instance_obligations': round(_td - _tc, 1),
                                     'corr_backends_cases': round(t1 - t0, 1), 'corr_chain_cases': round(t2 - t1, 1)}
    import time as _t
    if ok_t:
        t3 = _t.time()
        try:
            with time_limit(150.0):       # normally 2-5 s: both the real and the rewritten module are executed
                canonical_validation(ck, root)
        except ImplHang as e:
            ck.obligation('translate:canonical-form-is-equivalent', False, f'executing filesys.py / its canonical form did not finish ({e})')
            ck.tie_broken.append('canonical form of filesys.py: execution did not finish')
        ck.extra.setdefault('stage_seconds', {})['canonical_validation'] = round(_t.time() - t3, 1)
    for oname in failed_state:
        ck.tie_broken.append(f'instance obligation {oname} does not hold at the generated census')
    if built:
        # a decisive code shape is not the sound one: the *search* runs on the escalated budgets (the correspondence
        # cases were built above on the normal ones: they validate the model, they are not what finds the input)
        for oname in failed_inst:
            ck.tie_broken.append(f'instance obligation {oname} does not hold at the generated configuration')
    t3 = _t.time(); search(ck, root); ck.extra.setdefault('stage_seconds', {})['search'] = round(_t.time() - t3, 1)
    if built:
        _te = time.time()
        n_ties = len(ck.tie_broken)
        collect_instance_theorems()
        ck.extra['stage_seconds']['instance_theorems_wait'] = round(time.time() - _te, 1)
        _te = time.time()
        fin_backends()
        fin_chain()
        cpool.shutdown()
        ck.extra['stage_seconds']['correspondence_wait'] = round(time.time() - _te, 1)
        if len(ck.tie_broken) > n_ties and not ck.violations:
            # the model and the code disagree and the search (which ran meanwhile on the normal budget) found no failing
            # input: search again, now on the escalated budgets
            t3 = _t.time(); search(ck, root); ck.extra['stage_seconds']['search_escalated'] = round(_t.time() - t3, 1)
        _te = time.time()
        fut_thm.result()
        pool.shutdown()
        ck.extra['stage_seconds']['theorems_wait'] = round(time.time() - _te, 1)
        ck.obligations.sort(key=lambda o: 0 if o['name'].startswith(('theorem:', 'assumptions:')) else 1)     # stable: fixed order
    if fut_state is not None:
        rc, out = fut_state.result()
        spool.shutdown()
        ck.obligation('instance-theorem:histories_irrelevant', rc == 0,
                      'c19_property_over_histories (second conjunct), c19_backend_walk_history and c19_chain_lookup_history at the generated census of stores '
                      '(chain_census, virtual_census, raw_census, zip_census, vpk_census, helpers_census, vpk_reader_census)' + ('' if rc == 0 else ': ' + out[-400:]))
    # round 6: two shapes read from the source directly (also when the shape translator has failed closed)
    try:
        import srctools.filesys as _fsmod
        import srctools.vpk as _vpkmod
        ok, det = vpk_reader_tree_level_shape(_method_ast(_vpkmod, 'VPK', 'load_dirfile'))
        ck.obligation('instance:vpk_reader_creates_tree_level_only_when_missing', ok, 'VPK.load_dirfile merges repeated extension / folder blocks: ' + det)
        ok, det = chain_walk_repeat_name_shape(_method_ast(_fsmod, 'FileSystemChain', 'walk_folder_repeat'))
        ck.obligation('instance:chain_walk_repeat_lists_forward_slash_names', ok, 'every branch of FileSystemChain.walk_folder_repeat: ' + det)
    except Exception as e:      # noqa: BLE001 - fail closed
        ck.obligation('instance:round6_source_shapes_readable', False, f'{type(e).__name__}: {e}')
    keys = {v['key'] for v in ck.violations}

    def any_key(*subs):
        return any(all(s in k for s in sub.split('&')) for k in keys for sub in subs)
    # the census of stores: a method that keeps state shows as a history-dependent answer of that backend / of chains
    for short in STATE_SHORTS:
        pats = ('chain-',) if short == 'chain' else (f'walk-{short}-', f'lookup-{short}-', f'content-{short}', f'chain-walk-&{short}')
        if any_key(*pats):
            ck.explain(f'instance:{short}_walks_keep_no_state')
            ck.explain(f'instance:{short}_lookups_keep_no_state')
    if keys:
        ck.explain('instance:filesys_helpers_keep_no_state')
        ck.explain('instance:vpk_reader_keeps_no_state')
        ck.explain('instance:census_hypothesis_holds_for_the_generated_census')
        ck.explain('instance-theorem:histories_irrelevant')
    # failed instance obligations are explained by concrete violations of the matching class
    if any_key('walk-virtual-root-folder-incomplete'):
        ck.explain('instance:virtual_walk_root_is_not_dot')
    for short in ('virtual', 'zip', 'vpk'):
        if any_key(f'walk-{short}-no-folder-boundary', f'walk-{short}-file-listed-as-folder', f'walk-{short}-lists-files-outside'):
            ck.explain(f'instance:{short}_walk_folder_boundary')
        if any_key(f'walk-{short}-case-sensitive', f'walk-{short}-backslash', f'walk-{short}-misses', f'walk-{short}-trailing-slash'):
            ck.explain(f'instance:{short}_walk_case_insensitive')
            ck.explain(f'instance:{short}_walk_compares_normalised_key')
        if any_key(f'walk-{short}-'):
            ck.explain(f'instance:{short}_walk_sound_form')
            ck.explain(f'instance:{short}_walk_iterates_folded_dict')
            ck.explain(f'instance:{short}_walk_compares_normalised_key')
        if any_key(f'walk-{short}-case-sensitive', f'walk-{short}-misses', f'walk-{short}-backslash'):
            ck.explain(f'instance:{short}_walk_no_exact_case_prefilter')
        if any_key(f'lookup-{short}-'):
            ck.explain(f'instance:{short}_keys_case_and_slash_insensitive')
        if any_key(f'lookup-{short}-unnormalised', f'walk-{short}-folder-unnormalised'):
            ck.explain(f'instance:{short}_keys_normalise_every_spelling')
        if any_key(f'walk-{short}-'):
            ck.explain(f'instance:{short}_walk_normalises_folder_spelling')
    for what, sub in (('get', 'lookup-raw-'), ('exists', 'lookup-raw-'), ('open', 'lookup-raw-'), ('walk', 'walk-raw-')):
        if any_key(sub):
            ck.explain(f'instance:raw_{what}_converts_slashes_only')
    # a model/implementation disagreement is explained by a concrete violation on the same backend / on chains
    dis = ck.extra.get('backend_disagreement', {}).get('backend')
    if dis and any_key(f'lookup-{dis}-', f'walk-{dis}-', f'content-{dis}'):
        ck.explain('correspondence:backends')
    if 'chain_disagreement' in ck.extra and any_key('chain-'):
        ck.explain('correspondence:chain')
    if keys:
        # the conjunction of all recognisers: any concrete violation concerns one of its conjuncts
        ck.explain('instance:property_hypotheses_hold_for_the_generated_configuration')
    if any_key('hang-', 'exception-'):
        # the implementation hangs or throws on a concrete input: that input explains whatever else broke
        ck.explain('translate:')
        ck.explain('correspondence:')
    terr = next((o['detail'] for o in ck.obligations if o['name'].startswith('translate:') and not o['ok']), '')
    for subs, pats in ((('FileSystemChain._file_exists', '__contains__'), ('chain-contains-', 'chain-file_exists-')),
                       (('FileSystemChain.open_bin', 'FileSystemChain.open_str'), ('chain-open_bin-', 'chain-open_str-', 'chain-file_open_str-')),
                       (('_get_file:', '__getitem__'), ('chain-get-', 'chain-get_file-', 'chain-stale-after-systems-edit')),
                       (('walk_folder_repeat', 'FileSystemChain.walk_folder', 'walk_folder:', '__iter__'), ('chain-walk-', 'chain-iter-')),
                       (('add_sys',), ('chain-get-not-first-match', 'chain-walk-', 'chain-contains-', 'chain-open_bin-', 'chain-mounted-')),
                       (('VPKFileSystem.open', 'content expression', 'content helper', 'FileInfo.read'), ('content-vpk',))):
        if terr and any(x in terr for x in subs) and any_key(*pats):
            ck.explain('translate:')
    for cname, attr, short in (('VirtualFileSystem', '_mapping', 'virtual'), ('ZipFileSystem', '_name_to_info', 'zip'),
                               ('VPKFileSystem', '_name_to_file', 'vpk'), ('RawFileSystem', '_resolve_path', 'raw')):
        # a backend the translator could not classify, and a concrete violation on that very backend
        if terr and (cname in terr or attr in terr) and any_key(f'lookup-{short}-', f'walk-{short}-', f'content-{short}'):
            ck.explain('translate:')
    if any_key('chain-contains-', 'chain-file_exists-'):
        ck.explain('instance:chain_exists_asks_each_member_its_own_name')
        ck.explain('instance-theorem:chain_exists_and_vpk_bytes')
    if any_key('chain-open_bin-', 'chain-open_str-', 'chain-file_open_str-', 'chain-get_file-'):
        ck.explain('instance:chain_open_goes_through_get_file')
    if any_key('content-vpk-&-open_bin-', 'content-vpk-&-getitem-', 'content-vpk-&-get_file-', 'content-vpk-&-listed-file'):
        ck.explain('instance:vpk_open_bin_reads_whole_file')
        ck.explain('instance-theorem:chain_exists_and_vpk_bytes')
    if any_key('content-vpk-&-open_str-'):
        ck.explain('instance:vpk_open_str_reads_whole_file')
        ck.explain('instance-theorem:chain_exists_and_vpk_bytes')
    if any_key('content-vpk'):
        ck.explain('instance:vpk_reader_returns_preload_and_exact_rest')
        ck.explain('instance-theorem:chain_exists_and_vpk_bytes')
    if any_key('chain-iter-', 'chain-contains-', 'chain-get-'):
        ck.explain('instance:filesystem_getitem_contains_iter_delegate')
    if any_key('vpk-foreign-tree'):
        ck.explain('instance:vpk_reader_creates_tree_level_only_when_missing')
    if any_key('chain-walk-name-has-backslash', 'chain-walk-lists-a-name-twice'):
        ck.explain('instance:chain_walk_repeat_lists_forward_slash_names')
    if any_key('chain-walk-name-not-relative-to-prefix'):
        ck.explain('instance:chain_walk_names_relative_to_prefix')
    if any_key('chain-'):
        # a member that add_sys drops or misplaces shows in every observable of the chain
        ck.explain('instance:chain_add_sys_mounts_every_member')
        ck.explain('instance:chain_add_sys_history_in_priority_order')
        ck.explain('instance-theorem:chain_exists_and_vpk_bytes')
    if any_key('walk-raw-', 'content-raw-', 'chain-walk-&raw'):
        ck.explain('instance:raw_walk_lists_names_relative_to_root')
        ck.explain('instance-theorem:chain_exists_and_vpk_bytes')
    if any_key('chain-get-not-first-match'):
        ck.explain('instance:chain_get_in_member_order')
        ck.explain('instance:chain_priority_inserts_first')
        ck.explain('instance:chain_plain_appends_last')
        ck.explain('instance:chain_get_joins_prefix')
    if any_key('chain-walk-entry-not-from-first-member', 'chain-walk-listed-name-not-found', 'chain-walk-dedup-is-not-first-of-repeat'):
        ck.explain('instance:chain_dedup_keeps_first_member')
    if any_key('chain-walk-', 'chain-get-', 'walk-virtual-', 'walk-zip-', 'walk-vpk-', 'lookup-virtual-', 'lookup-zip-', 'lookup-vpk-'):
        # the composition theorem needs sound backends, skip-de-duplication and prefix-relative names
        ck.explain('instance-theorem:chain_walk_lookup_closed')
    if any_key('lookup-virtual-', 'lookup-zip-', 'lookup-vpk-', 'lookup-raw-'):
        # the instance needs every backend to normalise its keys (backend_keys_norm at the generated configuration)
        ck.explain('instance-theorem:chain_exists_and_vpk_bytes')
    if any_key('chain-walk-'):
        ck.explain('instance:chain_walk_in_member_order')
        ck.explain('instance:chain_dedup_ignores_case')
        ck.explain('instance:chain_walk_joins_prefix')


def replay(data: dict) -> int:
    r = data['replay']
    root = tempfile.mkdtemp(prefix='sv_c19_replay_', dir=os.environ.get('VERIF_SCRATCH', '/var/tmp'))
    try:
        if r.get('op') in ('lookup', 'walk', 'agree'):
            files = [(a, b.encode()) for a, b in r['files']]
            bt = Built(root, files)
            try:
                for name in ([r['backend']] if 'backend' in r else ['virtual', 'zip', 'vpk']):
                    if r['op'] == 'walk':
                        print(f'{name}.walk_folder({r["folder"]!r}) ->', impl_walk(bt.fs[name], r['folder']), '| expected (folded):', r.get('expected_folded'))
                    else:
                        print(f'{name}: {r["query"]!r} -> (exists, fs[q], open_bin(q)) =', impl_lookup(bt.fs[name], r['query']), '| expected bytes:', r.get('expected_bytes'))
            finally:
                bt.close()
            for k, what, _ in check_backends(root, files, random.Random(data.get('seed', 0))):
                if k == data.get('key'):
                    print('REPRODUCED', k, '-', what)
                    break
        elif r.get('op') == 'walk-history':
            files = [(a, b.encode()) for a, b in r['files']]
            bt = Built(root, files)
            try:
                for k, what, _ in guarded('backends', lambda: walk_history_case(bt.fs[r['backend']], r['backend'], files, r['folder'], r['folder_class'],
                                                                               r['mode'], r['then_walk'], r['first_walk_is_iter']), r):
                    print('FOUND', k, '-', what)
            finally:
                bt.close()
        elif r.get('op') == 'backends':
            files = [(a, b.encode()) for a, b in r['files']]
            for k, what, _ in guarded('backends', lambda: check_backends(root, files, random.Random(r.get('seed', 0))), r):
                print('FOUND', k, '-', what)
        elif r.get('op') == 'nonascii':
            files = [(a, b.encode()) for a, b in r['files']]
            for k, what, _ in guarded('nonascii', lambda: check_nonascii(root, files, random.Random(data.get('seed', 0))), r):
                print('FOUND', k, '-', what)
        elif r.get('op') == 'content':
            sized = [tuple(x) for x in r['files(name,size)']]
            for k, what, _ in guarded('content', lambda: check_content(root, sized, r['placements']), r):
                print('FOUND', k, '-', what)
        elif r.get('op') == 'vpk-tree':
            files = [(a, b.encode()) for a, b in r['files']]
            for k, what, _ in guarded('vpk-tree', lambda: check_vpk_trees(root, files, r.get('seed', 0)), r):
                print('FOUND', k, '-', what)
        elif r.get('op') == 'chain':
            sets = [[(a, b.encode()) for a, b in s] for s in r['sets']]
            members = [tuple(m) for m in r['members']]
            for k, what, _ in guarded('chain', lambda: check_chain(root, sets, members, None, None, r.get('seed', data.get('seed', 0))), r):
                print('FOUND', k, '-', what)
        else:
            print(r)
    finally:
        shutil.rmtree(root, ignore_errors=True)
    return 0
