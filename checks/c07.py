"""C07 — VMF by_class / by_target indexes (and search()) always agree with the entities in the map."""
from __future__ import annotations

import itertools
import random
from typing import Any

from harness.common import Ck
from harness.c07_util import World

MANIFEST = dict(
    technique='Rocq proof (index invariant preserved by every operation, by induction over operation sequences on several maps; search() sound and complete; worldspawn pinned) + ast census of Entity._keys writers and index update sites + vm_compute operation-sequence correspondence + scan oracle on real VMF objects',
    text='TODO',
    note='TODO',
)

NAMES = ['a', 'A', 'Ab', 'aB', '', 'a1', 'worldspawn']
UNI_NAMES = ['ß', 'SS', 'ss', 'İ', 'a', 'A', '', 'worldspawn', 'WorldSpawn']
CN_KEYS = ['classname', 'classname', 'Classname', 'CLASSNAME']
TN_KEYS = ['targetname', 'targetname', 'TargetName', 'TARGETNAME']
OTHER_KEYS = ['origin', 'Origin', 'x']
QUERIES = ['a', 'A', 'ab', 'AB', 'a*', 'A*', '*', '', 'a1', 'worldspawn', 'WORLDSPAWN', 'ab*', 'info_null', 'b']
MAX_OBJS = 6
MAX_MAPS = 3


# ------------------------------------------------------------------------------------------------ generator
def _key(rng: random.Random) -> str:
    r = rng.random()
    if r < 0.38:
        return rng.choice(CN_KEYS)
    if r < 0.80:
        return rng.choice(TN_KEYS)
    return rng.choice(OTHER_KEYS)


def _kvs(rng: random.Random, names, lo=0, hi=3) -> list[tuple[str, str]]:
    """A key list with pairwise distinct spellings (it is passed through a dict / keyword arguments)."""
    out: dict[str, str] = {}
    for _ in range(rng.randint(lo, hi)):
        out[_key(rng)] = rng.choice(names)
    return list(out.items())


def gen_ops(rng: random.Random, n: int, names=NAMES, allow_iter: bool = True) -> list[tuple]:
    """Random history over an initial world of 2 maps. Tracks how many objects each map has so that every
    entity number refers to an existing object; never adds the worldspawn object to the entity list and never
    refers to the unreachable placeholder (object 0) of a parsed map."""
    nobj = [1, 1]                 # objects per map
    dead0 = [False, False]        # object 0 is the unreachable constructor spawn (parsed maps)
    ops: list[tuple] = []

    def pick_map() -> int:
        return rng.randrange(len(nobj))

    def pick_ent(m: int, allow_spawn: bool = True) -> int | None:
        spawn = 1 if dead0[m] else 0
        lo = spawn if allow_spawn else spawn + 1
        if lo >= nobj[m]:
            return None
        # the spawn is picked less often than ordinary entities
        if allow_spawn and rng.random() < 0.12:
            return spawn
        if spawn + 1 >= nobj[m]:
            return spawn if allow_spawn else None
        return rng.randrange(spawn + 1, nobj[m])

    def subop() -> tuple:
        r = rng.random()
        if r < 0.45:
            return ('set', _key(rng), rng.choice(names))
        if r < 0.6:
            return ('del', _key(rng))
        if r < 0.75:
            return ('rem', rng.random() < 0.5)
        if r < 0.85:
            return ('pop', _key(rng))
        if r < 0.93:
            return ('clear',)
        return ('uniq', rng.choice(names))

    while len(ops) < n:
        m = pick_map()
        r = rng.random()
        room = nobj[m] < MAX_OBJS + (2 if dead0[m] else 1)
        if r < 0.13 and room:
            ops.append(('create', m, rng.choice(names), [(k, v) for k, v in _kvs(rng, names, 0, 2)
                                                         if k.isidentifier() and k != 'classname']))
            nobj[m] += 1
        elif r < 0.18 and room:
            ops.append(('new', m, _kvs(rng, names, 0, 3)))
            nobj[m] += 1
        elif r < 0.23:
            e = pick_ent(m)
            m2 = pick_map()
            if e is not None and nobj[m2] < MAX_OBJS + (2 if dead0[m2] else 1):
                ops.append(('copy', m, e, m2))
                nobj[m2] += 1
        elif r < 0.31:
            e = pick_ent(m, allow_spawn=False)
            if e is not None:
                ops.append(('add', m, e))
        elif r < 0.34:
            es = [e for e in (pick_ent(m, allow_spawn=False) for _ in range(rng.randint(0, 3))) if e is not None]
            ops.append(('adds', m, es))
        elif r < 0.43:
            e = pick_ent(m)
            if e is not None:
                ops.append(('rem', m, e, rng.random() < 0.5))
        elif r < 0.65:
            e = pick_ent(m)
            if e is not None:
                ops.append(('set', m, e, _key(rng), rng.choice(names)))
        elif r < 0.71:
            e = pick_ent(m)
            if e is not None:
                ops.append(('del', m, e, _key(rng)))
        elif r < 0.73:
            e = pick_ent(m)
            if e is not None:
                ops.append(('dels', m, e, [_key(rng) for _ in range(rng.randint(0, 3))]))
        elif r < 0.79:
            e = pick_ent(m)
            if e is not None:
                ops.append(('pop', m, e, _key(rng)))
        elif r < 0.81:
            e = pick_ent(m)
            if e is not None:
                ops.append(('popitem', m, e))
        elif r < 0.83:
            e = pick_ent(m)
            if e is not None:
                ops.append(('setdefault', m, e, _key(rng), rng.choice(names)))
        elif r < 0.87:
            e = pick_ent(m)
            if e is not None:
                ops.append(('update', m, e, _kvs(rng, names, 0, 3)))
        elif r < 0.90:
            e = pick_ent(m)
            if e is not None:
                ops.append(('clear', m, e))
        elif r < 0.94:
            e = pick_ent(m)
            if e is not None:
                ops.append(('uniq', m, e, rng.choice(names)))
        elif r < 0.955:
            ops.append(('export', m))
        elif r < 0.975 and allow_iter:
            which = rng.choice(['class', 'target', 'search'])
            key: Any = rng.choice(names).casefold()
            if which == 'target' and key == '':
                key = None
            if which == 'search':
                key = rng.choice(QUERIES)
            ops.append(('iter', m, which, key, subop()))
        elif r < 0.99 and len(nobj) < MAX_MAPS:
            ents = [(_kvs(rng, names, 0, 3), rng.random() < 0.25) for _ in range(rng.randint(0, 3))]
            ops.append(('parse', _kvs(rng, names, 0, 3), ents))
            nobj.append(2 + len(ents))
            dead0.append(True)
        elif len(nobj) < MAX_MAPS:
            ops.append(('newmap',))
            nobj.append(1)
            dead0.append(False)
    return ops


# ------------------------------------------------------------------------------------------------ oracle
def first_problem(ops, queries=QUERIES):
    """Run a history on the implementation; scan after every model-level step.
    Returns None or (step_index, step_op, problem_tuple)."""
    w = World(2)
    i = 0
    for op in ops:
        try:
            for flat, _err in w.steps(op):
                for m in range(len(w.maps)):
                    for p in w.scan_problems(m, queries):
                        return i, flat, p
                i += 1
        except Exception as exc:   # noqa: BLE001 - any exception escaping the public API in a legal history
            return i, op, ('api', 'raised', {'error': f'{type(exc).__name__}: {exc}'})
    return None


def classify(step_op, prob) -> str:
    """Key naming the failing class: which lookup, stale or missing, and the operation after which it shows."""
    return f'{prob[0]}-{prob[1]}-after-{step_op[0]}'


def shrink(ops, pred):
    cur = list(ops)
    changed = True
    while changed:
        changed = False
        for i in range(len(cur) - 1, -1, -1):
            cand = cur[:i] + cur[i + 1:]
            if cand and pred(cand):
                cur = cand
                changed = True
                break
    return cur


def valid(ops) -> bool:
    """Is every entity / map reference in range (needed after shrinking deletes creating operations)?"""
    nobj = [1, 1]
    for op in ops:
        k = op[0]
        if k == 'newmap':
            nobj.append(1)
            continue
        if k == 'parse':
            nobj.append(2 + len(op[2]))
            continue
        m = op[1]
        if m >= len(nobj):
            return False
        if k == 'copy':
            if op[2] >= nobj[m] or op[3] >= len(nobj):
                return False
            nobj[op[3]] += 1
        elif k in ('new', 'create'):
            nobj[m] += 1
        elif k == 'adds':
            if any(e >= nobj[m] for e in op[2]):
                return False
        elif k in ('export', 'iter'):
            pass
        elif op[2] >= nobj[m]:
            return False
    return True


CORPUS = [
    # the defects of DESIGN.md section 7 #11, shortest histories
    [('create', 0, 'Func_Door', []), ('set', 0, 1, 'classname', 'a')],
    [('create', 0, 'a', [('targetname', 'Ab')]), ('rem', 0, 1, False)],
    [('create', 0, 'a', []), ('set', 0, 1, 'targetname', 'Ab')],
    [('create', 0, 'a', [('targetname', 'x')]), ('set', 0, 1, 'targetname', '')],
    [('create', 0, 'a', [('targetname', 'a1')]), ('pop', 0, 1, 'targetname')],
    [('create', 0, 'a', []), ('pop', 0, 1, 'classname')],
    [('new', 0, [('classname', 'a')]), ('del', 0, 1, 'targetname')],
    [('create', 0, 'a', [('targetname', 'a1')]), ('clear', 0, 1)],
    [('parse', [('classname', 'worldspawn')], [([('classname', 'a')], False)])],
    [('create', 0, 'a', [('TargetName', 'a1')]), ('del', 0, 1, 'targetname')],
    [('set', 0, 0, 'targetname', 'a')],
    [('rem', 0, 0, True)],
    [('clear', 0, 0)],
    [('create', 0, 'a', []), ('add', 0, 1), ('rem', 0, 1, False)],
    [('create', 0, 'a', [('targetname', 'Ab')]), ('create', 0, 'a', [('targetname', 'Ab')]), ('uniq', 0, 2, '')],
    [('create', 0, 'a', []), ('create', 0, 'a', []), ('iter', 0, 'class', 'a', ('set', 'classname', 'A'))],
]


def search(ck: Ck) -> None:
    n = ck.budget(1500, 30000)
    found: dict[str, tuple] = {}
    for i in range(n):
        if i < len(CORPUS):
            ops = CORPUS[i]
        else:
            uni = ck.rng.random() < 0.15
            ops = gen_ops(ck.rng, ck.rng.choice([3, 6, 12, 25, 40]), UNI_NAMES if uni else NAMES)
        ck.count('oracle_histories')
        ck.hist('oracle_len', len(ops) // 10 * 10)
        for op in ops:
            ck.hist('oracle_ops', op[0])
        kinds = {op[0] for op in ops}
        if kinds & {'create', 'add', 'adds', 'parse'} and kinds & {'set', 'del', 'dels', 'pop', 'popitem', 'update', 'clear', 'uniq', 'rem', 'iter'}:
            ck.seen(('oracle', repr(ops)))
        p = first_problem(ops)
        if p is None:
            continue
        key = classify(p[1], p[2])
        if key in found and len(found[key][0]) <= 3:
            continue

        def same(h, key=key):
            if not valid(h):
                return False
            q = first_problem(h)
            return q is not None and classify(q[1], q[2]) == key
        small = shrink(ops[:p[0] + 1] if len(ops) > p[0] + 1 and same(ops[:p[0] + 1]) else ops, same)
        if key not in found or len(small) < len(found[key][0]):
            found[key] = (small, first_problem(small))
    for key, (ops, p) in sorted(found.items()):
        ck.violation(key, f'{p[2][0]} {p[2][1]} after step {p[0]} {p[1]!r}: {p[2][2]!r}',
                     {'ops': ops, 'problem': list(p), 'how': 'checks.c07.first_problem(ops): World(2 maps); scan after every step'})
    ck.extra['oracle_violation_keys'] = sorted(found)


def run(ck: Ck) -> None:
    search(ck)


def _tuplify(x):
    if isinstance(x, list):
        return [_tuplify(y) for y in x]
    return x


def replay(data: dict) -> int:
    r = data['replay']
    if 'ops' in r:
        ops = [_op_from_json(o) for o in r['ops']]
        w = World(2)
        i = 0
        for op in ops:
            for flat, err in w.steps(op):
                probs = [(m, p) for m in range(len(w.maps)) for p in w.scan_problems(m, QUERIES)]
                print(i, flat, 'err=%d' % err, probs or 'ok')
                i += 1
        return 0
    print(r)
    return 0


def _op_from_json(o):
    def conv(x):
        if isinstance(x, list):
            return [conv(y) for y in x]
        return x
    o = conv(o)
    k = o[0]
    if k in ('new',):
        return (k, o[1], [tuple(p) for p in o[2]])
    if k == 'create':
        return (k, o[1], o[2], [tuple(p) for p in o[3]])
    if k == 'update':
        return (k, o[1], o[2], [tuple(p) for p in o[3]])
    if k == 'parse':
        return (k, [tuple(p) for p in o[1]], [([tuple(p) for p in kv], h) for kv, h in o[2]])
    if k == 'iter':
        return (k, o[1], o[2], o[3], tuple(o[4]))
    return tuple(o)
