"""C07 — VMF by_class / by_target indexes (and search()) always agree with the entities in the map."""
from __future__ import annotations

import itertools
import random
from typing import Any

from harness.common import Ck
from harness.c07_util import World, Hang, time_limit
from translate import c07_index_sites, c07_index_shapes, c07_index_del, c07_index_listops, c07_index_glue

MANIFEST = dict(
    technique='Rocq proof (index invariant preserved by every operation incl. defaultdict reads, by induction over operation sequences on several maps; every operation respects ix_equiv; search() sound and complete, and its multiplicity; make_unique loop termination by pigeonhole; CopySet iteration total and exception-free under arbitrary mutation; worldspawn pinned; EVERY function of vmf.py that writes an index, an entity list, VMF.spawn or a key dict - and the glue around them - read off the source as a program/shape and proved equal to the model operation whenever its named obligations hold; one statement c07_property over all generated programs with the census as a hypothesis) + five fail-closed ast translators (census of writers/escapes/key sources on a normalised function; programs/shapes of Entity.__setitem__ (lookup loop and maintenance chain), Entity.__delitem__, Entity.clear, Entity.__init__/parse/copy, Entity.pop, Entity.make_unique, VMF.__init__, VMF.parse (worldspawn replacement, entity loop), VMF.create_ent, VMF.add_ent, VMF.add_ents, VMF.remove_ent, _remove_copyset, VMF.search (round 5: also plain .get lookups, `or` chains and truthiness tests), CopySet.__iter__; a flag cached on an entity object is a condition that no fact decides, so every obligation it matters for fails) + vm_compute correspondences (operation sequences incl. the deprecated `ent.keys = {...}` setter and non-ASCII names under CPython\'s casefold table, search, search as written with multiplicities, iteration traces) + scan oracle on real VMF objects under a time limit',
    text='Theorems in Props/C07.v about SM/IndexModel.v (entity list, spawn, per-entity key lists with case-insensitive first-spelling-wins lookup, by_class/by_target as maps from folded key to sets of entities, possibly holding empty sets left by defaultdict reads): the invariant "every index entry equals the scan of entities+worldspawn under the current folded classname / targetname (\'\' -> None), the worldspawn has class worldspawn and is listed under it" holds for VMF(), for VMF.parse of any tree, is preserved by every operation (create_ent/add_ent/add_ents/remove_ent, Entity(), copy between maps, []=, del (single and tuple), pop, popitem, setdefault, update, clear, make_unique, export, reading by_class[k]/by_target[k]) whatever its arguments and whether or not it raises, hence after every finite history over any number of maps; search() returns exactly the matching entities, each once per matching name plus once per matching class (c07_search_multiplicity, round 4); states that differ only in empty sets held by the index maps stay equivalent under every operation. The code is modelled from its source, regenerated on every run, and for each function a theorem says that every generated object passing its named obligations is the model operation for all inputs: Entity.__setitem__ (lookup loop + maintenance chain incl. the error path of the worldspawn guard), Entity.__delitem__, Entity.clear, VMF.add_ent/add_ents/remove_ent, _remove_copyset, VMF.search, CopySet.__iter__ (rounds 2-3) and, round 4, the glue: VMF.__init__ (= init), VMF.parse = constructor + worldspawn replacement + entity loop (= parse_init for every tree), VMF.create_ent, Entity.__init__/parse/copy, Entity.pop, Entity.make_unique (= make_unique). c07_property (round 4) composes them: for every record P of generated objects with programs_ok P and every census list (all functions that write by_class/by_target/VMF.entities/VMF.spawn/Entity._keys, from the census translator) with census_covered, every census function as written is the model operation on its modelled domain and preserves the invariant, and after every history of public operations as written on a map constructed as written the invariant holds, lookups by class and by name are exactly the scan, search as written is search_spec and the worldspawn is pinned; both hypotheses are instance obligations of every run; c07_property_generated_only (round 5) instantiates the folding with table_fold tab, so that all hypotheses are booleans over generated objects (tab_non_ascii, tab_closed, census_covered, programs_ok) and only the domain predicates fn_dom/ops_dom remain semantic. Faulty shapes are refuted by computed witnesses on reachable states (rounds 2-3 list, plus: constructor that does not file the spawn, parse re-assigning the spawn before dropping the placeholder, pop through _keys.pop, constructor filling the dict directly, make_unique looking a candidate up un-folded, search yielding the class set twice; round 5: membership read from a flag cached on the entity in __setitem__ / remove_ent, search written as `by_target.get(name) or by_class.get(name)`). Folding: str.casefold is a parameter; c07_table_fold_ok/idem show that ASCII lower-casing extended by any table of non-ASCII code points with folded images satisfies every fold hypothesis, and the correspondence runs the model with CPython\'s table for the names it uses (ß, İ, ...). Tied to vmf.py on every run by the fail-closed census, 58 shape/path obligations, and correspondences comparing, after every step, error code, entity list, key lists and both indexes of the model with real VMF objects (a fifth of the random histories with non-ASCII names; add_ents called with generator/iterator/map/list/tuple), search results as sets and as multisets, and the yield traces of index iterations with mutating bodies; a scan oracle checks the property directly on the implementation after every step (every history under a time limit: a hang is a violation with a replay).',
    note='Trusted: Coq kernel + vm_compute, translate/c07_index_sites.py, c07_index_shapes.py, c07_index_del.py, c07_index_listops.py, c07_index_glue.py, the hand model SM/IndexModel.v (tied by the correspondences and, for every function of the census and the glue, by translator-generated programs proved equal to it), CPython (incl. the MutableMapping mixins popitem/setdefault/update, which Entity inherits: obligation popitem_setdefault_update_are_the_mutablemapping_mixins). No axioms. Composition in c07_property is by function: a call from one index-maintaining function to another is interpreted as the model operation, which the callee\'s own clause shows it to be (the generated programs are not inlined into each other; _remove_copyset = ix_remove is a separate clause). str.casefold is a parameter of the model; theorems assume it fixes the empty string and the literals classname/targetname/worldspawn, is idempotent (search, pop with the folded key), distributes over an appended decimal number (make_unique termination) and does not map nodeid to classname/targetname (clear) - proved for ASCII lower-casing and for every table folding with non-ASCII keys, checked against CPython for the code points used. Entity.keys setter: obligation keys_setter_is_clear_then_update (it is clear_keys() = clear followed by update(value)); the histories exercise it and the model runs Clear then Update. A condition on an attribute of the entity object (MCCached / VCCached) is given the value false by the interpreters; no theorem about programs that pass their obligations depends on that value (the facts never decide it, so both branches must do the same). Not modelled: nodeid processing (C08), conversion of non-string values (conv_kv), laziness and order of search() results (the generator runs when iterated; multiplicity is modelled), the empty sets that make_unique and iteration leave in the implementation\'s defaultdicts (shown irrelevant for every later operation: c07_run_respects_ix_equiv), VMF.export beyond its three key operations on the worldspawn. Out of domain: add_ent of the worldspawn object or of an entity created for another VMF, writing through the dict returned by the deprecated Entity.keys property.',
)

NAMES = ['a', 'A', 'Ab', 'aB', '', 'a1', 'worldspawn']
UNI_NAMES = ['ß', 'SS', 'ss', 'İ', 'a', 'A', '', 'worldspawn', 'WorldSpawn']
CN_KEYS = ['classname', 'classname', 'Classname', 'CLASSNAME']
TN_KEYS = ['targetname', 'targetname', 'TargetName', 'TARGETNAME']
OTHER_KEYS = ['origin', 'Origin', 'x']
QUERIES = ['a', 'A', 'ab', 'AB', 'a*', 'A*', '*', '', 'a1', 'worldspawn', 'WORLDSPAWN', 'ab*', 'info_null', 'b', 'ß', 'S*']
QUERIES_SH = ['a', 'A*', 'ab', 'worldspawn', '', 'ß']
ADD_FORMS = ['gen', 'iter', 'map', 'list', 'tuple']      # how the iterable is handed to VMF.add_ents
MAX_OBJS = 6
# functions that are modelled by hand only (no generated shape): a change escalates the correspondence budget.
# VMF.search, CopySet.__iter__, _remove_copyset, Entity.__setitem__ and VMF.add_ents are read off the source as shapes
# with obligations on every run, so a rewrite of those needs no escalation.
# round 4: Entity.make_unique has a generated shape too (Gen/IndexGlue_gen.v); nothing decisive is hand-modelled only
MODEL_DIGESTS: dict = {}
MAX_MAPS = 3


# ------------------------------------------------------------------------------------------------ generator
def _key(rng: random.Random) -> str:
    r = rng.random()
    if r < 0.38:
        return rng.choice(CN_KEYS)
    if r < 0.80:
        return rng.choice(TN_KEYS)
    return rng.choice(OTHER_KEYS)


def _kvs(rng: random.Random, names, lo=0, hi=3) -> list[tuple[str, str]]:
    """A key list with pairwise distinct spellings (it is passed through a dict / keyword arguments)."""
    out: dict[str, str] = {}
    for _ in range(rng.randint(lo, hi)):
        out[_key(rng)] = rng.choice(names)
    return list(out.items())


def gen_ops(rng: random.Random, n: int, names=NAMES, allow_iter: bool = True) -> list[tuple]:
    """Random history over an initial world of 2 maps. Tracks how many objects each map has so that every
    entity number refers to an existing object; never adds the worldspawn object to the entity list and never
    refers to the unreachable placeholder (object 0) of a parsed map."""
    nobj = [1, 1]                 # objects per map
    dead0 = [False, False]        # object 0 is the unreachable constructor spawn (parsed maps)
    ops: list[tuple] = []

    def pick_map() -> int:
        return rng.randrange(len(nobj))

    def pick_ent(m: int, allow_spawn: bool = True) -> int | None:
        spawn = 1 if dead0[m] else 0
        lo = spawn if allow_spawn else spawn + 1
        if lo >= nobj[m]:
            return None
        # the spawn is picked less often than ordinary entities
        if allow_spawn and rng.random() < 0.12:
            return spawn
        if spawn + 1 >= nobj[m]:
            return spawn if allow_spawn else None
        return rng.randrange(spawn + 1, nobj[m])

    def subop() -> tuple:
        r = rng.random()
        if r < 0.45:
            return ('set', _key(rng), rng.choice(names))
        if r < 0.6:
            return ('del', _key(rng))
        if r < 0.75:
            return ('rem', rng.random() < 0.5)
        if r < 0.85:
            return ('pop', _key(rng))
        if r < 0.90:
            return ('clear',)
        if r < 0.95:
            return ('spawn_like',)
        return ('uniq', rng.choice(names))

    while len(ops) < n:
        m = pick_map()
        r = rng.random()
        room = nobj[m] < MAX_OBJS + (2 if dead0[m] else 1)
        if r < 0.13 and room:
            ops.append(('create', m, rng.choice(names), [(k, v) for k, v in _kvs(rng, names, 0, 2)
                                                         if k.isidentifier() and k != 'classname']))
            nobj[m] += 1
        elif r < 0.18 and room:
            ops.append(('new', m, _kvs(rng, names, 0, 3)))
            nobj[m] += 1
        elif r < 0.23:
            e = pick_ent(m)
            m2 = pick_map()
            if e is not None and nobj[m2] < MAX_OBJS + (2 if dead0[m2] else 1):
                ops.append(('copy', m, e, m2))
                nobj[m2] += 1
        elif r < 0.31:
            e = pick_ent(m, allow_spawn=False)
            if e is not None:
                ops.append(('add', m, e))
        elif r < 0.34:
            es = [e for e in (pick_ent(m, allow_spawn=False) for _ in range(rng.randint(0, 3))) if e is not None]
            ops.append(('adds', m, es, rng.choice(ADD_FORMS)))
        elif r < 0.43:
            e = pick_ent(m)
            if e is not None:
                ops.append(('rem', m, e, rng.random() < 0.5))
        elif r < 0.65:
            e = pick_ent(m)
            if e is not None:
                ops.append(('set', m, e, _key(rng), rng.choice(names)))
        elif r < 0.71:
            e = pick_ent(m)
            if e is not None:
                ops.append(('del', m, e, _key(rng)))
        elif r < 0.73:
            e = pick_ent(m)
            if e is not None:
                ops.append(('dels', m, e, [_key(rng) for _ in range(rng.randint(0, 3))]))
        elif r < 0.79:
            e = pick_ent(m)
            if e is not None:
                ops.append(('pop', m, e, _key(rng)))
        elif r < 0.81:
            e = pick_ent(m)
            if e is not None:
                ops.append(('popitem', m, e))
        elif r < 0.83:
            e = pick_ent(m)
            if e is not None:
                ops.append(('setdefault', m, e, _key(rng), rng.choice(names)))
        elif r < 0.86:
            e = pick_ent(m)
            if e is not None:
                ops.append(('update', m, e, _kvs(rng, names, 0, 3)))
        elif r < 0.87:
            # round 5: the deprecated `ent.keys = {...}` setter (clear_keys() + update()), an alternative entry point
            e = pick_ent(m)
            if e is not None:
                ops.append(('keyset', m, e, _kvs(rng, names, 0, 3)))
        elif r < 0.90:
            e = pick_ent(m)
            if e is not None:
                ops.append(('clear', m, e))
        elif r < 0.94:
            e = pick_ent(m)
            if e is not None:
                ops.append(('uniq', m, e, rng.choice(names)))
        elif r < 0.948:
            which = rng.choice(['class', 'target'])
            key = rng.choice(names)
            if rng.random() < 0.6:
                key = key.casefold()
            ops.append(('probe', m, which, None if which == 'target' and key == '' else key))
        elif r < 0.958:
            ops.append(('export', m))
        elif r < 0.975 and allow_iter:
            which = rng.choice(['class', 'target', 'search'])
            key: Any = rng.choice(names).casefold()
            if which == 'target' and key == '':
                key = None
            if which == 'search':
                key = rng.choice(QUERIES)
            ops.append(('iter', m, which, key, subop()))
        elif r < 0.99 and len(nobj) < MAX_MAPS:
            ents = [(_kvs(rng, names, 0, 3), rng.random() < 0.25) for _ in range(rng.randint(0, 3))]
            ops.append(('parse', _kvs(rng, names, 0, 3), ents))
            nobj.append(2 + len(ents))
            dead0.append(True)
        elif len(nobj) < MAX_MAPS:
            ops.append(('newmap',))
            nobj.append(1)
            dead0.append(False)
    return ops


# ------------------------------------------------------------------------------------------------ oracle
HISTORY_LIMIT_S = 20.0     # a history runs in milliseconds; only an endless loop in the implementation reaches this
HANGS = [0]                # histories that hit the limit in this run; after three the streams stop early (each costs 20 s)


def first_problem(ops, queries=QUERIES):
    """Run a history on the implementation; scan after every model-level step.
    Returns None or (step_index, step_op, problem_tuple).  An exception escaping the public API and an operation that
    does not come back (Hang) are problems of the step during which they happen."""
    w = World(2)
    i = 0
    op = None
    try:
        with time_limit(HISTORY_LIMIT_S):
            for op in ops:
                try:
                    for flat, _err in w.steps(op):
                        for m in range(len(w.maps)):
                            for p in w.scan_problems(m, queries):
                                return i, flat, p
                        i += 1
                except Exception as exc:   # noqa: BLE001 - any exception escaping the public API in a legal history
                    return i, op, ('api', 'raised', {'error': f'{type(exc).__name__}: {exc}'})
    except Hang as exc:
        HANGS[0] += 1
        return i, op, ('api', 'hang', {'error': f'{exc}'})
    return None


def classify(step_op, prob) -> str:
    """Key naming the failing class: which lookup, stale or missing, and the operation after which it shows."""
    return f'{prob[0]}-{prob[1]}-after-{step_op[0]}'


def shrink(ops, pred):
    cur = list(ops)
    changed = True
    while changed:
        changed = False
        for i in range(len(cur) - 1, -1, -1):
            cand = cur[:i] + cur[i + 1:]
            if cand and pred(cand):
                cur = cand
                changed = True
                break
    return cur


def valid(ops) -> bool:
    """Is every entity / map reference in range (needed after shrinking deletes creating operations)?"""
    nobj = [1, 1]
    for op in ops:
        k = op[0]
        if k == 'newmap':
            nobj.append(1)
            continue
        if k == 'parse':
            nobj.append(2 + len(op[2]))
            continue
        m = op[1]
        if m >= len(nobj):
            return False
        if k == 'copy':
            if op[2] >= nobj[m] or op[3] >= len(nobj):
                return False
            nobj[op[3]] += 1
        elif k in ('new', 'create'):
            nobj[m] += 1
        elif k == 'adds':
            if any(e >= nobj[m] for e in op[2]):
                return False
        elif k in ('export', 'iter', 'probe'):
            pass
        elif op[2] >= nobj[m]:
            return False
    return True


CORPUS = [
    # the defects of DESIGN.md section 7 #11, shortest histories
    [('create', 0, 'Func_Door', []), ('set', 0, 1, 'classname', 'a')],
    [('create', 0, 'a', [('targetname', 'Ab')]), ('rem', 0, 1, False)],
    [('create', 0, 'a', []), ('set', 0, 1, 'targetname', 'Ab')],
    [('create', 0, 'a', [('targetname', 'x')]), ('set', 0, 1, 'targetname', '')],
    [('create', 0, 'a', [('targetname', 'a1')]), ('pop', 0, 1, 'targetname')],
    [('create', 0, 'a', []), ('pop', 0, 1, 'classname')],
    [('new', 0, [('classname', 'a')]), ('del', 0, 1, 'targetname')],
    [('create', 0, 'a', [('targetname', 'a1')]), ('clear', 0, 1)],
    [('parse', [('classname', 'worldspawn')], [([('classname', 'a')], False)])],
    [('create', 0, 'a', [('TargetName', 'a1')]), ('del', 0, 1, 'targetname')],
    [('set', 0, 0, 'targetname', 'a')],
    [('rem', 0, 0, True)],
    [('clear', 0, 0)],
    [('create', 0, 'a', []), ('add', 0, 1), ('rem', 0, 1, False)],
    [('create', 0, 'a', [('targetname', 'Ab')]), ('create', 0, 'a', [('targetname', 'Ab')]), ('uniq', 0, 2, '')],
    [('create', 0, 'a', []), ('create', 0, 'a', []), ('iter', 0, 'class', 'a', ('set', 'classname', 'A'))],
    # round 2: stored spelling differs from the caller's; a name equal to another entity's class; reads that
    # leave empty sets behind (folded and un-folded keys) before searching
    [('create', 0, 'a', [('TargetName', 'Ab')]), ('set', 0, 1, 'targetname', 'a1')],
    [('new', 0, [('ClassName', 'Ab')]), ('add', 0, 1), ('set', 0, 1, 'classname', 'a')],
    [('create', 0, 'a', []), ('create', 0, 'a1', [('targetname', 'A')])],
    [('create', 0, 'a', []), ('probe', 0, 'target', 'a')],
    [('create', 0, 'a', []), ('create', 0, 'A', [('targetname', 'ab')]), ('create', 0, 'a', []),
     ('iter', 0, 'class', 'a', ('spawn_like',)), ('iter', 0, 'target', 'ab', ('spawn_like',)),
     ('iter', 0, 'class', 'a', ('rem', True)), ('iter', 0, 'target', None, ('set', 'targetname', 'Ab'))],
    [('create', 0, 'a', [('targetname', 'a')]), ('create', 0, 'a', [('targetname', 'A')]),
     ('iter', 0, 'target', 'a', ('uniq', 'a')), ('iter', 0, 'class', 'a', ('set', 'classname', 'A')),
     ('iter', 0, 'class', 'a', ('clear',))],
    [('create', 0, 'ab', []), ('probe', 0, 'target', 'Ab'), ('probe', 0, 'class', 'AB'), ('probe', 0, 'target', None)],
    # round 3: the error path of the worldspawn guard (a rejected re-class must leave the worldspawn indexed), on a
    # fresh and on a parsed map, through [] / update / another spelling; add_ents with every form of iterable
    [('set', 0, 0, 'classname', 'a')],
    [('update', 0, 0, [('targetname', 'Ab'), ('classname', 'Ab')]), ('set', 0, 0, 'targetname', '')],
    [('set', 0, 0, 'ClassName', 'a'), ('set', 0, 0, 'classname', 'WorldSpawn'), ('probe', 0, 'class', 'worldspawn')],
    [('parse', [('classname', 'worldspawn'), ('targetname', 'a')], [([('classname', 'a')], False)]),
     ('set', 2, 1, 'classname', 'a'), ('rem', 2, 2, True)],
    [('new', 0, [('classname', 'a'), ('targetname', 'Ab')]), ('new', 0, [('classname', 'A')]), ('adds', 0, [1, 2], 'gen'),
     ('set', 0, 1, 'targetname', 'a1')],
    [('new', 0, [('classname', 'a')]), ('adds', 0, [1], 'iter'), ('rem', 0, 1, False)],
    [('new', 0, [('classname', 'a')]), ('adds', 0, [1], 'map')],
    [('new', 0, [('classname', 'a')]), ('new', 0, [('classname', 'Ab')]), ('adds', 0, [1, 2, 1], 'list'), ('rem', 0, 1, True)],
    [('new', 0, [('classname', 'a')]), ('adds', 0, [1], 'tuple'), ('adds', 0, [], 'gen')],
    # round 5: entities that came in through the bulk form add_ents and are re-keyed / cleared afterwards (a membership
    # flag kept by add_ent only would not know them); the `ent.keys = {...}` setter on an indexed entity, on the
    # worldspawn (a re-class is refused half-way: ValueError after the clear), with another spelling of the keys
    [('new', 0, [('classname', 'a'), ('targetname', 'Ab')]), ('adds', 0, [1], 'list'), ('set', 0, 1, 'classname', 'Ab'),
     ('del', 0, 1, 'targetname'), ('clear', 0, 1)],
    [('new', 0, [('classname', 'a')]), ('adds', 0, [1, 1], 'tuple'), ('rem', 0, 1, False), ('set', 0, 1, 'TargetName', 'a1'),
     ('uniq', 0, 1, 'a')],
    [('create', 0, 'Ab', [('targetname', 'aB')]), ('keyset', 0, 1, [('Classname', 'a'), ('TargetName', 'a1')])],
    [('create', 0, 'Ab', [('targetname', 'aB')]), ('keyset', 0, 1, []), ('keyset', 0, 1, [('targetname', 'A')])],
    [('set', 0, 0, 'targetname', 'a'), ('keyset', 0, 0, [('targetname', 'Ab'), ('classname', 'a'), ('x', 'a')])],
    [('new', 0, [('classname', 'a'), ('targetname', 'a')]), ('keyset', 0, 1, [('classname', 'A')]), ('add', 0, 1)],
]


def search(ck: Ck) -> None:
    n = 30000 if ck.thorough else ck.budget(1500, 4000)
    found: dict[str, tuple] = {}
    for i in range(n):
        if HANGS[0] >= 3:
            ck.notes.append(f'oracle search stopped after {i} histories: the implementation did not come back {HANGS[0]} times')
            break
        if i < len(CORPUS):
            ops = CORPUS[i]
        else:
            uni = ck.rng.random() < 0.15
            ops = gen_ops(ck.rng, ck.rng.choice([3, 6, 12, 25, 40]), UNI_NAMES if uni else NAMES)
        ck.count('oracle_histories')
        ck.hist('oracle_len', len(ops) // 10 * 10)
        for op in ops:
            ck.hist('oracle_ops', op[0])
            if op[0] == 'adds':
                ck.hist('add_ents_iterable_form', op[3] if len(op) > 3 else 'gen')
        kinds = {op[0] for op in ops}
        if kinds & {'create', 'add', 'adds', 'parse'} and kinds & {'set', 'del', 'dels', 'pop', 'popitem', 'update', 'clear', 'keyset', 'uniq', 'rem', 'iter'}:
            ck.seen(('oracle', repr(ops)))
        p = first_problem(ops)
        if p is None:
            continue
        key = classify(p[1], p[2])
        if key in found and len(found[key][0]) <= 3:
            continue

        def same(h, key=key):
            if not valid(h):
                return False
            q = first_problem(h)
            return q is not None and classify(q[1], q[2]) == key
        if p[2][1] == 'hang':      # every candidate that still hangs costs the whole time limit: keep the prefix, do not shrink
            small = [o for o in ops[:ops.index(p[1]) + 1]] if p[1] in ops else ops
        else:
            small = shrink(ops[:p[0] + 1] if len(ops) > p[0] + 1 and same(ops[:p[0] + 1]) else ops, same)
        q = first_problem(small)
        if q is None or classify(q[1], q[2]) != key:
            # the order in which an index iteration yields entities (set order = object addresses) can differ between two runs
            # of one history, so a faulty implementation may not fail the same way twice: keep the history as first observed
            small, q = list(ops), p
        if key not in found or len(small) < len(found[key][0]):
            found[key] = (small, q)
    for key, (ops, p) in sorted(found.items()):
        ck.violation(key, f'{p[2][0]} {p[2][1]} after step {p[0]} {p[1]!r}: {p[2][2]!r}',
                     {'ops': ops, 'problem': list(p), 'how': 'checks.c07.first_problem(ops): World(2 maps); scan after every step'})
    ck.extra['oracle_violation_keys'] = sorted(found)


# ------------------------------------------------------------------------------------------------ correspondence
IMPORTS = ['stdpp.gmap', 'stdpp.sets', 'stdpp.list', 'Coq.NArith.NArith', 'SV.SM.IndexModel', 'SV.SM.IndexFold']
PRE = r"""
Fixpoint ins_nat (x : nat) (l : list nat) : list nat :=
  match l with [] => [x] | y :: r => if Nat.leb x y then x :: l else y :: ins_nat x r end.
Definition sorted_elems (s : gset nat) : list nat := foldr ins_nat [] (elements s).
Definition nonempty {K} `{Countable K} (m : gmap K (gset nat)) : nat :=
  length (List.filter (fun kv : K * gset nat => match elements kv.2 with [] => false | _ => true end) (map_to_list m)).
Definition eqb_ln (a b : list nat) : bool := bool_decide (a = b).
Definition eqb_kvs (a b : kvs) : bool := bool_decide (a = b).
(* expected observation: error code, entity list, spawn, key lists of all objects, by_class, by_target *)
Definition exp := (nat * list nat * nat * list kvs * list (str * list nat) * list (option str * list nat))%type.
Definition check_obs (st : mstate) (er : nat) (x : exp) : bool :=
  let '(xer, xents, xspawn, xkeys, xbc, xbt) := x in
  Nat.eqb er xer && eqb_ln (ents st) xents && Nat.eqb (spawn st) xspawn
  && Nat.eqb (nobj st) (length xkeys)
  && forallb (fun p : nat * kvs => eqb_kvs (keys_of st p.1) p.2) (imap (fun i l => (i, l)) xkeys)
  && Nat.eqb (nonempty (by_class st)) (length xbc) && Nat.eqb (nonempty (by_target st)) (length xbt)
  && forallb (fun p : str * list nat => eqb_ln (sorted_elems (ix_get (by_class st) p.1)) p.2) xbc
  && forallb (fun p : option str * list nat => eqb_ln (sorted_elems (ix_get (by_target st) p.1)) p.2) xbt.
(* a case: steps with the map to observe and the expected observation; result = index of first disagreement *)
(* one implementation step = one or more model operations; an error stops the rest (the exception propagates) *)
Fixpoint wsteps (os : list wop) (w : list mstate) : list mstate * nat :=
  match os with
  | [] => (w, 0)
  | o :: r => let '(w', er) := wstep cf o w in match er with 0 => wsteps r w' | _ => (w', er) end
  end.
Fixpoint first_bad (n : nat) (steps : list (list wop * nat * exp)) (w : list mstate) : option nat :=
  match steps with
  | [] => None
  | (o, m, x) :: r =>
      let '(w', er) := wsteps o w in
      match w' !! m with
      | Some st => if check_obs st er x then first_bad (S n) r w' else Some n
      | None => Some n
      end
  end.
Definition w2 : list mstate := [init; init].
(* an iteration of by_class[k] / by_target[k] whose loop body ran the flat steps after position [pos]:
   the yields must be the snapshot (any order) followed by the late additions (any order) *)
Definition sort_nats (l : list nat) : list nat := foldr ins_nat [] l.
Definition iter_ok (fl : list wop) (pos m : nat) (cls : bool) (kc : str) (kt : option str) (ys : list nat) : bool :=
  let w0 := wrun cf (take (S pos) fl) w2 in
  let getset (w : list mstate) : gset nat :=
    match w !! m with
    | Some st => if cls then ix_get (by_class st) kc else ix_get (by_target st) kt
    | None => ∅
    end in
  let s0 := getset w0 in
  let n0 := size s0 in
  let w1 := wrun cf (take n0 (drop (S pos) fl)) w0 in
  eqb_ln (sort_nats (take n0 ys)) (sorted_elems s0)
  && eqb_ln (sort_nats (drop n0 ys)) (sorted_elems (getset w1 ∖ s0)).
Definition sq (s : list nat) (q : str) (st : mstate) : bool := eqb_ln (sorted_elems (search cf q st)) s.
"""


def casefold_table(strings) -> tuple[list[tuple[int, list[int]]], list[str]]:
    """The table [non-ASCII code point -> code points of chr(c).casefold()] for every code point of `strings`, closed under
    itself; and the strings whose casefold is NOT the concatenation of the per-code-point foldings (expected: none)."""
    tab: dict[int, list[int]] = {}
    todo = [ord(ch) for s in strings for ch in s if ord(ch) >= 128]
    while todo:
        c = todo.pop()
        if c in tab:
            continue
        tab[c] = [ord(x) for x in chr(c).casefold()]
        todo += [x for x in tab[c] if x >= 128 and x not in tab]
    tab = {c: l for c, l in tab.items() if l != [c]}           # absent = unchanged (as for ASCII non-letters)
    odd = [s for s in strings if s.casefold() != ''.join(ch.casefold() for ch in s)]
    return sorted(tab.items()), odd


def _strtab(tab: dict, s: str) -> str:
    if s not in tab:
        tab[s] = f's{len(tab)}'
    return tab[s]


def _c_kvs(tab, kvs) -> str:
    return '[' + '; '.join(f'({_strtab(tab, k)}, {_strtab(tab, v)})' for k, v in kvs) + ']'


def _c_nats(xs) -> str:
    return '[' + '; '.join(str(int(x)) if int(x) >= 0 else '999' for x in xs) + ']'   # -1 = object unknown to the history


def coq_wops(tab, op) -> list[str]:
    """The model operations of one implementation step (round 5: `ent.keys = kvs` is Clear then Update; an exception of
    the first would stop the second — [wsteps] below)."""
    if op[0] == 'keyset':
        return [coq_wop(tab, ('clear', op[1], op[2])), coq_wop(tab, ('update', op[1], op[2], op[3]))]
    return [coq_wop(tab, op)]


def coq_wop(tab, op) -> str:
    k = op[0]
    if k == 'newmap':
        return 'WNewMap'
    if k == 'parse':
        ents = [kv for kv, h in op[2] if not h] + [kv for kv, h in op[2] if h]
        return f'WParse {_c_kvs(tab, op[1])} [{"; ".join(_c_kvs(tab, e) for e in ents)}]'
    if k == 'copy':
        return f'WCopy {op[1]} {op[2]} {op[3]}'
    m = op[1]
    if k == 'new':
        o = f'NewEnt {_c_kvs(tab, op[2])}'
    elif k == 'create':
        o = f'CreateEnt {_strtab(tab, op[2])} {_c_kvs(tab, op[3])}'
    elif k == 'add':
        o = f'AddEnt {op[2]}'
    elif k == 'adds':
        o = f'AddEnts {_c_nats(op[2])}'
    elif k == 'rem':
        o = f'RemoveEnt {op[2]}'
    elif k == 'set':
        o = f'SetItem {op[2]} {_strtab(tab, op[3])} {_strtab(tab, op[4])}'
    elif k == 'del':
        o = f'DelItem {op[2]} {_strtab(tab, op[3])}'
    elif k == 'dels':
        o = f'DelItems {op[2]} [{"; ".join(_strtab(tab, x) for x in op[3])}]'
    elif k == 'pop':
        o = f'Pop {op[2]} {_strtab(tab, op[3])}'
    elif k == 'popitem':
        o = f'PopItem {op[2]}'
    elif k == 'setdefault':
        o = f'SetDefault {op[2]} {_strtab(tab, op[3])} {_strtab(tab, op[4])}'
    elif k == 'update':
        o = f'Update {op[2]} {_c_kvs(tab, op[3])}'
    elif k == 'clear':
        o = f'Clear {op[2]}'
    elif k == 'uniq':
        o = f'MakeUnique {op[2]} {_strtab(tab, op[3])}'
    elif k == 'export':
        o = f'Export {_strtab(tab, "0")}'
    elif k == 'probe':
        if op[2] == 'class':
            o = f'ProbeClass {_strtab(tab, op[3])}'
        else:
            o = 'ProbeTarget ' + ('None' if op[3] is None else f'(Some {_strtab(tab, op[3])})')
    else:
        raise AssertionError(op)
    return f'WOp {m} ({o})'


def coq_exp(tab, err: int, obs: dict) -> str:
    bc = '[' + '; '.join(f'({_strtab(tab, k)}, {_c_nats(v)})' for k, v in obs['by_class']) + ']'
    bt = '[' + '; '.join(f'({"None" if k is None else "Some " + _strtab(tab, k)}, {_c_nats(v)})' for k, v in obs['by_target']) + ']'
    keys = '[' + '; '.join(_c_kvs(tab, kv) for kv in obs['keys']) + ']'
    return f'({err}, {_c_nats(obs["ents"])}, {obs["spawn"]}, {keys}, {bc}, {bt})'


def observed_map(w: World, op) -> int:
    k = op[0]
    if k in ('newmap', 'parse'):
        return len(w.maps) - 1
    if k == 'copy':
        return op[3]
    return op[1]


RAISED: list = []
CF_TABLES: list = []


def run_case(ops) -> tuple[list, list, list]:
    """Run on the implementation; returns ([(flat_op, observed_map, err, obs)], [(map, query, sorted result)],
    [(position of the probe step, map, which, key, [entities yielded])] for every index iteration)."""
    w = World(2)
    steps = []
    iters = []
    queries = []
    try:
        with time_limit(HISTORY_LIMIT_S):
            for op in ops:
                pos = len(steps)
                try:
                    for flat, err in w.steps(op):
                        m = observed_map(w, flat)
                        steps.append((flat, m, err, w.observe(m)))
                except Exception as exc:   # noqa: BLE001 - an exception escaping the API: the model has none, report as disagreement
                    RAISED.append((ops, f'{type(exc).__name__}: {exc}'))
                    break
                if op[0] == 'iter' and op[2] in ('class', 'target') and not w.iter_truncated:
                    iters.append((pos, op[1], op[2], op[3], list(w.iter_yields)))
            for m in range(len(w.maps)):
                for q in QUERIES:
                    try:
                        multi = sorted(w.eid(m, e) for e in itertools.islice(w.maps[m].search(q), 200))
                        got = sorted(set(multi))
                    except Exception as exc:   # noqa: BLE001
                        RAISED.append((ops, f'search({q!r}): {type(exc).__name__}: {exc}'))
                        got = multi = [-1]
                    queries.append((m, q, got, multi))
    except Hang as exc:
        HANGS[0] += 1
        RAISED.append((ops, f'Hang: {exc}'))
    return steps, queries, iters


PRE_SHAPES = r"""
Definition sq2 (s : list nat) (q : str) (st : mstate) : bool :=
  eqb_ln (sorted_elems (search_sh cf gen_search_shape q st).1) s.
(* multiplicities: the implementation's yields (sorted, with repetitions) against search_count of the generated program *)
Fixpoint count_nat (x : nat) (l : list nat) : nat := match l with [] => 0 | y :: r => (if Nat.eqb x y then 1 else 0) + count_nat x r end.
Definition sq3 (ys : list nat) (q : str) (st : mstate) : bool :=
  forallb (fun e => Nat.eqb (count_nat e ys) (search_count cf gen_search_shape q e st)) (seq 0 (nobj st)).
"""


def corr(ck: Ck, escalate: bool = False, shapes: bool = False) -> None:
    # quick tier with a broken tie: a larger random budget, but the exhaustive short histories stay in thorough
    n = 2500 if ck.thorough else (600 if (escalate or ck.tie_broken) else 170)
    cases = []
    RAISED.clear()
    CF_TABLES.clear()
    HANGS[0] = 0
    seqs: list = list(CORPUS)
    if ck.thorough:
        seqs += list(exhaustive_short())
    n_uni = 0
    while len(seqs) < n:
        # round 4: every fifth random history draws its names from the non-ASCII alphabet (ß / SS / ss / İ ...): the model is
        # instantiated with table_fold <CPython's casefold table of the batch> instead of ASCII lower-casing
        uni = len(seqs) % 5 == 4
        n_uni += uni
        seqs.append(gen_ops(ck.rng, ck.rng.choice([3, 6, 12, 25, 40]), UNI_NAMES if uni else NAMES))
    ck.count('correspondence_non_ascii_histories', n_uni)
    for ops in seqs:
        if HANGS[0] >= 3:
            ck.notes.append(f'correspondence stopped after {len(cases)} histories: the implementation did not come back {HANGS[0]} times')
            break
        steps, queries, iters = run_case(ops)
        cases.append((ops, steps, queries, iters))
        ck.count('correspondence_index_iterations', len(iters))
        for it in iters:
            ck.hist('corr_iter_yields', len(it[4]))
        ck.count('correspondence_sequences')
        ck.count('correspondence_steps', len(steps))
        ck.hist('corr_len', len(steps) // 10 * 10)
        errs = 0
        for flat, _m, err, _o in steps:
            ck.hist('corr_ops', flat[0])
            ck.hist('corr_err', err)
            errs += err != 0
        kinds = {s[0][0] for s in steps}
        if len(steps) >= 2 and kinds & {'set', 'del', 'dels', 'pop', 'popitem', 'update', 'clear', 'keyset', 'uniq', 'rem'}:
            ck.seen(('corr', repr(ops)))
    ck.sample({'correspondence_ops': cases[len(CORPUS)][0][:6], 'impl_observation_after_last_step': cases[len(CORPUS)][1][-1][3] if cases[len(CORPUS)][1] else None})
    bad: list[tuple[int, Any]] = []
    bad_q: list[tuple[int, Any]] = []
    bad_i: list[tuple[int, Any]] = []
    bad_q2: list[tuple[int, Any]] = []
    B = min(120, max(34, -(-len(cases) // 6)))     # quick: 6 parallel batches
    from concurrent.futures import ThreadPoolExecutor
    from harness.common import parse_coq_nested

    def batch(lo: int):
        part = cases[lo:lo + B]
        tab: dict[str, str] = {}
        lits = []
        qlits = []
        ilits = []
        q2lits = []
        for ops, steps, queries, iters in part:
            lits.append('[' + '; '.join(f'([{"; ".join(coq_wops(tab, f))}], {m}, {coq_exp(tab, err, obs)})' for f, m, err, obs in steps) + ']')
            flat_ops = '[' + '; '.join(o for f, _m, _e, _o in steps for o in coq_wops(tab, f)) + ']'
            # position of an implementation step in the list of model operations (a keyset step is two of them)
            mpos = list(itertools.accumulate(len(coq_wops(tab, f)) for f, _m, _e, _o in steps))
            qs = ' && '.join(f'match w !! {m} with Some st => sq {_c_nats(r)} {_strtab(tab, q)} st | None => false end'
                             for m, q, r, _ in queries) or 'true'      # no queries: the history was cut short (exception / hang)
            if shapes:   # VMF.search as written (generated program over the defaultdict semantics), 5 of the queries
                qs2 = ' && '.join(f'match w !! {m} with Some st => sq2 {_c_nats(r)} {_strtab(tab, q)} st && sq3 {_c_nats(ys)} {_strtab(tab, q)} st | None => false end'
                                  for m, q, r, ys in queries if q in QUERIES_SH) or 'true'
                q2lits.append(f'(let w := wrun cf {flat_ops} w2 in {qs2})')
            qlits.append(f'(let w := wrun cf {flat_ops} w2 in {qs})')
            if iters:
                chk = ' && '.join(
                    f'iter_ok fl {mpos[pos] - 1} {m} {"true" if which == "class" else "false"} '
                    f'{_strtab(tab, key if which == "class" else "")} '
                    f'{("None" if key is None else "(Some " + _strtab(tab, key) + ")") if which == "target" else "None"} {_c_nats(ys)}'
                    for pos, m, which, key, ys in iters)
                ilits.append(f'(let fl := {flat_ops} in {chk})')
            else:
                ilits.append('true')
        cft, odd = casefold_table(list(tab))
        CF_TABLES.append((cft, odd))
        cfdef = ('Definition cf_tab : list (N * list N) := [' + '; '.join(f'({c}, [{"; ".join(map(str, l))}])' for c, l in cft) + ']%N.\n'
                 'Definition cf : str -> str := table_fold cf_tab.\n')
        pre = cfdef + PRE + (PRE_SHAPES if shapes else '') + ''.join(f'Definition {name} : str := {_coq_str(s)}.\n' for s, name in tab.items())
        exprs = ['[' + '; '.join(f'first_bad 0 {l} w2' for l in lits) + ']',
                 '[' + '; '.join(qlits) + ']',
                 '[' + '; '.join(ilits) + ']',
                 '[' + '; '.join(q2lits) + ']',
                 'tab_non_ascii cf_tab && tab_closed cf_tab']
        imports = IMPORTS + (['SV.SM.IndexShapes', 'SV.SM.IndexSearchCount', 'SV.Gen.IndexShapes_gen'] if shapes else [])
        return lo, ck.coq_eval(imports, exprs, name=f'index{lo}', preamble=pre, timeout=900)

    with ThreadPoolExecutor(max_workers=6) as ex:
        results = list(ex.map(batch, range(0, len(cases), B)))
    for lo, vals in results:
        if vals is None:
            ck.obligation('correspondence:index_ops', False, 'model could not be evaluated')
            ck.tie_broken.append('correspondence index operations: model evaluation failed')
            return
        res = parse_coq_nested(vals[0])
        for i, r in enumerate(res):
            if r is not None:
                bad.append((lo + i, r[1] if isinstance(r, tuple) else r))
        resq = parse_coq_nested(vals[1])
        for i, r in enumerate(resq):
            if r is not True:
                bad_q.append((lo + i, None))
        for i, r in enumerate(parse_coq_nested(vals[2])):
            if r is not True:
                bad_i.append((lo + i, None))
        for i, r in enumerate(parse_coq_nested(vals[3])):
            if r is not True:
                bad_q2.append((lo + i, None))
    bad_tab = [lo for lo, vals in results if vals[4].strip() != 'true']
    odd = sorted({s for _, o in CF_TABLES for s in o})
    union = sorted({(c, tuple(l)) for t, _ in CF_TABLES for c, l in t})
    ascii_ok = all(chr(c).casefold() == (chr(c + 32) if 65 <= c <= 90 else chr(c)) for c in range(128))
    ck.obligation('correspondence:casefold_is_table_fold', not bad_tab and not odd and ascii_ok,
                  f'str.casefold on the strings of the correspondence is code point by code point ({len(odd)} exceptions), ASCII lower-casing '
                  f'on ASCII ({ascii_ok}), and the table of the non-ASCII code points used ({[(hex(c), [hex(x) for x in l]) for c, l in union]}) has '
                  f'non-ASCII keys and folded images (tab_non_ascii && tab_closed, evaluated by Coq per batch: {len(bad_tab)} failures): '
                  f'the hypotheses of c07_table_fold_ok / c07_table_fold_idem, so the theorems apply to the folding the model was run with')
    if bad_tab or odd or not ascii_ok:
        ck.tie_broken.append('correspondence: str.casefold is not the table folding the model was instantiated with')
    ck.extra['casefold_table'] = [[c, list(l)] for c, l in union]
    ck.obligation('correspondence:index_ops', not bad,
                  f'{len(cases)} histories / {sum(len(c[1]) for c in cases)} steps: after every step error code, entity list, '
                  f'spawn, all key lists, by_class and by_target of model (vm_compute) vs implementation: {len(bad)} disagreements')
    ck.obligation('correspondence:search', not bad_q,
                  f'{len(cases)} final worlds x {len(QUERIES)} queries per map, model search vs VMF.search: {len(bad_q)} disagreements')
    if shapes:
        # diagnostic tie of the program semantics (sp_run): the generated program, run on the model state, predicts
        # what the implementation returns — also for a shape that fails its obligations (up to empty sets that
        # make_unique / iteration left behind in the implementation only)
        ck.obligation('correspondence:search_as_written', not bad_q2,
                      f'{len(cases)} final worlds x {len(QUERIES_SH)} queries per map, search_sh gen_search_shape '
                      f'(the program read off VMF.search) vs VMF.search, as sets and — search_count — with the multiplicity of every entity: {len(bad_q2)} disagreements')
        if bad_q2:
            ck.tie_broken.append('correspondence search as written (SM/IndexShapes.v sp_run vs VMF.search)')
    if RAISED:
        ck.obligation('correspondence:no_exception_escapes', False,
                      f'{len(RAISED)} histories in which an exception other than KeyError/ValueError escaped the implementation '
                      f'(the model has none), first: {RAISED[0][1]} in {RAISED[0][0]!r}'[:1500])
        ck.tie_broken.append('correspondence: an exception escaped the implementation')
    n_it = sum(len(c[3]) for c in cases)
    ck.obligation('correspondence:index_iteration', not bad_i,
                  f'{n_it} iterations of by_class[k] / by_target[k] with a mutating loop body: the entities the implementation '
                  f'yields are a permutation of the snapshot followed by a permutation of the late additions, as computed '
                  f'by the model (CopySet.__iter__ as [irun copyset_iter_today] for some order): {len(bad_i)} disagreements')
    if bad_i:
        ck.tie_broken.append('correspondence index iteration (CopySet.__iter__ trace vs SM/IndexShapes.v irun)')
        ck.extra['iteration_disagreement'] = {'ops': cases[bad_i[0][0]][0], 'iterations': cases[bad_i[0][0]][3]}
    if bad:
        i, step = min(bad, key=lambda b: len(cases[b[0]][1]))
        ck.tie_broken.append('correspondence index operations (SM/IndexModel.v wstep vs real VMF/Entity objects)')
        ck.extra['index_disagreement'] = {'ops': cases[i][0], 'first_bad_step': step,
                                          'flat_step': repr(cases[i][1][step][0]) if step < len(cases[i][1]) else None,
                                          'impl_obs': cases[i][1][step][3] if step < len(cases[i][1]) else None}
    if bad_q:
        ck.tie_broken.append('correspondence search (SM/IndexModel.v search vs VMF.search)')
        ck.extra['search_disagreement'] = {'ops': cases[bad_q[0][0]][0], 'queries': cases[bad_q[0][0]][2]}


def _coq_str(s: str) -> str:
    return '[' + ';'.join(str(ord(c)) for c in s) + ']%N' if s else '[]'


def exhaustive_short():
    """All histories of length <= 2 over one added entity with a mixed-case name and class, drawn from a small
    alphabet of key operations (thorough tier)."""
    base = [('create', 0, 'Ab', [('targetname', 'aB')])]
    alphabet = []
    for e in (0, 1):
        for k in ('classname', 'Classname', 'targetname', 'TargetName', 'x'):
            for v in ('a', 'A', '', 'worldspawn'):
                alphabet.append(('set', 0, e, k, v))
            alphabet.append(('del', 0, e, k))
            alphabet.append(('pop', 0, e, k))
        alphabet += [('clear', 0, e), ('popitem', 0, e), ('rem', 0, e, True), ('uniq', 0, e, 'a'), ('copy', 0, e, 1)]
    alphabet += [('add', 0, 1), ('export', 0), ('add', 1, 1)]
    for a in alphabet:
        if valid(base + [a]):
            yield base + [a]
    for a, b in itertools.product(alphabet, repeat=2):
        if valid(base + [a, b]):
            yield base + [a, b]


# ------------------------------------------------------------------------------------------------ source shapes
SHAPE_IMPORTS = ['SV.SM.IndexModel', 'SV.SM.IndexShapes', 'SV.SM.IndexMaint', 'SV.SM.IndexRemove', 'SV.SM.IndexSearchCount', 'SV.Gen.IndexShapes_gen']
SHAPE_OBLIGATIONS = {
    # Entity.__setitem__ (theorem c07_setitem_as_written: all five => the code is the model's set_item)
    'setitem_lookup_is_case_insensitive': 'ss_match_ok gen_setitem_shape',
    'setitem_previous_value_read_with_stored_spelling_before_store': 'ss_hit_read_ok gen_setitem_shape',
    'setitem_overwrites_the_stored_spelling': 'ss_hit_store_ok gen_setitem_shape',
    'setitem_else_path_previous_value_is_absent': 'ss_miss_read_ok gen_setitem_shape',
    'setitem_else_path_stores_callers_key': 'ss_miss_store_ok gen_setitem_shape',
    # VMF.search (theorem c07_search_as_written)
    'search_returns_nothing_for_empty_name': 'sh_empty_returns gen_search_shape',
    'search_folds_the_query': 'sh_folds gen_search_shape',
    'search_strips_the_star': 'sh_star_strips gen_search_shape',
    'search_star_branch_yields_exactly_the_prefix_scan': 'star_ok (sh_star gen_search_shape)',
    'search_exact_branch_yields_name_and_class_matches': 'exact_ok (sh_exact gen_search_shape)',
    'search_scans_a_snapshot_of_the_items': 'gen_search_scans_snapshot',
    # round 4 (theorem c07_search_multiplicity): no part is yielded twice on any path
    'search_star_branch_yields_every_match_once': 'star_once (sh_star gen_search_shape)',
    'search_exact_branch_yields_the_name_matches_once_and_the_class_matches_once': 'exact_once (sh_exact gen_search_shape)',
    # Entity.__setitem__, the maintenance part after the lookup loop (theorem c07_setitem_maintenance_as_written)
    'setitem_classname_branch_rekeys_by_class': 'maint_classname_ok gen_setitem_maint',
    'setitem_worldspawn_guard_error_path_restores_the_index': 'maint_guard_error_ok gen_setitem_maint',
    'setitem_targetname_branch_rekeys_by_target': 'maint_targetname_ok gen_setitem_maint',
    'setitem_other_keys_leave_the_indexes_alone': 'maint_other_ok gen_setitem_maint',
    # round 5, state census: membership is decided by scanning the entity list, not by a flag cached on the entity
    'setitem_decides_membership_by_scanning_the_entity_list_not_by_a_cached_flag': 'prog_stateless gen_setitem_maint',
    # VMF.add_ents over an iterable argument (theorem c07_add_ents_as_written)
    'add_ents_lists_and_indexes_each_entity_once_for_a_list_argument': 'ae_ok_reiterable gen_add_ents',
    'add_ents_lists_and_indexes_each_entity_once_for_a_one_shot_iterable': 'ae_ok_oneshot gen_add_ents',
    # _remove_copyset (theorem c07_remove_copyset_as_written: all four => the helper is the model's ix_remove)
    'remove_copyset_finds_the_set_without_raising_and_skips_an_absent_key': 'rc_lookup_ok gen_remove_copyset',
    'remove_copyset_discards_the_entity': 'rc_discards gen_remove_copyset',
    'remove_copyset_keeps_the_other_members': 'rc_keeps_others gen_remove_copyset',
    'remove_copyset_drops_the_set_that_became_empty': 'rc_drops_empty gen_remove_copyset',
    # CopySet.__iter__ (theorem c07_copyset_iteration_total)
    'copyset_iter_never_iterates_the_live_set': 'iprog_never_live gen_copyset_iter',
    'copyset_iter_is_snapshot_then_late_additions': 'iprog_is_today gen_copyset_iter',
}


# Entity.__delitem__ (Gen/IndexDel_gen.v, theorem c07_delitem_as_written) and VMF.add_ent / VMF.remove_ent
# (Gen/IndexListOps_gen.v, theorems c07_add_ent_as_written / c07_remove_ent_as_written)
DEL_IMPORTS = ['SV.SM.IndexModel', 'SV.SM.IndexShapes', 'SV.SM.IndexMaint', 'SV.SM.IndexDel', 'SV.SM.IndexClear', 'SV.Gen.IndexDel_gen']
DEL_OBLIGATIONS = {
    'delitem_targetname_branch_rekeys_by_target_under_the_membership_test': 'del_targetname_ok gen_delitem_maint',
    'delitem_refuses_the_classname': 'del_classname_refused gen_delitem_maint',
    'delitem_other_keys_leave_the_indexes_alone': 'del_other_ok gen_delitem_maint',
    'delitem_decides_membership_by_scanning_the_entity_list_not_by_a_cached_flag': 'prog_stateless gen_delitem_maint',
    'delitem_lookup_is_case_insensitive': 'del_loop_case_insensitive gen_delitem_loop',
    'delitem_pops_the_stored_spelling': 'del_loop_pops_stored gen_delitem_loop',
    # Entity.clear (theorem c07_clear_as_written)
    'clear_reindexes_through_setitem_and_delitem_before_emptying_the_keys': 'clear_reindexes_before_emptying gen_clear',
    'clear_empties_the_keys_once_and_stores_the_classname_back': 'clear_keeps_the_classname gen_clear',
}
LISTOPS_IMPORTS = ['SV.SM.IndexModel', 'SV.SM.IndexListOps', 'SV.Gen.IndexListOps_gen']
LISTOPS_OBLIGATIONS = {
    'remove_ent_leaves_the_worldspawn_indexed': 'remove_worldspawn_stays_indexed gen_remove_ent',
    'remove_ent_leaves_an_entity_that_is_still_listed_indexed': 'remove_still_listed_stays_indexed gen_remove_ent',
    'remove_ent_unlists_and_unindexes_any_other_entity': 'remove_unlists_and_unindexes gen_remove_ent',
    'add_ent_lists_and_indexes_the_entity_exactly_once': 'add_ok gen_add_ent',
}


# round 4: the glue (Gen/IndexGlue_gen.v; theorems c07_vmf_init_as_written, c07_parse_as_written, c07_create_ent_as_written,
# c07_entity_init_as_written, c07_pop_as_written, c07_make_unique_as_written)
GLUE_IMPORTS = ['SV.SM.IndexModel', 'SV.SM.IndexGlue', 'SV.Gen.IndexGlue_gen']
GLUE_OBLIGATIONS = {
    'vmf_init_creates_the_indexes_and_the_entity_list_before_the_worldspawn': 'vmf_init_containers_first gen_vmf_init',
    'vmf_init_worldspawn_is_a_new_entity_classed_through_setitem_and_filed_under_no_name': 'vmf_init_spawn_ok gen_vmf_init',
    'parse_takes_the_placeholder_out_of_both_indexes_before_replacing_the_spawn': 'parse_drops_the_placeholder gen_parse_spawn',
    'parse_classes_the_new_spawn_through_setitem_and_files_it_under_its_name': 'parse_files_the_new_spawn gen_parse_spawn',
    'parse_adds_every_entity_block_through_add_ent': 'parse_ent_ok gen_parse_entity',
    'create_ent_constructs_with_the_classname_and_adds_through_add_ent': 'create_ent_ok gen_create_ent',
    'entity_init_starts_from_a_new_empty_key_dict': 'ei_fresh_dict gen_einit',
    'entity_init_assigns_the_map_before_storing_keys': 'ei_map_first gen_einit',
    'entity_init_stores_the_keys_through_setitem': 'match ei_store gen_einit with EISetItemLoop => true | _ => false end',
    'entity_parse_constructs_through_entity_init': 'gen_entity_parse_through_init',
    'entity_copy_constructs_through_entity_init_with_its_own_keys_for_the_given_map': 'copy_ok gen_copy',
    'pop_lookup_is_case_insensitive': 'pop_lookup_is_case_insensitive gen_pop',
    'pop_deletes_through_delitem': 'pop_deletes_through_delitem gen_pop',
    'make_unique_keeps_a_name_that_only_this_entity_has': 'mu_unique_test_ok gen_make_unique',
    'make_unique_clears_its_own_name_before_searching': 'mu_clears_ok gen_make_unique',
    'make_unique_base_name_strips_digits_and_is_looked_up_folded': 'mu_base_ok gen_make_unique',
    'make_unique_candidates_count_from_1_and_are_looked_up_folded': 'mu_loop_ok gen_make_unique',
    'make_unique_stores_names_through_setitem': 'mu_stores_through_setitem gen_make_unique',
    'popitem_setdefault_update_are_the_mutablemapping_mixins': 'gen_mixins_inherited',
    'getitem_never_raises_so_setdefault_stores_nothing': 'gen_getitem_never_raises',
    # round 5: the deprecated `ent.keys = {...}` setter is clear_keys() (= clear) followed by update(<its argument>)
    'keys_setter_is_clear_then_update': 'gen_keys_setter_is_clear_then_update',
}
# the instance of theorem c07_property: all generated objects together pass programs_ok
PROGRAMS_EXPR = ('programs_ok (PG gen_setitem_shape gen_setitem_maint gen_delitem_maint gen_delitem_loop gen_clear gen_add_ent '
                 'gen_remove_ent gen_add_ents gen_remove_copyset gen_search_shape gen_vmf_init gen_parse_spawn gen_parse_entity '
                 'gen_create_ent gen_einit gen_entity_parse_through_init gen_copy gen_pop gen_make_unique gen_mixins_inherited '
                 'gen_getitem_never_raises)')


def shape_obligations(ck: Ck, ok_s: bool = True, ok_d: bool = False, ok_l: bool = False, ok_g: bool = False) -> None:
    groups = [g for g in ((ok_s, SHAPE_IMPORTS, SHAPE_OBLIGATIONS, 'IndexShapes_gen'),
                          (ok_d, DEL_IMPORTS, DEL_OBLIGATIONS, 'IndexDel_gen'),
                          (ok_l, LISTOPS_IMPORTS, LISTOPS_OBLIGATIONS, 'IndexListOps_gen'),
                          (ok_g, GLUE_IMPORTS, GLUE_OBLIGATIONS, 'IndexGlue_gen')) if g[0]]
    if ok_s and ok_d and ok_l and ok_g:
        groups.append((True, ['SV.SM.IndexProperty'], {'c07_property:all_programs_pass_their_obligations': PROGRAMS_EXPR}, 'Index*_gen'))
    # one coqc run for all generated files that exist (their definitions have distinct names)
    imports: list[str] = []
    obs: dict[str, str] = {}
    where: dict[str, str] = {}
    for _, imp, ob, gen in groups:
        imports += [i for i in imp if i not in imports]
        obs.update(ob)
        where.update({k: gen for k in ob})
    res = ck.instance_obligations(imports, obs, name='shapes')
    for oname, good in res.items():
        if not good:
            ck.tie_broken.append(f'source shape obligation {oname} (Gen/{where.get(oname, "?")}.v)')
    ck.extra['source_shapes'] = {g: ck.extra.get('translated', {}).get(g) for g in ('IndexShapes_gen', 'IndexDel_gen', 'IndexListOps_gen', 'IndexGlue_gen')}


# ------------------------------------------------------------------------------------------------ main
def _assumptions_in_background(ck: Ck, props_file: str):
    """Start the coqc run that ck.theorems(props_file) would make, in a thread; the returned function waits for it and
    calls ck.theorems with that run's result (ck.theorems itself is unchanged: it parses the output, records the axioms
    and the theorem obligations).  If the harness ever builds a different scratch file, it simply runs its own."""
    import re
    from concurrent.futures import ThreadPoolExecutor
    from harness.common import ROCQ
    names = re.findall(r'^\s*(?:Theorem|Lemma|Corollary)\s+([A-Za-z0-9_\']+)', (ROCQ / props_file).read_text(), re.M)
    mod = 'SV.' + props_file[:-2].replace('/', '.')
    body0 = f'Require Import {mod}.\n' + ''.join(f'Print Assumptions {n}.\n' for n in names)
    # four coqc runs side by side (Print Assumptions walks the whole dependency cone of every theorem: ~1 s each)
    n_chunks = 4
    chunks = [names[i::n_chunks] for i in range(n_chunks)]
    pool = ThreadPoolExecutor(max_workers=n_chunks)
    orig = ck.coq_scratch
    futs = [pool.submit(orig, f'Require Import {mod}.\n' + ''.join(f'Print Assumptions {n}.\n' for n in ch), f'assumptions{i}')
            for i, ch in enumerate(chunks) if ch]

    def finish() -> None:
        def cached(body: str, name: str = 'scratch', timeout: int = 600):
            if body != body0:
                return orig(body, name, timeout)
            res = [f.result() for f in futs]
            if any(rc != 0 for rc, _ in res):
                return max(rc for rc, _ in res), ''.join(out for _, out in res)
            # put the per-theorem blocks back into the order of the file
            from harness.common import _split_assumptions
            per: dict[str, list] = {}
            for ch, (_, out) in zip([c for c in chunks if c], res):
                blocks = _split_assumptions(out, len(ch))
                if len(blocks) != len(ch):
                    return orig(body, name, timeout)
                per.update(zip(ch, blocks))
            return 0, ''.join('Closed under the global context\n' if not per[n] else 'Axioms:\n' + ''.join(f'{a}\n' for a in per[n]) for n in names)
        ck.coq_scratch = cached          # type: ignore[method-assign]
        try:
            ck.theorems(props_file)
        finally:
            del ck.coq_scratch
            pool.shutdown()
    return finish


def run(ck: Ck) -> None:
    import time
    t0 = time.time()
    timing = ck.extra.setdefault('timing_s', {})

    def lap(name: str) -> None:
        nonlocal t0
        timing[name] = round(time.time() - t0, 1)
        t0 = time.time()
    ck.rule = ('histories over 2-3 real VMF objects with at most 6 entities each; names drawn from '
               "{a, A, Ab, aB, '', a1, worldspawn} (15 % of the oracle histories and 20 % of the correspondence histories: ß/SS/ss/İ), keys from classname/targetname in "
               'three spellings plus two other keys; operations create/new/copy/add/adds (iterable passed as generator, iterator, map object, list or tuple)/remove/set/del/tuple-del/pop/'
               'popitem/setdefault/update/clear/the deprecated `ent.keys = {...}` setter/make_unique/export/parse/new map/defaultdict read of an index (folded or '
               'un-folded key)/iterate-while-mutating (loop bodies: set/del/remove/pop/clear/make_unique/create a like-named '
               'entity = late addition); a history is non-trivial when it adds an entity to a map and afterwards mutates keys '
               'or removes; distinct by full history')
    ck.trusted.append('hand-written model SM/IndexModel.v (tied by the operation-sequence correspondence and the census translator on every run; '
                      'every function of the census and the glue around them additionally by translator-generated programs proved equal to it: theorem c07_property)')
    ck.trusted.append('translate/c07_index_shapes.py, c07_index_del.py, c07_index_listops.py, c07_index_glue.py (fail-closed symbolic walks of Entity.__setitem__ (lookup loop and index maintenance), Entity.__delitem__, Entity.clear, Entity.__init__/parse/copy/pop/make_unique, VMF.__init__, VMF.parse, VMF.create_ent, VMF.add_ent, VMF.add_ents, VMF.remove_ent, VMF.search, CopySet.__iter__, _remove_copyset)')
    ck.assumptions += [
        'str.casefold leaves the empty string and the literals classname/targetname/worldspawn unchanged (hypotheses of every theorem; true of CPython)',
        'operations refer to Entity objects created with the same VMF as parent; vmf.add_ent(vmf.spawn) is outside the domain',
        'str.casefold is idempotent and distributes over an appended decimal number, fold(b + str(i)) = fold(b) + str(i) (hypotheses of the search / make_unique termination theorems; proved for ASCII lower-casing and for every table folding, c07_table_fold_ok/idem; the table of the code points used is taken from CPython on every run)',
        'popitem / setdefault / update are the collections.abc.MutableMapping mixins (Entity does not define them: obligation) and behave as documented: popitem = first key through __getitem__/__delitem__, setdefault = __getitem__ else __setitem__, update = __setitem__ per item',
        'nobody writes through the dict returned by the deprecated Entity.keys property (the only place, besides Entity.copy -> constructor, where _keys escapes: census obligation all_key_dict_escapes_known)',
        "the 'nodeid' keyvalue processing of __setitem__/__delitem__/add_ent/remove_ent (property C08) does not touch classname/targetname and is not modelled",
    ]
    ok_t = ck.translate('IndexSites_gen', c07_index_sites.translate)
    side = ck.extra.get('translated', {}).get('IndexSites_gen', {})
    ok_s = ck.translate('IndexShapes_gen', c07_index_shapes.translate)
    ok_d = ck.translate('IndexDel_gen', c07_index_del.translate)
    ok_l = ck.translate('IndexListOps_gen', c07_index_listops.translate)
    ok_g = ck.translate('IndexGlue_gen', c07_index_glue.translate)
    built = ck.build(['Props/C07.vo'] + (['SM/IndexCensus.vo'] if ok_t else []) + (['Gen/IndexShapes_gen.vo'] if ok_s else [])
                     + (['Gen/IndexDel_gen.vo'] if ok_d else []) + (['Gen/IndexListOps_gen.vo'] if ok_l else [])
                     + (['Gen/IndexGlue_gen.vo'] if ok_g else []))
    lap('translate+build')
    if built:
        # Print Assumptions of every theorem of Props/C07.v is one single-threaded coqc run of about 20 s: it runs in
        # the background while the obligations and correspondences below are evaluated; ck.theorems() then does its
        # usual bookkeeping on that output (same scratch file text, see _assumptions_in_background)
        finish_theorems = _assumptions_in_background(ck, 'Props/C07.v')
        if ok_s or ok_d or ok_l or ok_g:
            shape_obligations(ck, ok_s, ok_d, ok_l, ok_g)
            lap('shape_obligations')
        if ok_t:
            obs = {
                'all_key_writers_modelled': 'all_key_writers_modelled',
                'all_index_writers_modelled': 'all_index_writers_modelled',
                'all_key_dict_escapes_known': 'all_key_escapes_known',
                'all_entity_list_writers_modelled': 'all_entity_list_writers_modelled',
                'all_spawn_writers_modelled': 'all_spawn_writers_modelled',
                'remove_ent_keeps_the_worldspawn_indexed': 'remove_ent_skips_worldspawn',
                'remove_ent_keeps_an_entity_that_is_still_listed_indexed': 'remove_ent_skips_still_listed',
                'every_modelled_index_writer_seen': 'every_modelled_writer_seen',
                'entity_index_adds_guarded_by_membership': 'entity_adds_guarded',
                'setitem_rekeys_by_class_remove_and_add': 'rekeys_balanced "Entity.__setitem__" "by_class"',
                'setitem_rekeys_by_target_remove_and_add': 'rekeys_balanced "Entity.__setitem__" "by_target"',
                'delitem_rekeys_by_target_remove_and_add': 'rekeys_balanced "Entity.__delitem__" "by_target"',
                'remove_ent_removes_from_both': 'existsb (fun s => String.eqb (site_fn s) "VMF.remove_ent" && String.eqb (site_ix s) "by_class") index_sites && existsb (fun s => String.eqb (site_fn s) "VMF.remove_ent" && String.eqb (site_ix s) "by_target") index_sites',
                'parse_drops_placeholder_spawn': 'existsb (fun s => String.eqb (site_fn s) "VMF.parse" && String.eqb (site_ix s) "by_class" && negb (site_add s)) index_sites && existsb (fun s => String.eqb (site_fn s) "VMF.parse" && String.eqb (site_ix s) "by_target" && negb (site_add s)) index_sites',
            }
            # the census hypothesis of theorem c07_property: every function that writes an index, an entity list, VMF.spawn or
            # a key dict (or hands such work to another writer) is one of the functions with an as-written semantics
            obs['c07_property:every_census_function_is_modelled'] = (
                'census_covered (map fst key_writers ++ map fst entity_list_writers ++ map fst spawn_writers ++ '
                'map (fun s => site_fn s) index_sites ++ map fst index_writer_calls ++ map snd index_writer_calls)')
            for fn in sorted({s[0] for s in side.get('index_sites', [])}):
                obs[f'index_keys_folded_in:{fn}'] = f'keys_folded_in "{fn}"'
                obs[f'index_key_values_come_from_the_filed_entity_in:{fn}'] = f'key_sources_ok_in "{fn}"'
            res = ck.instance_obligations(['Coq.Lists.List', 'Coq.Strings.String', 'Coq.Bool.Bool', 'SV.Gen.IndexSites_gen', 'SV.SM.IndexCensus',
                                           'SV.SM.IndexProperty'], obs, name='census')
            for name, ok in res.items():
                if not ok:
                    ck.tie_broken.append(f'census obligation {name} (Gen/IndexSites_gen.v)')
        # a changed hand-modelled function escalates the correspondence budget (never an alarm by itself)
        hand = {k: v for k, v in side.get('digests', {}).items() if k in MODEL_DIGESTS}
        if side.get('digests') and (hand != MODEL_DIGESTS or not (ok_s and ok_d and ok_l and ok_g)):
            ck.notes.append(f'hand-modelled functions changed since the model was written ({hand}): thorough correspondence budget')
            ck.extra['digest_escalation'] = True
        lap('census_obligations')
        corr(ck, escalate=bool(ck.extra.get('digest_escalation')), shapes=ok_s)
        lap('correspondence')
        finish_theorems()
        lap('print_assumptions(wait)')
    search(ck)
    lap('oracle_search')
    keys = {v['key'] for v in ck.violations}
    if keys:
        ck.explain('correspondence:')
        ck.explain('instance:')
        ck.explain('translate:')


def _tuplify(x):
    if isinstance(x, list):
        return [_tuplify(y) for y in x]
    return x


def replay(data: dict) -> int:
    r = data['replay']
    if 'ops' in r:
        ops = [_op_from_json(o) for o in r['ops']]
        w = World(2)
        i = 0
        for op in ops:
            for flat, err in w.steps(op):
                probs = [(m, p) for m in range(len(w.maps)) for p in w.scan_problems(m, QUERIES)]
                print(i, flat, 'err=%d' % err, probs or 'ok')
                i += 1
        return 0
    print(r)
    return 0


def _op_from_json(o):
    def conv(x):
        if isinstance(x, list):
            return [conv(y) for y in x]
        return x
    o = conv(o)
    k = o[0]
    if k in ('new',):
        return (k, o[1], [tuple(p) for p in o[2]])
    if k == 'create':
        return (k, o[1], o[2], [tuple(p) for p in o[3]])
    if k in ('update', 'keyset'):
        return (k, o[1], o[2], [tuple(p) for p in o[3]])
    if k == 'parse':
        return (k, [tuple(p) for p in o[1]], [([tuple(p) for p in kv], h) for kv, h in o[2]])
    if k == 'iter':
        return (k, o[1], o[2], o[3], tuple(o[4]))
    return tuple(o)
