"""C10 — saving an unmodified BSP is lossless whichever lump views were looked at."""
from __future__ import annotations

import contextlib
import enum
import hashlib
import io
import itertools
import os
import random
import struct
import zipfile
from pathlib import Path
from typing import Any

from harness.common import REPO, Ck, coq_list, parse_coq_nested
from harness import c10_util
from translate import c10_bspgraph
from translate import c11_formats, c11_glue      # C11's translators (read-only here): the generated view codecs

MANIFEST = dict(
    technique='Rocq proof (lazy-lump state machine with looks that raise: get/save over a dependency graph and a generated '
              'statement-order/loop shape, invariant by induction over ALL access sequences; file container model with '
              'read (write c) = c) + ast translator (ParsedLump/rebuild-order/reader/writer dependency graph, event order of '
              'ParsedLump.__get__ on every path, loop shape of BSP.save, reader-side lump stores, read-only/appending view uses, '
              'container constants) + vm_compute correspondences (traced get/save runs including raising looks; container model '
              'vs BSP.read/BSP.save byte-exact in both directions) + per-view codec premises re-derived from the view codecs that C11\'s '
              'translators generate from bsp.py (154 kernel-checked obligations grouped by view) + round-trip oracle on real, '
              'synthesised (adversarial-but-valid table contents) and malformed BSPs',
    text='Theorems in Props/C10.v, for every dependency graph g with order_consistent g = true, every __get__/save shape sh with '
         'shape_ok sh = true and every sequence of view accesses, including accesses whose reader raises and is caught: a look '
         'succeeds or fails only because some reader rejects the file\'s data (never for lack of fuel); a failed look leaves the '
         'view uncached, its lumps untouched and every view\'s denotation unchanged (literally the identity for views without '
         'reader dependencies); looking never changes what a view denotes; if save completes it empties the cache, every view '
         'parses to the same content (or is rejected as before), lumps without a view and lumps of untouched views are '
         'byte-identical, a second save is the identity, any number of look/save cycles is lossless; save completes whenever '
         'writers look only where readers looked (decidable on the graph). Each clause of order_consistent and each flag of the '
         'shape (raw data cleared before the reader finished = seeded c10_2; save walking a snapshot of the cached views = '
         'seeded c10_1) is shown harmful by a closed counterexample. Writers whose stores are conditional (SM/LazyLumpsCond.v): '
         'a skipped store of a lump the view clears IS a store of b\'\' (save_c = save with the filled writer, all graphs / '
         'histories), so such a writer is lossless iff the reader makes of b\'\' exactly the value for which the store is skipped '
         '(seeded c10_4 refuted in closed form); the translator lists every store under a data-dependent condition and the '
         'obligation cleared_lumps_are_never_stored_conditionally forbids them on cleared lumps. Writers that store a lump no '
         'view owns (FACEIDS; SM/LazyLumpsSide.v): if on the values parsed from the file each such store puts back what the file '
         'holds, saving with them equals saving without them pointwise, hence lossless; fabricated / zero-padded ids refuted. '
         'Readers that change cached objects of a view they look at (bmodels strips the model keys of the entities; '
         'SM/LazyLumpsMut.v): if the change is made only after the reader\'s parse succeeded, the mutated view is looked at by '
         'reader and writer of the mutating view, no two views change the same view and the writer undoes the change on the '
         'values of this file, the mutating machine saves exactly like the plain one (simulation over all histories), hence '
         'lossless; change-before-raise (fix 477021c) and missing undo refuted. '
         'Container: read (write c) = Some c for every well-formed '
         'container and layout with LZMA as an inverse pair (header, 64-row table in standard and L4D2 field order, revision, '
         'payload placement in write order, game-lump directory with absolute offsets, NUL separators and the dummy entry); '
         'four wf conditions shown necessary. order_consistent bsp_graph, shape_ok bsp_shape, layout_ok bsp_layout, '
         'bsp_layout = std_layout and 24 further named obligations are re-derived from bsp.py and kernel-checked on every run. '
         'Round 4: c10_property states the whole property once, with one codec premise per view (codec_ok_at: on the value the reader '
         'makes of THIS file\'s lumps the writer\'s output reads back equal and has one datum per owned lump): graph, shape and '
         'writers-look conditions + the premises give, for every access sequence, that save completes, empties the cache, keeps every '
         'view\'s content, keeps unowned lumps and the lumps of views outside the dependency closure byte-identical and is idempotent. '
         'For the texture-name view the premise is PROVED from the object generated from _lmp_write_textures/_lmp_read_textures '
         '(C11\'s tex_cfg): texcfg_ok (pool searched for name+NUL, name+NUL appended, guard below the window) and '
         'texcfg_window_is_guard (every name the reader can return passes the writer\'s guard) imply the premise for every content '
         'of the two lumps; seeded c10_5 (bare-name search) refuted in closed form. For views that are a plain array of fixed struct '
         'records (planes, vertexes, cubemaps) the premise is proved at record level for every lump content from C11\'s generated '
         'stream (one well-formed format of positive size on both sides), using the direction C11 does not state: whatever unpack '
         'returns for bytes fits the format. For the other views the premise is supported by '
         'C11\'s obligations over the generated records, formats, dedup keys, bit fields, entity template and visibility rows, '
         'discharged here per view on every run (codec[<views>]:<name>); pakfile has none. '
         'Round 5 (error paths): save_a models the rebuild loop of BSP.save with the except clause that puts the popped value back '
         'when a writer raises (generated flag bsp_save_restores_on_abort, obligation aborted_save_puts_the_popped_view_back): the '
         'clause matters only when the save raises (same flag, same result when it completes), and with it, after ANY history and a '
         'save that may raise half-way, every view still denotes what the file held and unowned lumps are untouched '
         '(c10_aborted_save_keeps_content), and any further looks followed by a save that completes are lossless with respect to the '
         'original file (c10_retry_after_aborted_save_lossless); without it a closed history loses a lump on the second save (the pinned '
         'tree before the repair). The repair on the integrated tree is the late-pop form of the loop (read the cached value, run the '
         'writer, consume its result, only then delete the cache entry: generated flag bsp_save_pops_late), which equals pop-first + '
         'put-back-on-raise when no writer looks at its own view (obligation late_pop_only_where_no_writer_looks_at_its_own_view). '
         'Header versions of lumps are cells no look touches: a writer may store into the header of its main lump only the number the '
         'reader recorded (self.static_prop_version.version, looked up in a table keyed by the header number); then save leaves every '
         'lump version as it was (c10_header_version_store_of_recorded_number_is_invisible; another number refuted).',
    note='Assumed in the theorems (visible hypotheses): each lump writer inverts its reader on the file\'s lumps (codec_ok, '
         'wr_len_ok: property C11); decompress (compress d) = d (CPython lzma). The container theorem is about the model '
         'Fmt/BspContainer.v, tied to BSP.read/BSP.save by byte-exact correspondence on random containers (not by a translator of '
         'the save body beyond its constants and loop shape); negative int32 fields, files >= 2 GiB, duplicate game-lump ids and '
         'truncated files are outside wf. Writers that append to a view they look at (find_or_insert) are classified and '
         'obliged to be read-or-append only; that appends are no-ops on values parsed from the file (every referenced item is '
         'already in its table: C11 find_or_insert_sound) is assumed, checked end to end by the oracle. FACEIDS (unowned, stored '
         'conditionally by the three face writers) is modelled under the visible hypothesis side_ok, whose data half (the ids '
         'written are the bytes of the file) is checked by the oracle only, on FACEIDS lumps that are full, all zero, empty and '
         'shorter than the face array; a FACEIDS lump LONGER than the face array (no compiler writes one) is cut to the face '
         'count by a look at faces + save (same parsed content, different bytes): in the default search since round 4, recorded as '
         'known finding raw-changed:FACEIDS|viewed=faces|input:faceids=long. Per-view codec premises: only the texture-name view '
         'has a theorem from the generated object to the premise; for the other views C11\'s obligations are necessary conditions '
         'tied to C11\'s theorems about assigned values, the step to "values read from this file" (every reference resolves into its '
         'table, values the reader returns fit the writer\'s formats) is searched only; C11\'s translators are used unchanged, so a '
         'refactoring they cannot classify alarms here too. Texture names that differ only in case (in the string table only / also named by texdata) are inputs for the histories that do '
         'not reach the texinfo writer (bsp.textures alone or with views outside texinfo\'s reach: both spellings are kept); for histories '
         'that reach it they stay outside (the texinfo writer de-duplicates names case-insensitively, as the compilers do: texinfo.mat '
         'takes another spelling of the same material). Hidden mutations: '
         'the translator lists the (reader, view) pairs by a taint analysis (may-analysis of direct attribute/item stores and '
         'mutating method calls, followed through BSP methods; changes made inside other classes\' methods are not seen) and '
         'the check pins the list; for (bmodels, ents) the graph hypotheses of the theorem and "nothing that can raise follows '
         'the first change" (a syntactic tail condition on the reader) are obligations, "the writer undoes it" is searched '
         '(malformed inputs bmodel_ref and seven PHYSCOLLIDE blocks the physics half of the reader rejects, oracle); '
         'the translator reads only the shape of the handler around the writer call (bare / Exception / BaseException, store of the popped '
         'name under the loop variable, re-raise, every use of the writer result inside the try); the texinfo/hammer_id '
         'fields the face readers set on the shared orig_faces objects are searched only. Not modelled, '
         'searched only: VitaminSource-only branches, '
         'zipfile. A save that raises because a writer looks at an unparsable view of a malformed file produces no '
         'file and is not counted as a violation. Trusted: Coq kernel + vm_compute, translate/c10_bspgraph.py (may-analysis; its '
         'result must contain every dynamically traced dependency), hand models SM/LazyLumps.v and Fmt/BspContainer.v (tied by '
         'correspondence; SM/LazyLumpsCond.v and SM/LazyLumpsSide.v extend the first and are tied only through the obligations '
         'on the translated store lists), harness/c10_util.py, CPython lzma/zipfile.',
)

# (reader, view) pairs where the reader changes, in place, objects it reaches through another view; each was reviewed:
# bmodels takes the "model" key out of the brush entities of ents (its writer, which precedes the ents writer in the rebuild
# order, puts it back; since fix 477021c only after every reference was resolved, so a look that raises leaves them alone);
# faces / hdr_faces set texinfo and hammer_id of the orig_faces objects (the ORIGINALFACES reader ignores both fields)
REVIEWED_ELEMENT_MUTATIONS = [('bmodels', 'ents'), ('faces', 'orig_faces'), ('hdr_faces', 'orig_faces')]
# the pairs of the kind "the reader changes, the writer of the same view undoes" (theorem c10_hidden_mutation_lossless)
RESTORED_ELEMENT_MUTATIONS = [('bmodels', 'ents')]
IMPORTS = ['SV.SM.LazyLumps', 'SV.SM.LazyLumpsProofs', 'SV.Fmt.BspContainer', 'SV.Gen.BspGraph_gen', 'Coq.Strings.String', 'Coq.Lists.List', 'Coq.Arith.Arith', 'Coq.Bool.Bool']
VIEWS = ['pakfile', 'ents', 'textures', 'texinfo', 'cubemaps', 'overlays', 'bmodels', 'brushes', 'visleafs',
         'water_leaf_info', 'nodes', 'visibility', 'vertexes', 'surfedges', 'planes', 'faces', 'orig_faces', 'hdr_faces',
         'primitives', 'props', 'detail_props']
SAMPLE = REPO / 'tests' / 'test_vec' / 'rot_main.bsp'


# ================================================================================================ canonical content
def canon(o: Any, depth: int = 0, memo: dict | None = None) -> Any:
    """Structural dump of a parsed view: attrs/slots objects by field, containers by element, floats by value."""
    import attrs
    from srctools.math import Vec, Angle, Matrix
    from srctools.vmf import VMF, Entity, Output
    from srctools.keyvalues import Keyvalues
    if memo is None:
        memo = {}
    if depth > 60:
        return '<deep>'
    if o is None or isinstance(o, (bool, int, str, bytes)):
        return o
    if isinstance(o, float):
        return struct.pack('<d', o + 0.0).hex() if o != o else o
    if isinstance(o, (bytearray, memoryview)):
        return bytes(o)
    if isinstance(o, enum.Enum):
        return (type(o).__name__, o.value)
    if isinstance(o, (Vec, Angle)):
        return (type(o).__name__, *[float(x) for x in o])
    k = id(o)
    if k in memo:
        if memo[k] is None:
            return '<cycle>'
        return memo[k]
    memo[k] = None
    if isinstance(o, (list, tuple)):
        r: Any = [canon(x, depth + 1, memo) for x in o]
    elif isinstance(o, (set, frozenset)):
        r = sorted((canon(x, depth + 1, memo) for x in o), key=repr)
    elif isinstance(o, VMF):
        r = ('VMF', o.map_ver, [canon(e, depth + 1, memo) for e in [o.spawn, *o.entities]])
    elif isinstance(o, Entity):
        r = ('Entity', sorted((k2.casefold(), v) for k2, v in o.items()), [canon(x, depth + 1, memo) for x in o.outputs])
    elif isinstance(o, Output):
        r = ('Output', o.output, o.inst_out, o.target, o.input, o.inst_in, o.params, float(o.delay), o.times)
    elif isinstance(o, Keyvalues):
        r = ('KV', o.real_name, [canon(c, depth + 1, memo) for c in o] if o.has_children() else o.value)
    elif isinstance(o, zipfile.ZipFile):
        r = ('Zip', [(i.filename, i.compress_type, i.date_time, o.read(i.filename)) for i in o.infolist()], o.comment)
    elif hasattr(o, 'items') and hasattr(o, 'keys'):      # WeakKeyDictionary of bmodels: keyed by entity
        r = ('Map', sorted(((canon(a, depth + 1, memo), canon(b, depth + 1, memo)) for a, b in o.items()), key=repr))
    elif attrs.has(type(o)):
        r = (type(o).__name__, [(f.name, canon(getattr(o, f.name), depth + 1, memo)) for f in attrs.fields(type(o))])
    elif type(o).__name__ in ('Edge', 'RevEdge'):
        r = ('Edge', canon(o.a, depth + 1, memo), canon(o.b, depth + 1, memo))
    elif hasattr(o, '__iter__') and not hasattr(o, '__len__'):     # an exhausted / lazy iterator (vitamin unused lumps)
        r = ('Iter', [canon(x, depth + 1, memo) for x in list(o)])
    else:
        r = ('?', type(o).__name__, repr(o))
    memo[k] = r
    return r


def _quiet():
    return contextlib.redirect_stdout(io.StringIO())


class TrialTimeout(BaseException):
    """Raised by the alarm around a call into the implementation (BaseException: not swallowed by `except Exception`)."""


# one look + save + re-read history takes 0.05 s on the synthesised files and up to 3 s on the bundled map under load; a
# call into the implementation that has not returned after this many seconds is reported as a failing input (`hangs`)
TRIAL_LIMIT_S = 60


def with_alarm(seconds: float, fn, *args, **kw):
    import signal
    import threading
    if threading.current_thread() is not threading.main_thread():
        return fn(*args, **kw)

    def on_alarm(signum, frame):
        raise TrialTimeout()
    old = signal.signal(signal.SIGALRM, on_alarm)
    signal.setitimer(signal.ITIMER_REAL, seconds)
    try:
        return fn(*args, **kw)
    finally:
        signal.setitimer(signal.ITIMER_REAL, 0)
        signal.signal(signal.SIGALRM, old)


def open_bsp(path):
    from srctools.bsp import BSP
    with _quiet():
        return BSP(os.fspath(path))


def view_canon(path, view: str) -> Any:
    """Parsed content of one view of a file, on a fresh object (views have hidden effects on each other)."""
    b = open_bsp(path)
    try:
        with _quiet():
            return canon(getattr(b, view))
    except Exception as e:      # noqa: BLE001 - a reader that raises is itself an observation
        return ('RAISES', type(e).__name__, str(e)[:200])


def raw_snapshot(b) -> dict:
    ver = b.version.value if isinstance(b.version, enum.Enum) else b.version
    return {
        'version': ver, 'game_ver': b.game_ver.value, 'map_revision': b.map_revision,
        'lumps': {l.name: (x.version, bool(x.is_compressed), bytes(x.data)) for l, x in b.lumps.items()},
        'games': [(g.id, g.flags, g.version, bytes(g.data)) for g in b.game_lumps.values()],
    }


def _lump_data(b, lname: str):
    from srctools.bsp import BSP_LUMPS
    if lname.startswith('game:'):
        g = b.game_lumps.get(lname[5:].encode())
        return None if g is None else bytes(g.data)
    return bytes(b.lumps[BSP_LUMPS[lname]].data)


class Subject:
    """One input file with its reference observations (computed lazily, once)."""

    def __init__(self, name: str, path: Path, desc: dict) -> None:
        self.name, self.path, self.desc = name, path, desc
        self.ref = raw_snapshot(open_bsp(path))
        self._canon: dict[str, Any] = {}
        self.out_canon: dict[tuple[str, bytes], Any] = {}
        self.malformed = bool(desc.get('opts', {}).get('bad'))

    def unparsable(self, view: str) -> bool:
        """Looking at this view raises on a fresh object of the original file (only asked for malformed inputs)."""
        if not self.malformed:
            return False
        c = self.canon(view)
        return isinstance(c, tuple) and len(c) == 3 and c[0] == 'RAISES'

    def raises_like_unparsable(self, e: BaseException) -> bool:
        """The exception is the one some unparsable view of this malformed file raises when looked at."""
        if not self.malformed:
            return False
        sig = (type(e).__name__, str(e)[:200])
        return any(self.unparsable(v) and tuple(self.canon(v)[1:]) == sig for v in VIEWS)

    def ref_data(self, lname: str) -> bytes:
        if lname.startswith('game:'):
            return next(g[3] for g in self.ref['games'] if g[0] == lname[5:].encode())
        return self.ref['lumps'][lname][2]

    @staticmethod
    def owner_parsed_before(b, lname: str, own: dict[str, str]) -> bool:
        """The lump's view is in the cache (so its raw data is legitimately cleared)."""
        from srctools.bsp import BSP, ParsedLump
        d = vars(BSP)[own[lname]]
        return isinstance(d, ParsedLump) and d.lump in b._parsed_lumps

    def canon(self, view: str) -> Any:
        if view not in self._canon:
            self._canon[view] = view_canon(self.path, view)
        return self._canon[view]


# ================================================================================================ the oracle
def owners(side: dict | None) -> dict[str, str]:
    """lump name -> view owning it (from the translator; falls back to the declarations at run time)."""
    from srctools.bsp import BSP, ParsedLump, BSP_LUMPS
    out = {}
    for name, d in vars(BSP).items():
        if isinstance(d, ParsedLump):
            for l in d.to_clear:
                out[l.name if isinstance(l, BSP_LUMPS) else 'game:' + l.decode()] = name
    return out


READER_DEPS: dict[str, list[str]] = {}     # filled from the translator's side info (view -> views its reader looks at)


def closure(view: str) -> set[str]:
    out, todo = set(), [view]
    while todo:
        v = todo.pop()
        if v not in out:
            out.add(v)
            todo += READER_DEPS.get(v, [])
    return out


def affected_views(changed: set[str], own: dict[str, str]) -> list[str]:
    """Views whose parsed content may depend on a changed lump (the owner and every view that reads through it)."""
    if not changed:
        return []
    if not READER_DEPS:
        return list(VIEWS)
    owners_changed = {own[l] for l in changed}
    return [v for v in VIEWS if closure(v) & owners_changed]


def primary(changed_views: list[str]) -> list[str]:
    """Parsed values embed the values of the views they reference; keep the views that changed by themselves."""
    if not READER_DEPS:
        return changed_views
    return [v for v in changed_views if not any(w != v and w in closure(v) for w in changed_views)]


def compare(subj: Subject, path_out, own: dict[str, str]) -> list[tuple[str, str]]:
    """Problems (kind, detail) of a saved file relative to the original."""
    probs: list[tuple[str, str]] = []
    try:
        rb = open_bsp(path_out)
    except Exception as e:      # noqa: BLE001
        return [('reread-fails', f'{type(e).__name__}: {e}')]
    new, ref = raw_snapshot(rb), subj.ref
    for f in ('version', 'game_ver', 'map_revision'):
        if new[f] != ref[f]:
            probs.append((f'header:{f}', f'{ref[f]!r} -> {new[f]!r}'))
    changed: set[str] = set()
    for l, (ver, comp, data) in ref['lumps'].items():
        nver, ncomp, ndata = new['lumps'][l]
        if nver != ver:
            probs.append((f'lump-version:{l}', f'{ver} -> {nver}'))
        if ncomp != comp:
            probs.append((f'lump-compressed-flag:{l}', f'{comp} -> {ncomp}'))
        if ndata != data:
            if l in own and subj.unparsable(own[l]):
                probs.append((f'raw-changed-unparsable:{l}', f'lump of bsp.{own[l]}, which cannot be looked at on this file '
                                                              f'(so it was never rebuilt): {len(data)} bytes -> {len(ndata)} bytes'))
            elif l in own:
                changed.add(l)
            else:
                probs.append((f'raw-changed:{l}', f'lump without a view: {len(data)} bytes -> {len(ndata)} bytes'))
    if [g[:3] for g in new['games']] != [g[:3] for g in ref['games']]:
        probs.append(('game-lump-directory', f'{[g[:3] for g in ref["games"]]} -> {[g[:3] for g in new["games"]]}'))
    else:
        for (gid, _, _, data), (_, _, _, ndata) in zip(ref['games'], new['games']):
            if data != ndata:
                nm = 'game:' + gid.decode('ascii', 'replace')
                if nm in own and subj.unparsable(own[nm]):
                    probs.append((f'raw-changed-unparsable:{nm}', f'game lump of bsp.{own[nm]}, which cannot be looked at on '
                                                                   f'this file: {len(data)} -> {len(ndata)} bytes'))
                elif nm in own:
                    changed.add(nm)
                else:
                    probs.append((f'raw-changed:{nm}', f'game lump without a view: {len(data)} -> {len(ndata)} bytes'))
    diffs = {}
    # the parsed content of a view of the saved file is a function of the file's content: histories that produce the same
    # container (all lumps, versions, flags, game lumps) share the result
    memo = subj.out_canon
    digest = hashlib.sha1(repr(sorted(new.items())).encode('latin1', 'backslashreplace')).digest() if changed else b''
    for v in affected_views(changed, own):
        if (v, digest) not in memo:
            memo[v, digest] = view_canon(path_out, v)
        a, b = subj.canon(v), memo[v, digest]
        if a != b:
            diffs[v] = _first_diff(a, b)
    for v in primary(list(diffs)):
        probs.append((f'view-content-changed:{v}', diffs[v]))
    return probs


def _first_diff(a: Any, b: Any, path: str = '') -> str:
    if type(a) is not type(b):
        return f'{path}: {str(a)[:80]} -> {str(b)[:80]}'
    if isinstance(a, (list, tuple)):
        if len(a) != len(b):
            return f'{path}: length {len(a)} -> {len(b)}'
        for i, (x, y) in enumerate(zip(a, b)):
            if x != y:
                return _first_diff(x, y, f'{path}[{i}]')
    return f'{path}: {str(a)[:80]} -> {str(b)[:80]}'


def run_trial(subj: Subject, cycles: list[list[str]], work: Path, own: dict[str, str]) -> list[tuple[str, str]]:
    """Read, look at the views of each cycle in order, save, re-read; finally save twice more without looking."""
    probs: list[tuple[str, str]] = []
    src = subj.path
    out = src
    for ci, accs in enumerate(cycles):
        out = work / f't{ci}.bsp'
        out.unlink(missing_ok=True)
        try:
            b = open_bsp(src)
        except Exception as e:      # noqa: BLE001
            return probs + [('reread-fails', f'cycle {ci}: {type(e).__name__}: {e}')]
        for v in accs:
            try:
                with _quiet():
                    getattr(b, v)
            except Exception as e:      # noqa: BLE001
                # A look may raise only if the view cannot be looked at on a fresh object of the ORIGINAL file either
                # (malformed lump); the caller catches it and goes on.  The failed look must not have touched the lumps
                # of the view (nothing was cached, so nothing would write them back).
                if not subj.unparsable(v):
                    return probs + [('look-raises', f'cycle {ci}: bsp.{v}: {type(e).__name__}: {e}')]
                for lname in sorted(l for l, w in own.items() if w == v):
                    now = _lump_data(b, lname)
                    if now is not None and now != subj.ref_data(lname) and not subj.owner_parsed_before(b, lname, own):
                        probs.append((f'failed-look-changed-lump:{lname}',
                                      f'cycle {ci}: bsp.{v} raised {type(e).__name__}; lump was {len(subj.ref_data(lname))} bytes, '
                                      f'is {len(now)} bytes in memory and the view is not cached'))
        try:
            with _quiet():
                b.save(os.fspath(out))
        except Exception as e:      # noqa: BLE001
            if subj.raises_like_unparsable(e):
                # A writer looked at a view that cannot be parsed on this malformed file: save is aborted before anything
                # is written (no file is produced, the property says nothing); the input file must be untouched.
                if out.exists():
                    probs.append(('aborted-save-left-a-file', f'cycle {ci}: {type(e).__name__}: {e}'))
                # ... and the caller carries on with the same object (nothing was modified): a later save either raises
                # again, or writes a file that still holds the content of the original.  The view whose writer raised had
                # its lumps cleared when it was looked at; if the aborted save forgot its parsed value the retry writes them empty.
                retry = work / f't{ci}_retry.bsp'
                retry.unlink(missing_ok=True)
                try:
                    with _quiet():
                        b.save(os.fspath(retry))
                except Exception as e2:      # noqa: BLE001
                    if not subj.raises_like_unparsable(e2):
                        probs.append(('save-raises', f'cycle {ci}: save after an aborted save: {type(e2).__name__}: {e2}'))
                    return probs
                for kind, detail in compare(subj, retry, own):
                    probs.append(('lost-after-aborted-save:' + kind, f'cycle {ci}: the first save raised {type(e).__name__} (a writer looked at '
                                  f'an unparsable view), the second save of the same object completed: {detail}'))
                return probs
            return probs + [('save-raises', f'cycle {ci}: {type(e).__name__}: {e}')]
        if b._parsed_lumps:
            probs.append(('cache-not-empty-after-save',
                          ','.join(sorted(getattr(k, 'name', None) or k.decode() for k in b._parsed_lumps))))
        probs += compare(subj, out, own)
        # the same object saved again (nothing looked at in between) writes the same file
        again = work / f't{ci}_again.bsp'
        try:
            with _quiet():
                b.save(os.fspath(again))
            if again.read_bytes() != out.read_bytes():
                probs.append(('second-save-differs', 'same object, saved twice'))
        except Exception as e:      # noqa: BLE001
            probs.append(('save-raises', f'second save of the same object: {type(e).__name__}: {e}'))
        src = out
    # re-read, save without looking: byte-identical file
    if cycles:
        try:
            rb = open_bsp(out)
            out2 = work / 'resave.bsp'
            with _quiet():
                rb.save(os.fspath(out2))
            if out2.read_bytes() != Path(out).read_bytes():
                probs.append(('second-save-differs', 're-read and saved without looking'))
        except Exception as e:      # noqa: BLE001
            if not any(k == 'reread-fails' for k, _ in probs):
                probs.append(('reread-fails', f'{type(e).__name__}: {e}'))
    return probs


# ================================================================================================ inputs
DEFAULT_OPTS = dict(layout='v20', compress=(), origin_vertex=True, faceids='full', water=True, overlay_aux=True, vis=True,
                    n_extra=1, extra_game=False, compress_game=(), fractional_bounds=False, detail_shapes=False, hdr=True, bad=(),
                    aux='normal', adv=True, sprp='layout', empty=False, odd_lzma=False, big=(), case_names='')
VARIANTS: list[dict] = (
    [dict(layout=l) for l in c10_util.LAYOUTS]
    + [dict(compress=('ENTITIES', 'PLANES', 'LEAFS', 'LIGHTING', 'FACES', 'TEXDATA_STRING_DATA')),
       dict(compress=('LEAFWATERDATA', 'VERTEXES', 'OCCLUSION', 'MODELS', 'PHYSCOLLIDE'), compress_game=('sprp',)),
       dict(compress_game=('dprp',)), dict(compress_game=('sprp', 'dprp', 'xtra'), extra_game=True),
       dict(extra_game=True), dict(layout='l4d2', compress=('ENTITIES', 'BRUSHES'), compress_game=('dprp',)),
       dict(n_extra=0), dict(n_extra=2, layout='v21'), dict(water=False), dict(overlay_aux=False), dict(vis=False),
       dict(hdr=False), dict(faceids='zeros'), dict(faceids='empty'), dict(faceids='short'), dict(faceids='long'), dict(origin_vertex=False),
       dict(adv=False),
       dict(layout='chaos', fractional_bounds=True), dict(detail_shapes=True)]
    # side lumps (cleared by a look, restored only by the view's writer) at the values where they LOOK unused
    + [dict(aux='zero'), dict(aux='default'), dict(aux='mixed'), dict(aux='maxed'), dict(aux='absent'),
       dict(aux='zero', layout='l4d2', compress=('OVERLAY_FADES', 'LEAFMINDISTTOWATER', 'TEXDATA'))]
    # game-lump layouts chosen by the lump's version field (static props V4 .. V13, the lightmapped 2013 layouts), tables that
    # are empty in many real maps (the static-prop reader then guesses the layout from the version number alone), LZMA blobs
    # with parameters / a dictionary size / trailing padding that srctools' own writer never produces
    + [dict(sprp=4), dict(sprp=7), dict(sprp=8), dict(sprp=10), dict(sprp=11, layout='v21'), dict(sprp='mesa'), dict(sprp='lm7'), dict(sprp='lm10'),
       dict(sprp=13, layout='chaos'), dict(empty=True), dict(empty=True, sprp=7), dict(empty=True, sprp=10, layout='v21'),
       dict(empty=True, sprp=11, layout='v21', compress_game=('sprp', 'dprp')),
       dict(odd_lzma=True, compress=('ENTITIES', 'TEXDATA_STRING_DATA', 'FACES', 'FACEIDS', 'LIGHTING', 'PLANES'),
            compress_game=('sprp', 'dprp')),
       dict(odd_lzma=True, layout='l4d2', compress=('LEAFS', 'OVERLAYS', 'MODELS', 'WORLDLIGHTS'), compress_game=('dprp',))]
    # round 6 (appended: the seeds of the inputs above are unchanged).  Compressed lumps and a compressed game lump of 5 KB, 70 KB and
    # 200 KB whose content repeats at distances 4 KB, 64 KB and further back than every power of two below the length (a blob whose
    # header names a smaller dictionary than the compressor used cannot be read back), compressed with CPython lzma, not with
    # srctools.  Texture names that differ from another table name only in letter case (in the table only / also named by texdata).
    + [dict(big=(5200, 70000, 200000, 340), compress=('LIGHTING', 'LIGHTING_HDR', 'VERTEXES'), compress_game=('xtra',), extra_game=True),
       dict(big=(70000, 200000, 5200, 5500), layout='l4d2', compress=('LIGHTING', 'LIGHTING_HDR', 'VERTEXES', 'ENTITIES'),
            compress_game=('xtra', 'sprp'), extra_game=True),
       dict(case_names='table'), dict(case_names='texdata'), dict(case_names='table', layout='chaos', compress=('TEXDATA_STRING_DATA',))]
)
# malformed lumps: looking at the view raises (at once, or after other views were parsed), the caller goes on and saves
BAD_VARIANTS: list[dict] = [
    dict(bad=('sprp_version',)), dict(bad=('sprp_size',)), dict(bad=('ents',)), dict(bad=('texinfo',)),
    dict(bad=('sprp_version',), compress_game=('sprp',)), dict(bad=('ents', 'dprp'), compress=('ENTITIES',), compress_game=('dprp',)),
    dict(bad=('overlays', 'sprp_size'), layout='v21', compress=('OVERLAYS',)), dict(bad=('texinfo', 'ents'), layout='l4d2'),
    dict(bad=('bmodel_ref',)),
    # round 5: what is left behind when a reader that CHANGES OBJECTS OF ANOTHER VIEW raises half-way.  bmodels (takes the "model"
    # keys out of the entities of ents): a PHYSCOLLIDE lump the container loads but the physics half of the reader rejects, for
    # every way that half can raise (struct.error: no terminator / cut inside a header; ValueError: two definitions for one
    # model; IndexError: block for a missing model; UnicodeDecodeError / KeyValError: keyvalue text).  faces / hdr_faces (set
    # texinfo and hammer_id of the shared orig_faces objects): a face record naming a missing plane, in the middle of the array.
    dict(bad=('phys_empty',)), dict(bad=('phys_noterm',), layout='v21'), dict(bad=('phys_cut',), compress=('PHYSCOLLIDE', 'MODELS')),
    dict(bad=('phys_dup',)), dict(bad=('phys_model',), layout='l4d2'), dict(bad=('phys_kv',)), dict(bad=('phys_kvsyntax',), layout='chaos'),
    dict(bad=('face_plane',)), dict(bad=('hdr_face_plane',), compress=('FACES_HDR',)),
]


def make_subject(work: Path, opts: dict, seed: int, tag: str) -> Subject:
    o = dict(DEFAULT_OPTS, **opts)
    blob, desc = c10_util.synth(random.Random(seed), **o)
    p = work / f'in_{tag}.bsp'
    p.write_bytes(blob)
    subj = Subject('synth:' + ','.join(f'{k}={v}' for k, v in sorted(opts.items())) or 'synth:default', p, dict(opts=opts, seed=seed))
    subj.parts = desc['_parts']
    return subj


def derive_sample(work: Path) -> Subject | None:
    """The bundled map with its texture name table made adversarial (it has a single name): the table gets, after the
    names of the file, a longer name and then a prefix, an inner substring and a tail of it, each stored in full, plus a
    second entry for the first name.  No texdata refers to the new entries (a name table may hold unused names)."""
    from srctools.bsp import BSP_LUMPS
    dec = c10_util.decode_container(SAMPLE.read_bytes())
    if 'error' in dec:
        return None
    sd, st = BSP_LUMPS.TEXDATA_STRING_DATA.value, BSP_LUMPS.TEXDATA_STRING_TABLE.value
    data, table = dec['lumps'][sd]['data'], dec['lumps'][st]['data']
    first = struct.unpack_from('<i', table, 0)[0] if len(table) >= 4 else 0
    base = data[first:data.index(b'\0', first)] if data else b'dev/devmeasuregeneric01'
    for nm in (base + b'_-128_64_32', base, base[1:], base[2:-2], b'_-128_64_32'):
        table += struct.pack('<i', len(data))
        data += nm + b'\0'
    table += struct.pack('<i', first)
    lumps = {i: (l['version'], l['data'], l['fourcc'] > 0) for i, l in dec['lumps'].items()}
    lumps[sd] = (lumps[sd][0], data, lumps[sd][2])
    lumps[st] = (lumps[st][0], table, lumps[st][2])
    games = [(g['id'], g['flags'], g['version'], g['data']) for g in dec['game_lumps']]
    p = work / 'in_sample_names.bsp'
    p.write_bytes(c10_util.encode_container(dec['magic'], dec['version'], dec['l4d2'], dec['map_revision'], lumps, games))
    return Subject('rot_main.bsp+names', p, {'file': 'tests/test_vec/rot_main.bsp', 'derive': 'names'})


def input_tag(opts: dict, fails) -> str:
    """Which non-default options of a synthesised input are needed for the failure (names the input class)."""
    need = {}
    for k, v in opts.items():
        rest = {a: b for a, b in opts.items() if a != k}
        if not fails(rest):
            need[k] = v
    if not need and not fails({}):
        need = dict(opts)
    return ','.join(f'{k}={"+".join(map(str, v)) if isinstance(v, tuple) else v}' for k, v in sorted(need.items())) or 'any'


# ================================================================================================ tracing / correspondence
class Tracer:
    """Records which views a reader / writer looks at, by wrapping ParsedLump.__get__ and the save functions."""

    def __init__(self) -> None:
        from srctools.bsp import BSP, ParsedLump
        self.BSP, self.PL = BSP, ParsedLump
        self.stack: list[tuple[str, str]] = []
        self.redges: dict[tuple[str, str], None] = {}      # in order of first observation (the model looks in this order)
        self.wedges: dict[tuple[str, str], None] = {}
        self.failed: set[str] = set()                       # views whose own reader raised (not a dependency's)
        self.name_of = {d.lump: n for n, d in vars(BSP).items() if isinstance(d, ParsedLump)}

    def __enter__(self):
        PL, tr = self.PL, self
        self.orig_get = PL.__get__
        self.orig_save = dict(self.BSP._save_funcs)

        def traced_get(desc, instance, owner=None):
            if instance is None:
                return tr.orig_get(desc, instance, owner)
            if tr.stack:
                kind, who = tr.stack[-1]
                (tr.redges if kind == 'r' else tr.wedges).setdefault((who, desc.__name__))
            tr.stack.append(('r', desc.__name__))
            try:
                return tr.orig_get(desc, instance, owner)
            except Exception as e:      # noqa: BLE001 - re-raised; only the origin is recorded
                if not getattr(e, '_c10_origin', None):
                    e._c10_origin = desc.__name__
                    tr.failed.add(desc.__name__)
                raise
            finally:
                tr.stack.pop()

        PL.__get__ = traced_get
        for lump, fn in self.orig_save.items():
            def traced_save(bsp, data, fn=fn, name=self.name_of[lump]):
                import inspect
                tr.stack.append(('w', name))
                try:
                    res = fn(bsp, data)
                    if inspect.isgenerator(res):
                        res = b''.join(res)
                    return res
                finally:
                    tr.stack.pop()
            self.BSP._save_funcs[lump] = traced_save
        return self

    def __exit__(self, *a):
        self.PL.__get__ = self.orig_get
        self.BSP._save_funcs.clear()
        self.BSP._save_funcs.update(self.orig_save)


def observe(b, ref_nonempty: set[str], pos: dict[str, int], tr: Tracer) -> tuple[list[int], list[str]]:
    cached = sorted(pos[tr.name_of[k]] for k in b._parsed_lumps)
    emptied = sorted(l.name for l, x in b.lumps.items() if l.name in ref_nonempty and not x.data) + \
        sorted('game:' + g.id.decode() for g in b.game_lumps.values() if 'game:' + g.id.decode() in ref_nonempty and not g.data)
    return cached, emptied


def correspondence(ck: Ck, side: dict, subjects: list[Subject], work: Path) -> None:
    """(1) every dynamically observed dependency is in the translated graph; (2) the Coq model, run on the
    dynamically observed graph with the translated shape, predicts exactly which looks raise, which views are cached
    and which lumps are empty after the accesses, whether save completes, and the same two sets after save."""
    pos = {v: i for i, v in enumerate(side['view_at']) if v}
    lnum = side['lump_num']
    static = side['views']
    n = ck.budget(60, 600)
    cases = []
    missing: set[tuple[str, str, str]] = set()
    hung = False
    for subj in subjects:
        if hung:
            ck.notes.append(f'correspondence: {subj.name} skipped after a traced run did not return')
            continue
        ref_nonempty = {l for l, (_, _, d) in subj.ref['lumps'].items() if d} | \
                       {'game:' + g[0].decode() for g in subj.ref['games'] if g[3]}
        seqs = [[v] for v in VIEWS] + [list(VIEWS), list(reversed(VIEWS))]
        while len(seqs) < n // len(subjects):
            k = ck.rng.choice([2, 3, 5, 8])
            seqs.append([ck.rng.choice(VIEWS) for _ in range(k)])
        runs = []
        with Tracer() as tr:
            for accs in seqs:
                flags = []

                def traced_run(accs=accs, flags=flags):
                    b = open_bsp(subj.path)
                    for v in accs:
                        try:
                            with _quiet():
                                getattr(b, v)
                            flags.append(True)
                        except Exception:      # noqa: BLE001 - a look that raises is part of the history
                            flags.append(False)
                    o1 = observe(b, ref_nonempty, pos, tr)
                    try:
                        with _quiet():
                            b.save(os.fspath(work / 'corr.bsp'))
                        saved = True
                    except Exception:      # noqa: BLE001
                        saved = False
                    return o1, saved, observe(b, ref_nonempty, pos, tr)
                try:
                    o1, saved, o2 = with_alarm(TRIAL_LIMIT_S, traced_run)
                except (Exception, TrialTimeout) as e:      # noqa: BLE001 - reported by the search stage with a replay
                    tr.stack.clear()
                    ck.notes.append(f'correspondence: {subj.name} {accs}: {type(e).__name__}: {e}')
                    if isinstance(e, TrialTimeout):
                        hung = True         # every further traced run could cost the time limit again: the search reports it
                        break
                    continue
                runs.append((accs, flags, o1, saved, o2))
                ck.count('correspondence_runs')
                ck.hist('correspondence_looks', 'raised' if not all(flags) else 'all succeeded')
                if len(o1[0]) > 1 or not all(flags):
                    ck.seen(('corr', subj.name, tuple(accs)))
            redges, wedges, failed = list(tr.redges), list(tr.wedges), sorted(tr.failed)
        for a, b2 in redges:
            if b2 not in static[a]['reader_views']:
                missing.add(('reader', a, b2))
        for a, b2 in wedges:
            if b2 not in static[a]['writer_views']:
                missing.add(('writer', a, b2))
        # the dynamic graph of this file, in the model's vocabulary (dependencies in the order they were first looked at)
        g = []
        for i, v in enumerate(side['view_at']):
            own, _, _, wst = side['graph'][i]
            g.append((own, [pos[x] for a, x in redges if a == v], [pos[x] for a, x in wedges if a == v], wst))
        cases.append((subj, g, runs, ref_nonempty, [pos[v] for v in failed]))
    ck.obligation('correspondence:traced-dependencies-in-translated-graph', not missing,
                  f'dependencies observed at run time but absent from Gen/BspGraph_gen.v: {sorted(missing)}' if missing else
                  f'every reader/writer dependency traced on {len(subjects)} files is in the translated graph')
    if missing:
        ck.tie_broken.append(f'translator misses run-time dependencies {sorted(missing)}')
    # model evaluation: data 1 = original bytes, 0 = b'', 2 = rewritten; parsed value = "some owned lump was non-empty";
    # the reader of a view in `bad` raises unless its main lump has been emptied (those are the views whose own reader was
    # seen raising on this file)
    pre = '''Import ListNotations.
Definition rdB (bad : list nat) (v : nat) (ds : list nat) : option bool :=
  if mem v bad && negb (Nat.eqb (hd 0 ds) 0) then None else Some (existsb (fun d => negb (Nat.eqb d 0)) ds).
Definition wrB (g : graph) (v : nat) (p : bool) : list nat := map (fun _ => if p then 2 else 0) (own g v).
Definition obs (g : graph) (lumps : list nat) (s : state nat bool) : list (list nat) :=
  [filter (fun v => match cache s v with Some _ => true | None => false end) (seq 0 (length g));
   filter (fun l => Nat.eqb (raw s l) 0) lumps].
Definition b2n (b : bool) : nat := if b then 1 else 0.
Definition sim (g : graph) (ne bad : list nat) (accs : list nat) :=
  let s0 := mkS (fun l => if mem l ne then 1 else 0) (fun _ => None) in
  let s1 := run nat bool 0 (rdB bad) g bsp_shape accs s0 in
  let r := save_a nat bool 0 (rdB bad) (wrB g) g bsp_shape bsp_save_restores_on_abort s1 in
  [map b2n (run_flags nat bool 0 (rdB bad) g bsp_shape accs s0)] ++ obs g ne s1 ++ [[b2n (fst r)]] ++ obs g ne (snd r).
'''
    bad = []
    total = raised = 0
    exprs = []
    for subj, g, runs, ref_nonempty, failed in cases:
        ne = sorted(lnum[l.split(':', 1)[1]] if l.startswith('game:') else lnum[l] for l in ref_nonempty
                    if (l.split(':', 1)[1] if l.startswith('game:') else l) in lnum)
        glit = coq_list('mkV [%s] [%s] [%s] [%s]' % tuple(';'.join(map(str, x)) for x in d) for d in g)
        exprs.append(f'let g := {glit} in map (sim g [{";".join(map(str, ne))}] [{";".join(map(str, failed))}]) '
                     + coq_list('[' + ';'.join(str(pos[v]) for v in accs) + ']' for accs, *_ in runs))
    vals = ck.coq_eval(IMPORTS, exprs, name='corr', preamble=pre)      # one expression per file, one coqc run for all
    if vals is None:
        ck.obligation('correspondence:get-save-model', False, 'model could not be evaluated')
        ck.tie_broken.append('correspondence get/save: model evaluation failed')
        return
    for (subj, g, runs, ref_nonempty, failed), val in zip(cases, vals):
        res = parse_coq_nested(val)
        for (accs, flags, o1, saved, o2), m in zip(runs, res):
            total += 1
            raised += not all(flags)
            mf, mc1, me1, ms, mc2, me2 = m
            exp = ([int(f) for f in flags], (o1[0], sorted(_lnum(lnum, l) for l in o1[1])), int(saved),
                   (o2[0], sorted(_lnum(lnum, l) for l in o2[1])))
            got = (list(mf), (sorted(mc1), sorted(me1)), ms[0], (sorted(mc2), sorted(me2)))
            if exp != got:
                bad.append({'file': subj.name, 'accs': accs,
                            'impl (look ok flags, (cached, emptied) after looks, save ok, (cached, emptied) after save)': exp,
                            'model': got})
    ck.obligation('correspondence:get-save-model', not bad,
                  f'{total} traced runs on {len(cases)} files ({raised} with looks that raise): which looks raise, cached views and '
                  f'emptied lumps after looking, whether save completes, cached/emptied after save; model (vm_compute, dynamic '
                  f'graph, translated shape) vs ParsedLump.__get__/BSP.save: {len(bad)} disagreements')
    if bad:
        ck.tie_broken.append('correspondence get/save (SM/LazyLumps.v vs ParsedLump.__get__/BSP.save)')
        ck.extra['get_save_disagreement'] = bad[:3]
    if not cases or not cases[-1][2]:
        return
    last = cases[-1][2][-1]
    ck.sample({'correspondence_case': {'file': cases[-1][0].name, 'accs': last[0], 'look_ok': last[1],
                                       'impl_after_look(cached,emptied)': last[2], 'save_ok': last[3], 'impl_after_save': last[4]}})


def _lnum(lnum: dict, l: str) -> int:
    return lnum[l.split(':', 1)[1]] if l.startswith('game:') else lnum[l]


def container_check(ck: Ck, subjects: list[Subject], work: Path) -> None:
    """Both directions of the container tie.  Read side: a file produced by the independent encoder (harness/c10_util.py)
    is read by BSP() into exactly the lumps, versions, flags, revision and game lumps that were encoded.  Write side:
    BSP.save of an untouched object produces byte for byte the file the independent encoder produces for the object's
    lumps in save's layout (index order, pakfile last, no padding, NUL between game lumps, dummy entry after a
    compressed last game lump, L4D2 field order)."""
    from srctools.bsp import BSP_LUMPS
    bad = []
    for subj in subjects:
        ref = subj.ref
        parts = getattr(subj, 'parts', None)
        ck.count('container_cases')
        if parts is not None:       # read side
            for idx, (ver, data, comp) in parts['lumps'].items():
                if idx == 35:
                    continue
                got = ref['lumps'][BSP_LUMPS(idx).name]
                if got != (ver, comp, data):
                    bad.append((subj.name, 'read', BSP_LUMPS(idx).name, got[:2], (ver, comp), len(got[2]), len(data)))
            if ref['games'] != parts['games'] or ref['map_revision'] != parts['map_revision'] or ref['version'] != parts['version']:
                bad.append((subj.name, 'read', 'header or game lumps'))
            magic, l4d2 = parts['magic'], parts['l4d2']
        else:
            blob = subj.path.read_bytes()
            magic, l4d2 = blob[:4], False
        b = open_bsp(subj.path)
        out = work / 'cont.bsp'
        try:
            with _quiet():
                b.save(os.fspath(out))
            written = out.read_bytes()
        except Exception as e:      # noqa: BLE001
            bad.append((subj.name, 'save raises', f'{type(e).__name__}: {e}'))
            continue
        lumps = {BSP_LUMPS[l].value: (ver, data, comp) for l, (ver, comp, data) in ref['lumps'].items()}
        expect = c10_util.encode_container(magic, ref['version'], l4d2, ref['map_revision'], lumps, ref['games'], align=False)
        if written != expect:
            dec = c10_util.decode_container(written)
            where = next((i for i, (x, y) in enumerate(zip(written, expect)) if x != y), min(len(written), len(expect)))
            bad.append((subj.name, 'write', f'first difference at byte {where} (sizes {len(written)} / {len(expect)})',
                        dec.get('error', 'decodes')))
    ck.obligation('correspondence:container', not bad,
                  f'{len(subjects)} files: BSP() reads independently encoded containers exactly; BSP.save writes byte-identically '
                  f'what the independent encoder writes (header, 64 table rows in either field order, revision, LZMA sizes, '
                  f'game-lump directory): {len(bad)} problems' + (f' {bad[:3]}' if bad else ''))
    if bad:
        ck.tie_broken.append('container: BSP.read / BSP.save disagree with the independent container model')
        ck.extra['container_problems'] = [list(map(str, x)) for x in bad[:10]]


def _rand_container(rng: random.Random, k: int) -> dict:
    """A small random container: 64 lumps (most empty), some LZMA lumps, 0-4 game lumps (the last one compressed or not),
    standard / L4D2 field order / VitaminSource magic."""
    kind = ['std', 'l4d2', 'vitamin', 'std', 'v19'][k % 5]
    version = {'std': rng.choice([20, 21, 22, 25, 29]), 'l4d2': 21, 'vitamin': 43, 'v19': 19}[kind]
    lumps: dict[int, tuple[int, bytes, bool]] = {}
    for idx in rng.sample([i for i in range(64) if i != 35], rng.choice([0, 3, 8, 20])):
        data = bytes(rng.randrange(256) for _ in range(rng.choice([0, 1, 3, 8, 17])))
        comp = bool(data) and idx != 40 and rng.random() < 0.35
        lumps[idx] = (rng.choice([0, 0, 1, 2, 7, 2 ** 31 - 1]), data, comp)
    if 40 not in lumps and rng.random() < 0.5:
        lumps[40] = (0, b'PK' + bytes(rng.randrange(256) for _ in range(9)), False)
    if kind == 'l4d2':
        v, d, c = lumps.get(0, (0, b'', False))
        lumps[0] = (0, d, c)
    games = []
    for j in range(rng.choice([0, 1, 2, 3, 4])):
        gid = bytes(rng.choice(b'abcdprsx') for _ in range(3)) + bytes([48 + j])
        data = bytes(rng.randrange(256) for _ in range(rng.choice([0, 2, 5, 13])))
        flags = rng.choice([0, 1, 1, 2, 0x8001, 6])
        games.append((gid, flags, rng.choice([0, 4, 10, 65535]), data))
    return dict(kind=kind, magic=b'FART' if kind == 'vitamin' else b'VBSP', version=version, l4d2=kind == 'l4d2',
                rev=rng.choice([0, 1, 4711, 2 ** 31 - 1]), lumps=lumps, games=games)


def container_model_check(ck: Ck, work: Path) -> None:
    """Fmt/BspContainer.v against BSP.read / BSP.save, both directions, byte-exact: for random small containers c
    (a) BSP() reads the independently encoded file into exactly c; (b) BSP.save of that object is byte for byte
    [write c] of the model; (c) the model's [read] decodes the implementation-saved file and an independently encoded,
    4-aligned file (gaps between lumps) back to c; (d) a wrong magic is rejected by both.  LZMA enters the model as a
    finite table of (data, compress_lzma(data)) pairs computed here."""
    from srctools.binformat import compress_lzma
    from srctools.bsp import BSP_LUMPS
    n = ck.budget(12, 240)
    cases = []
    bad: list = []
    for k in range(n):
        c = _rand_container(ck.rng, k)
        full = {i: c['lumps'].get(i, (0, b'', False)) for i in range(64)}
        f_tight = c10_util.encode_container(c['magic'], c['version'], c['l4d2'], c['rev'], full, c['games'], align=False)
        f_align = c10_util.encode_container(c['magic'], c['version'], c['l4d2'], c['rev'], full, c['games'], align=True)
        p = work / 'cm.bsp'
        p.write_bytes(f_align)
        ck.count('container_model_cases')
        ck.hist('container_model_kind', c['kind'])
        ck.hist('container_model_games', f"{len(c['games'])} game lumps, last compressed={bool(c['games'] and c['games'][-1][1] & 1)}")
        try:
            b = open_bsp(p)
            snap = raw_snapshot(b)
            out = work / 'cm_out.bsp'
            with _quiet():
                b.save(os.fspath(out))
            f_impl = out.read_bytes()
            snap2 = raw_snapshot(open_bsp(out))
        except Exception as e:      # noqa: BLE001
            bad.append((k, 'implementation raises', f'{type(e).__name__}: {e}'))
            continue
        want = {'version': c['version'], 'map_revision': c['rev'],
                'lumps': {BSP_LUMPS(i).name: (v, cp, d) for i, (v, d, cp) in full.items()}, 'games': c['games']}
        for sn, which in ((snap, 'BSP() of the independently encoded file'), (snap2, 'BSP() of the file BSP.save wrote')):
            got = {'version': sn['version'], 'map_revision': sn['map_revision'], 'lumps': sn['lumps'], 'games': sn['games']}
            if got != want:
                bad.append((k, which + ' differs from the encoded container', c['kind']))
        if (snap['game_ver'] == 'L4D2' or str(snap['game_ver']).endswith('L4D2')) != c['l4d2'] and False:
            bad.append((k, 'l4d2 detection', snap['game_ver']))
        lz = {}
        for i, (v, d, cp) in full.items():
            if cp and i != 40:
                lz[d] = compress_lzma(d)
        for gid, flags, gv, d in c['games']:
            if flags & 1:
                lz[d] = compress_lzma(d)
        cases.append((k, c, full, f_impl, f_align, lz, f_tight))
        if k % 7 == 0:      # a wrong magic is rejected
            p.write_bytes(b'VBSQ' + f_align[4:])
            try:
                open_bsp(p)
                bad.append((k, 'BSP() accepts a wrong magic'))
            except ValueError:
                pass
    def nlit(bs: bytes) -> str:
        return '[' + ';'.join(map(str, bs)) + ']'
    pre = '''Import ListNotations. Open Scope N_scope.
Definition sparse (xs : list (nat * lump)) : list lump :=
  map (fun i => match find (fun p => Nat.eqb (fst p) i) xs with Some p => snd p | None => lump0 end) (seq 0 64).
Definition lzc (t : list (list N * list N)) (d : list N) : list N :=
  match find (fun p => bytes_eqb (fst p) d) t with Some p => snd p | None => [] end.
Definition lzd (t : list (list N * list N)) (z : list N) : list N :=
  match find (fun p => bytes_eqb (snd p) z) t with Some p => fst p | None => [] end.
Definition opt_eqb (o : option container) (c : container) : bool := match o with Some x => cont_eqb x c | None => false end.
Definition case (t : list (list N * list N)) (c : container) (impl aligned : list N) : list bool :=
  [wf (lzc t) bsp_layout c; bytes_eqb (write (lzc t) bsp_layout c) impl;
   opt_eqb (read (lzd t) bsp_layout impl) c; opt_eqb (read (lzd t) bsp_layout aligned) c;
   match read (lzd t) bsp_layout (81 :: tl impl) with None => true | Some _ => false end].
'''
    imports = ['SV.Fmt.BspContainer', 'SV.Gen.BspGraph_gen', 'Coq.NArith.NArith', 'Coq.Lists.List']
    names = ['wf', 'write c = file written by BSP.save', 'read (file written by BSP.save) = c',
             'read (independently encoded aligned file) = c', 'wrong magic rejected']
    for lo in range(0, len(cases), 40):
        chunk = cases[lo:lo + 40]
        exprs = []
        for k, c, full, f_impl, f_align, lz, f_tight in chunk:
            lumps = '; '.join(f'({i}%nat, mkL {v} {nlit(d)} {"true" if cp else "false"})' for i, (v, d, cp) in sorted(c['lumps'].items()))
            games = '; '.join(f'mkG {nlit(g)} {fl} {gv} {nlit(d)}' for g, fl, gv, d in c['games'])
            tab = '; '.join(f'({nlit(d)}, {nlit(z)})' for d, z in lz.items())
            exprs.append(f'case [{tab}] (mkC {c["version"]} {"true" if c["l4d2"] else "false"} {c["rev"]} (sparse [{lumps}]) [{games}]) '
                         f'{nlit(f_impl)} {nlit(f_align)}')
        vals = ck.coq_eval(imports, exprs, name='container', preamble=pre, timeout=900)
        if vals is None:
            ck.obligation('correspondence:container-model', False, 'model could not be evaluated')
            ck.tie_broken.append('container model evaluation failed')
            return
        for (k, c, *_), v in zip(chunk, vals):
            res = parse_coq_nested(v)
            for nm, ok in zip(names, res):
                if not ok:
                    bad.append((k, 'model: ' + nm, c['kind'], f"{len(c['games'])} game lumps"))
    for k, c, full, f_impl, f_align, lz, f_tight in cases:
        if f_impl != f_tight:
            bad.append((k, 'BSP.save differs from the independent Python encoder', c['kind']))
    ck.obligation('correspondence:container-model', not bad,
                  f'{len(cases)} random containers (standard, L4D2 field order, VitaminSource; LZMA lumps and game lumps, dummy '
                  f'directory entry): BSP() reads exactly the encoded container; Fmt/BspContainer.write = BSP.save byte for byte; '
                  f'Fmt/BspContainer.read decodes saved and independently encoded files to the container; wrong magic rejected: '
                  f'{len(bad)} problems' + (f' {bad[:4]}' if bad else ''))
    if bad:
        ck.tie_broken.append('container model (Fmt/BspContainer.v) disagrees with BSP.read / BSP.save')
        ck.extra['container_model_problems'] = [list(map(str, x)) for x in bad[:10]]
        k = bad[0][0]
        c = next((c for kk, c, *_ in cases if kk == k), None)
        if c is not None:
            ck.violation('container-model|' + str(bad[0][1])[:60], f'container model and implementation disagree: {bad[0]}',
                         {'container': {'version': c['version'], 'l4d2': c['l4d2'], 'rev': c['rev'], 'kind': c['kind'],
                                        'lumps': {str(i): [v, d.hex(), cp] for i, (v, d, cp) in c['lumps'].items()},
                                        'games': [[g.decode('latin1'), fl, gv, d.hex()] for g, fl, gv, d in c['games']]},
                          'how': 'encode with harness.c10_util.encode_container(align=True), BSP(file), save, compare with the container'})
            ck.explain('correspondence:container-model')
            ck.explain('correspondence:container')      # the same disagreement seen by the independent Python encoder


# ================================================================================================ per-view codec premises
# The theorems assume, per view, that the writer inverts the reader on the values the file holds (c10_property:
# codec_ok_at).  That is property C11; its translators regenerate the codec of every view from bsp.py as Coq objects
# (Gen/BspFormats_gen.v, Gen/BspGlue_gen.v) and its check states boolean obligations over them.  C10 re-derives the
# same objects on every run and discharges the obligations that concern the round trip of values READ FROM A FILE
# (not the half of C11 about rejecting values that do not fit), grouped by the view whose premise they support.
FACE_VIEWS = ('faces', 'hdr_faces', 'orig_faces')
WRITER_VIEWS = {'_write_faces_common': FACE_VIEWS}
STREAM_VIEWS = {
    'planes': ('planes',), 'vertexes': ('vertexes',), 'edges': ('surfedges',), 'surfedges': ('surfedges',),
    'primverts': ('primitives',), 'primindices': ('primitives',), 'primitives': ('primitives',), 'faceids': ('faces', 'hdr_faces'),
    'faces': FACE_VIEWS, 'faces_vitamin': FACE_VIEWS, 'brushsides': ('brushes',), 'brushsides_vitamin': ('brushes',),
    'brushes': ('brushes',), 'leafwaterdata': ('water_leaf_info',), 'leafbrushes': ('visleafs',), 'leaffaces': ('visleafs',),
    'leafmindisttowater': ('visleafs',), 'leafs': ('visleafs',), 'leafs_v19': ('visleafs',), 'leafs_vitamin': ('visleafs',),
    'nodes': ('nodes',), 'vis_cluster_count': ('visibility',), 'vis_offsets': ('visibility',),
    'texdata_string_table': ('textures',), 'texdata': ('texinfo',), 'texdata_vitamin': ('texinfo',), 'texinfo': ('texinfo',),
    'bmodels': ('bmodels',), 'physcollide_header': ('bmodels',), 'physcollide_solid_size': ('bmodels',), 'cubemaps': ('cubemaps',),
    'overlay_fades': ('overlays',), 'overlay_system_levels': ('overlays',), 'prop_dict_count': ('props',),
    'prop_dict_name': ('props',), 'sprp_leaf_count': ('props',), 'sprp_leaf_array': ('props',), 'sprp_prop_count': ('props',),
    'dprp_sprite_count': ('detail_props',), 'dprp_sprite': ('detail_props',), 'dprp_detail_count': ('detail_props',),
    'dprp_detail': ('detail_props',), 'detail_model': ('detail_props',), 'detail_sprite': ('detail_props',),
    'detail_shape': ('detail_props',),
}
PREFIX_VIEWS = [('vis_', ('visibility',)), ('texdata_', ('textures',)), ('ent_', ('ents',)), ('overlay_', ('overlays',)),
                ('face_', FACE_VIEWS), ('leaf_', ('visleafs',)), ('brushside_', ('brushes',)), ('detail_', ('detail_props',)),
                ('prop_', ('props',)), ('helper_property_split_agrees:StaticProp', ('props',)),
                ('bool_code_agrees:DetailProp', ('detail_props',)), ('bool_code_agrees:StaticProp', ('props',))]
# the half of C11 that is about REJECTING values a user assigned (guards, range checks): says nothing about values read from a file
# views whose reader is iter_unpack of one format and whose writer packs every record with it (stream name = view name)
RECORD_ARRAY_VIEWS = ('planes', 'vertexes', 'cubemaps')
C11_REJECTION_ONLY = ('ns_site_guarded:', 'vis_writer_checks_row_length', 'no_value_is_masked_before_pack', 'find_or_extend_checks_bounds')


def views_of_c11_obligation(name: str) -> tuple[str, ...]:
    """The views whose codec premise an obligation of C11 supports ('*' = the struct layer under every view)."""
    head, _, arg = name.partition(':')
    if head in ('record_fields_agree', 'lump_formats_agree') and arg in STREAM_VIEWS:
        return STREAM_VIEWS[arg]
    if head == 'record_variants_cover_every_layout' and arg in STREAM_VIEWS:
        return STREAM_VIEWS[arg]
    if head == 'dedup_key_determines_record':        # '<writer function>:<table>'
        fn = arg.split(':')[0]
        if fn in WRITER_VIEWS:
            return WRITER_VIEWS[fn]
        if fn.startswith('_lmp_write_') and fn[len('_lmp_write_'):] in VIEWS:
            return (fn[len('_lmp_write_'):],)
    for pre, vs in PREFIX_VIEWS:
        if name.startswith(pre):
            return vs
    return ('*',)


def codec_obligations(fside: dict, glue: dict) -> dict[str, tuple[str, str, tuple[str, ...]]]:
    """name -> (boolean Coq expression, 'formats' | 'glue' | 'c10', views).  The expressions over Gen/BspFormats_gen.v are those
    of checks/c11.py (run), the ones over Gen/BspGlue_gen.v come from checks.c11.glue_obligations."""
    from checks import c11 as C11
    obs: dict[str, tuple[str, str]] = {}
    for name, _appl, _r, _w in c11_formats.STREAMS:
        obs[f'lump_formats_agree:{name}'] = (f'stream_ok_named layouts streams "{name}"', 'formats')
    for v in fside.get('prop_versions', {}):
        obs[f'prop_layout_agree:{v}'] = ('match find (fun v => let \'(n, _, _, _) := v in String.eqb n "%s") prop_versions with '
                                         'Some v => prop_ok v | None => false end' % v, 'formats')
        obs[f'prop_fields_agree:{v}'] = ('match find (fun v => let \'(n, _, _) := v in String.eqb n "%s") prop_fields with '
                                         'Some v => fields_ok v | None => false end' % v, 'formats')
    obs['overlay_block_agrees_for_every_face_count'] = (
        'overlay_ok overlay_reader overlay_writer_head overlay_writer_tail overlay_face_count overlay_writer_max_faces '
        'overlay_reader_max_faces overlay_face_fmts', 'formats')
    obs['detail_kind_dispatch:all'] = ('dispatch_ok detail_classes detail_write_dispatch detail_read_dispatch', 'formats')
    obs['every_format_string_is_in_the_modelled_language'] = ('forallb (fun l => forallb (fun kv => fmt_known (snd kv)) (snd l)) layouts',
                                                              'formats')
    for n, e in C11.glue_obligations(glue).items():
        obs[n] = (e, 'glue')
    out: dict[str, tuple[str, str, tuple[str, ...]]] = {}
    for n, (e, kind) in obs.items():
        if n.startswith(C11_REJECTION_ONLY):
            continue
        vs = views_of_c11_obligation(n)
        out[f'codec[{"+".join(vs)}]:{n}'] = (e, kind, vs)
    # C10's own: the step from the generated texture-table configuration to the premise (theorem c10_textures_codec_premise)
    out['codec[textures]:c10_textures_codec_premise_applies'] = ('texcfg_ok tex_cfg && texcfg_window_is_guard tex_cfg', 'c10', ('textures',))
    out['codec[textures]:every_name_the_reader_returns_passes_the_writers_guard'] = ('texcfg_window_is_guard tex_cfg', 'c10', ('textures',))
    # views that are a plain array of fixed records: theorem c10_record_array_codec_from_generated_stream applies in every
    # layout table (one well-formed format of positive size on both sides)
    for v in RECORD_ARRAY_VIEWS:
        out[f'codec[{v}]:c10_record_array_codec_premise_applies'] = (f'rec_stream_ok layouts streams "{v}"', 'c10f', (v,))
    return out


def codec_stage(ck: Ck, ok_f: bool, ok_g: bool) -> dict[str, bool]:
    """Discharge the per-view codec premises over C11's view codecs as regenerated from today's bsp.py (run: before the first build,
    so that every Gen file this check needs exists when make computes its dependencies)."""
    from checks import c11 as C11
    tr = ck.extra.get('translated', {})
    if not (ok_f and ok_g and ck.build(['Gen/BspFormats_gen.vo', 'Gen/BspGlue_gen.vo', 'SM/LazyLumpsCodec.vo', 'SM/LazyLumpsRecCodec.vo'])):
        return {}
    obs = codec_obligations(tr.get('BspFormats_gen', {}), tr.get('BspGlue_gen', {}))
    res: dict[str, bool] = {}
    for kind, imports in (('formats', C11.IMPORTS + ['SV.SM.LazyLumpsRecCodec']), ('glue', C11.IMPORTS_GLUE + ['SV.SM.LazyLumpsCodec'])):
        part = {n: e for n, (e, k, _) in obs.items() if k == kind or (kind, k) in (('glue', 'c10'), ('formats', 'c10f'))}
        if part:
            res.update(ck.instance_obligations(imports, part, name='codec_' + kind))
    per_view: dict[str, list[str]] = {v: [] for v in VIEWS}
    for n, (_, _, vs) in obs.items():
        for v in (VIEWS if vs == ('*',) else vs):
            per_view.setdefault(v, []).append(n.split(']:', 1)[1])
    specific = {v: [n for n, (_, _, vs) in obs.items() if v in vs] for v in VIEWS}
    ck.extra['codec_premise_obligations_per_view'] = {v: len(ns) for v, ns in specific.items()}
    ck.extra['views_without_a_codec_obligation_of_their_own'] = sorted(v for v, ns in specific.items() if not ns)
    ck.extra['codec_obligations_false'] = sorted(n for n, ok in res.items() if not ok)
    return res


def memoise_lzma() -> None:
    """compress_lzma is a pure function of its argument and by far the most expensive step of a save (23 ms per lump):
    the hundreds of saves of the same few compressed lumps share its results.  The function called is still the
    implementation's (a fault in it shows in every result); only repeated calls with equal bytes are answered from memory."""
    import functools
    import srctools.binformat as F
    import srctools.bsp as B
    if getattr(F.compress_lzma, '_c10_memo', False):
        return
    orig = F.compress_lzma
    cached = functools.lru_cache(maxsize=8192)(lambda data: orig(data))

    def compress_lzma(data: bytes) -> bytes:
        return cached(bytes(data))
    compress_lzma._c10_memo = True      # type: ignore[attr-defined]
    compress_lzma.__wrapped__ = orig    # type: ignore[attr-defined]
    F.compress_lzma = compress_lzma
    if getattr(B, 'compress_lzma', None) is orig:
        B.compress_lzma = compress_lzma


def lzma_header_obligation(ck: Ck) -> None:
    """Round 6: the header binformat.compress_lzma writes must name the parameters it handed to the compressor (a reader allocates
    the dictionary the header names; matches further back than that are corrupt data).  Read from the function's AST, fail closed:
    one lzma.compress(<arg>, lzma.FORMAT_RAW, filters=[F]) whose result C is returned as <Struct>.pack(b'LZMA', len(<arg>), len(C),
    (F['pb'] * 5 + F['lp']) * 9 + F['lc'], F['dict_size']) + C, with F a module-level dict literal assigned once.  Then the
    same statement on the running function: header fields of three outputs (long-range content of 5200 and 70000 bytes, empty) against
    the filter dictionary, and CPython's raw decoder set up FROM THE HEADER gives the data back."""
    import ast
    import lzma
    name = 'lzma_header_names_the_parameters_handed_to_the_compressor'
    try:
        import srctools.binformat as F
        tree = ast.parse(Path(F.__file__).read_text(encoding='utf8'))
        fn = next(n for n in tree.body if isinstance(n, ast.FunctionDef) and n.name == 'compress_lzma')
        arg = fn.args.args[0].arg
        binds: dict[str, list[ast.expr]] = {}
        for n in ast.walk(fn):
            if isinstance(n, (ast.Assign, ast.AnnAssign, ast.AugAssign)):
                for t in (n.targets if isinstance(n, ast.Assign) else [n.target]):
                    for nm in ast.walk(t):
                        if isinstance(nm, ast.Name):
                            binds.setdefault(nm.id, []).append(n.value)
            elif isinstance(n, (ast.For, ast.While, ast.With, ast.Try, ast.NamedExpr)):
                raise ValueError(f'{type(n).__name__} statement in compress_lzma')

        def resolve(e: ast.expr) -> ast.expr:
            while isinstance(e, ast.Name) and e.id in binds:
                if len(binds[e.id]) != 1:
                    raise ValueError(f'{e.id} is assigned {len(binds[e.id])} times')
                e = binds[e.id][0]
            return e
        rets = [n for n in ast.walk(fn) if isinstance(n, ast.Return)]
        if len(rets) != 1 or not isinstance(rets[0].value, ast.BinOp) or not isinstance(rets[0].value.op, ast.Add):
            raise ValueError('not a single "return header + payload"')
        head, payload = rets[0].value.left, resolve(rets[0].value.right)
        if not (isinstance(payload, ast.Call) and ast.unparse(payload.func) == 'lzma.compress' and len(payload.args) == 2
                and ast.unparse(payload.args[0]) == arg and ast.unparse(payload.args[1]) == 'lzma.FORMAT_RAW'
                and [k.arg for k in payload.keywords] == ['filters'] and isinstance(payload.keywords[0].value, ast.List)
                and len(payload.keywords[0].value.elts) == 1 and isinstance(payload.keywords[0].value.elts[0], ast.Name)):
            raise ValueError('payload is not lzma.compress(<arg>, lzma.FORMAT_RAW, filters=[<name>]): ' + ast.unparse(payload))
        filt = payload.keywords[0].value.elts[0].id
        tops = [n for n in ast.walk(tree) if isinstance(n, (ast.Assign, ast.AnnAssign, ast.AugAssign))
                and any(isinstance(x, ast.Name) and x.id == filt for t in (n.targets if isinstance(n, ast.Assign) else [n.target]) for x in ast.walk(t))]
        if len(tops) != 1 or tops[0] not in tree.body or not isinstance(tops[0].value, ast.Dict):
            raise ValueError(f'{filt} is not one module-level dict literal')
        if not (isinstance(head, ast.Call) and isinstance(head.func, ast.Attribute) and head.func.attr == 'pack' and len(head.args) == 5
                and not head.keywords):
            raise ValueError('header is not <Struct>.pack(5 fields)')
        want = ["b'LZMA'", f'len({arg})', None, f"({filt}['pb'] * 5 + {filt}['lp']) * 9 + {filt}['lc']", f"{filt}['dict_size']"]
        got = [ast.unparse(resolve(a)) for a in head.args]
        size_of = head.args[2]
        if not (isinstance(size_of, ast.Call) and ast.unparse(size_of.func) == 'len' and resolve(size_of.args[0]) is payload):
            raise ValueError('third header field is not len(<compressed payload>): ' + ast.unparse(size_of))
        bad = [f'field {i}: {g} (expected {w})' for i, (g, w) in enumerate(zip(got, want)) if w is not None and g != w]
        if bad:
            raise ValueError('; '.join(bad))
        # the running function
        used = getattr(F, filt)
        rng = random.Random(6)
        for data in (c10_util.long_range(rng, 5200), c10_util.long_range(rng, 70000), b''):
            blob = getattr(F.compress_lzma, '__wrapped__', F.compress_lzma)(data)
            sig, n, nc, props, dic = struct.unpack_from('<4sIIBI', blob)
            if (sig, n, nc) != (b'LZMA', len(data), len(blob) - 17):
                raise ValueError(f'header of a {len(data)}-byte input: {(sig, n, nc)}')
            if dic != used['dict_size'] or props != (used['pb'] * 5 + used['lp']) * 9 + used['lc']:
                raise ValueError(f'header of a {len(data)}-byte input names dictionary {dic}, properties {props}; the compressor got {used}')
            dec = lzma.LZMADecompressor(lzma.FORMAT_RAW, filters=[{'id': lzma.FILTER_LZMA1, 'dict_size': max(dic, 4096), 'lc': props % 9,
                                                                     'lp': props // 9 % 5, 'pb': props // 45}])
            if dec.decompress(blob[17:])[:n] != data:
                raise ValueError(f'a decoder set up from the header does not give the {len(data)} bytes back')
    except Exception as e:      # noqa: BLE001
        ck.obligation(name, False, f'{type(e).__name__}: {e}')     # no escalation: the large compressed lumps are default inputs
        return
    ck.obligation(name, True, f'compress_lzma: filters=[{filt}], header fields {got}')


# ================================================================================================ main
def run(ck: Ck) -> None:
    ck.rule = ('inputs: tests/test_vec/rot_main.bsp and synthesised consistent BSPs (7 layouts x options: LZMA lumps, '
               'compressed / extra game lumps, missing aux lumps, FACEIDS variants, no origin vertex, water, vis; side lumps '
               '(OVERLAY_FADES, OVERLAY_SYSTEM_LEVELS, LEAFMINDISTTOWATER, LEAFFACES, LEAFBRUSHES, PRIMINDICES, PRIMVERTS, '
               'BRUSHSIDES, TEXDATA, TEXDATA_STRING_TABLE) at the values where they look unused: all zero, the reader\'s defaults '
               'for an absent lump, first record zero, all bits set, optional side lumps absent); every synthesised file has '
               'adversarial-but-valid table contents (texture names that are prefix / inner substring / tail of an earlier name, a '
               '127-character name, two table entries for one string, exact and near duplicates of texdata / texinfo / planes / '
               'vertexes / edges, prop and detail-prop dictionaries with prefix and unused names, entity text that needs escaping); '
               'static-prop layouts V4..V13, lightmapped and Black Mesa chosen by the game-lump version; empty prop / detail / overlay '
               '/ cubemap tables; LZMA blobs with foreign parameters, small dictionary field and trailing NUL; FACEIDS longer than '
               'the face array; the bundled map also with an adversarial texture-name table; histories: '
               'no access, every single view, every ordered pair on the default file, random subsets and orders, all views '
               'forwards/backwards, 1-3 look/save cycles; 18 malformed inputs (unknown static-prop version, stray bytes in the prop '
               'lump, unterminated entity, entity naming a missing brush model, texinfo naming a missing texdata, truncated detail props / overlays, '
               'PHYSCOLLIDE without terminator / cut inside a header / with two definitions for one model / a block for a missing model / '
               'non-ASCII or unclosed keyvalue text, a face record naming a missing plane in FACES or FACES_HDR, also LZMA-compressed) '
               'whose failing views are looked at inside try/except before saving; random small containers for the container '
               'model; a case is non-trivial when at least one view is looked at; distinct by (input, access cycles)')
    ck.trusted.append('hand-written models SM/LazyLumps.v (tied by traced correspondence on every run, including looks that raise) '
                      'and Fmt/BspContainer.v (tied byte-exactly to BSP.read/BSP.save on random containers on every run); '
                      'harness/c10_util.py (independent container encoder/decoder, BSP synthesiser); CPython lzma (compress_lzma '
                      'output enters the container model as a finite table)')
    ck.assumptions.append('decompress (compress d) = d (hypothesis of c10_container_roundtrip); appends by writers to views they '
                          'look at are no-ops on values parsed from the file (C11 find_or_insert_sound + table completeness)')
    ck.assumptions.append('codec_ok / wr_len_ok (each writer inverts its reader on the lumps of the file: C11) are hypotheses of '
                          'the theorems, one premise per view in c10_property; proved from the generated object for the texture-name '
                          'view, supported by C11\'s generated-object obligations (re-derived here on every run) for the others, '
                          'checked end to end by the oracle on the inputs')
    ck.trusted.append('translate/c11_formats.py, translate/c11_glue.py (and the c11_* modules they use) and checks.c11.glue_obligations: '
                      'C11\'s translators and obligation expressions, used unchanged for the per-view codec premises')
    import time
    memoise_lzma()
    work = ck.scratch / 'bsp'
    work.mkdir()
    tm = ck.extra.setdefault('timing_s', {})
    t0 = time.time()
    ok_t = ck.translate('BspGraph_gen', c10_bspgraph.translate)
    ok_f = ck.translate('BspFormats_gen', c11_formats.translate)
    ok_g = ck.translate('BspGlue_gen', c11_glue.translate)
    tm['translate'] = round(time.time() - t0, 1)
    side = ck.extra.get('translated', {}).get('BspGraph_gen')
    built = ok_t and ck.build(['Props/C10.vo', 'Gen/BspGraph_gen.vo'])
    tm['translate+build'] = round(time.time() - t0, 1)
    inst: dict[str, bool] = {}
    if built:
        ck.theorems('Props/C10.v')
        tm['translate+build+assumptions'] = round(time.time() - t0, 1)
        n = 'length bsp_graph'
        vpos = {v: i for i, v in enumerate(side['view_at']) if v}
        reviewed = sorted((vpos[a], vpos[b]) for a, b in REVIEWED_ELEMENT_MUTATIONS if a in vpos and b in vpos)
        reviewed_coq = '(' + ' :: '.join([f'({a}, {b})' for a, b in reviewed] + ['nil']) + ')'
        pair_eqb = '(fun p q => Nat.eqb (fst p) (fst q) && Nat.eqb (snd p) (snd q))'
        restored = sorted((vpos[a], vpos[b]) for a, b in RESTORED_ELEMENT_MUTATIONS if a in vpos and b in vpos)
        restored_coq = '(' + ' :: '.join([f'({a}, {b})' for a, b in restored] + ['nil']) + ')'
        inst = ck.instance_obligations(IMPORTS, {
            'order_consistent_bsp_graph': 'order_consistent bsp_graph',
            'every_dependency_later_in_rebuild_order': f'forallb (deps_later bsp_graph) (seq 0 ({n}))',
            'no_writer_looks_at_its_own_view': f'forallb (fun i => negb (mem i (v_wdeps (decl bsp_graph i)))) (seq 0 ({n}))',
            'no_reader_looks_at_its_own_view': f'forallb (fun i => negb (mem i (v_rdeps (decl bsp_graph i)))) (seq 0 ({n}))',
            'every_cleared_lump_stored_by_its_writer': f'forallb (owns_stored bsp_graph) (seq 0 ({n}))',
            'no_lump_owned_twice': f'forallb (fun i => own_nodup bsp_graph i && own_disjoint bsp_graph i) (seq 0 ({n}))',
            'every_view_in_rebuild_order': 'match bsp_views_not_in_order with nil => true | _ => false end',
            'no_two_views_share_a_main_lump': 'match bsp_views_same_main with nil => negb bsp_order_has_duplicates | _ => false end',
            'raw_reads_own_or_unowned': 'forallb (fun p => mem (snd p) (own bsp_graph (fst p)) || '
                                        f'negb (existsb (fun j => mem (snd p) (own bsp_graph j)) (seq 0 ({n})))) bsp_raw_reads',
            'stores_go_to_owned_lumps': 'forallb (fun p => mem (snd p) (own bsp_graph (fst p))) bsp_stores',
            # a lump that a look clears (ParsedLump.to_clear) is empty when the writer runs: a store of it that is skipped under
            # some data-dependent condition ("only when used") leaves it empty in the saved file (seeded c10_4)
            'cleared_lumps_are_never_stored_conditionally':
                f'forallb (fun p => negb (existsb (fun j => mem (snd p) (own bsp_graph j)) (seq 0 ({n})))) bsp_cond_stores',
            # hypothesis side_ok of c10_store_outside_view_lossless, its graph half: a writer stores, outside the lumps of
            # its own view, only lumps that no view owns (FACEIDS)
            'stores_outside_the_view_go_to_unowned_lumps':
                'forallb (fun p => mem (snd p) (own bsp_graph (fst p)) || '
                f'negb (existsb (fun j => mem (snd p) (own bsp_graph j)) (seq 0 ({n})))) (bsp_stores ++ bsp_cond_stores)',
            'conditional_stores_only_FACEIDS_unowned': 'forallb (fun p => Nat.eqb (snd p) 11 && '
                                                       f'negb (existsb (fun j => mem 11 (own bsp_graph j)) (seq 0 ({n})))) bsp_cond_stores',
            # statement order of ParsedLump.__get__ and loop shape of BSP.save (hypothesis shape_ok of the theorems)
            'shape_ok_bsp_shape': 'shape_ok bsp_shape',
            'get_clears_raw_data_only_after_the_reader_has_finished': 'negb (sh_early_main bsp_shape) && negb (sh_early_extra bsp_shape)',
            'get_caches_every_parsed_value': 'negb bsp_get_parse_uncached',
            # the model's look caches and clears nothing when the reader raises (getf: None => (false, snd r))
            'get_caches_and_clears_nothing_when_the_reader_raises': 'negb bsp_get_stores_on_raising_path',
            'readers_never_store_lump_data': 'match bsp_reader_stores with nil => true | _ => false end',
            'save_pops_views_during_the_walk_of_the_rebuild_order': 'negb (sh_snapshot bsp_shape)',
            # hypothesis writers_can_look of c10_save_lossless (save completes): implied by wdeps being within rdeps
            'writers_look_only_at_views_their_readers_look_at': 'wdeps_within_rdeps bsp_graph',
            # what writers do with the views they look at (0 read, 1 append through find_or_insert/find_or_extend/.append)
            # constants of the file container the model Fmt/BspContainer.v is instantiated with
            'container_layout_as_modelled': 'layout_eqb bsp_layout std_layout',
            'container_layout_ok': 'layout_ok bsp_layout',
            'container_struct_formats_as_modelled': 'list_eqb String.eqb bsp_container_formats '
                                                    '("<4si" :: "<4i" :: "<i" :: "<4s HH ii" :: nil)%string',
            # objects reached through another view (entities of ents, faces of orig_faces) changed in place: only the reviewed
            # (reader, view) pairs; any other hidden mutation of a cached view is outside the model
            'readers_change_objects_of_other_views_only_where_reviewed':
                f'forallb (fun p => existsb ({pair_eqb} p) {reviewed_coq}) bsp_reader_elem_mutations',
            'writers_change_no_objects_of_other_views': 'match bsp_writer_elem_mutations with nil => true | _ => false end',
            # graph hypotheses of c10_hidden_mutation_lossless for the restored pairs: the mutated view is looked at by the reader
            # AND by the writer of the mutating view, and no other reader changes objects of the same view
            'restored_mutations_are_looked_at_by_reader_and_writer_and_unique':
                f'forallb (fun p => mem (snd p) (v_rdeps (decl bsp_graph (fst p))) && mem (snd p) (v_wdeps (decl bsp_graph (fst p))) && '
                f'forallb (fun q => negb (Nat.eqb (snd q) (snd p)) || Nat.eqb (fst q) (fst p)) bsp_reader_elem_mutations) {restored_coq}',
            # hypothesis early = false of the same theorem: from the first change on, the reader consists of nothing but the
            # changes themselves, the loops / tests around them and the final return (nothing that can still raise follows)
            'restored_mutations_happen_after_everything_that_can_raise':
                f'forallb (fun p => negb (existsb ({pair_eqb} p) bsp_reader_elem_mutations_early)) {restored_coq}',
            # what BSP.save leaves behind when a writer raises (theorem c10_aborted_save_keeps_content is about save_a true; without
            # the except clause the popped view is dropped although its lumps were cleared: c10_aborted_save_drops_view_refuted)
            'aborted_save_puts_the_popped_view_back': 'bsp_save_restores_on_abort',
            # a loop that forgets the cached value only after the lumps were rebuilt equals the modelled pop-first loop only if no
            # writer looks at its own view (it would see the cached value instead of the cleared lump)
            'late_pop_only_where_no_writer_looks_at_its_own_view':
                f'negb bsp_save_pops_late || forallb (fun i => negb (mem i (v_wdeps (decl bsp_graph i)))) (seq 0 ({n}))',
            # header versions of lumps (cells of the file no look touches; theorem c10_header_version_store_of_recorded_number_is_invisible):
            # a writer stores into the header of its view's MAIN lump only, and only the number the reader recorded for this object
            # (self.static_prop_version.version); a writer that stores another number (own mutation r4D) changes the lump version
            'writers_store_only_the_header_version_the_reader_recorded':
                'forallb (fun t => snd t && mem (snd (fst t)) (firstn 1 (own bsp_graph (fst (fst t))))) bsp_version_stores',
            # ... and that number is the header number of the file: the reader looks the version up in a table keyed by `.version`
            'recorded_version_has_the_header_number_of_the_file':
                'match bsp_version_stores with nil => true | _ => bsp_version_table_keyed_by_header_number end',
            'readers_only_read_the_views_they_look_at': 'forallb (fun u => Nat.eqb (snd u) 0) bsp_reader_uses',
            'writers_only_read_or_append_to_the_views_they_look_at': 'forallb (fun u => Nat.leb (snd u) 1) bsp_writer_uses',
        })
    tm['translate+build+obligations'] = round(time.time() - t0, 1)
    t0 = time.time()
    codec = codec_stage(ck, ok_f, ok_g) if built else {}
    lzma_header_obligation(ck)
    tm['codec_premises'] = round(time.time() - t0, 1)
    t0 = time.time()
    # ---------------------------------------------------------------------------- inputs
    own = owners(side)
    READER_DEPS.clear()
    if side:
        READER_DEPS.update({v: d['reader_views'] for v, d in side['views'].items()})
    subjects: list[Subject] = []
    if SAMPLE.exists():
        subjects.append(Subject('rot_main.bsp', SAMPLE, {'file': 'tests/test_vec/rot_main.bsp'}))
        derived = derive_sample(work)
        if derived is not None:
            subjects.append(derived)
    else:
        ck.notes.append('tests/test_vec/rot_main.bsp missing')
    synth_subjects: list[tuple[dict, Subject]] = []

    def guarded_subject(opts: dict, seed: int, tag: str) -> Subject | None:
        """Reading a well-formed synthesised file must neither raise nor hang: either is a failing input of its own."""
        try:
            return with_alarm(TRIAL_LIMIT_S, make_subject, work, opts, seed, tag)
        except TrialTimeout:
            what = f'BSP() does not return within {TRIAL_LIMIT_S} s'
        except Exception as e:      # noqa: BLE001
            what = f'BSP() raises {type(e).__name__}: {e}'
        tagk = ','.join(f'{k}={"+".join(map(str, v)) if isinstance(v, tuple) else v}' for k, v in sorted(opts.items())) or 'default'
        ck.violation(f'read-fails|input:{tagk}', what, {'input': {'opts': opts, 'seed': seed}, 'cycles': [],
                                                        'how': 'harness.c10_util.synth(random.Random(seed), **opts) -> BSP(file)'})
        return None
    for k, opts in enumerate(VARIANTS):
        s = guarded_subject(opts, ck.seed + k, f'v{k}')
        if s is None:
            if k == 1:
                return      # the default file cannot even be read: nothing else can be said
            continue
        synth_subjects.append((opts, s))
        ck.hist('input_layout', dict(DEFAULT_OPTS, **opts)['layout'])
    default = next(s for o, s in synth_subjects if o == dict(layout='v20'))      # layout v20, default options
    bad_subjects: list[tuple[dict, Subject]] = []
    for k, opts in enumerate(BAD_VARIANTS):
        s = guarded_subject(opts, ck.seed + 100 + k, f'b{k}')
        if s is not None:
            bad_subjects.append((opts, s))
        ck.hist('input_malformed', '+'.join(opts['bad']))
    # ---------------------------------------------------------------------------- correspondence
    if built and side:
        corr_files = [default] + [s for o, s in synth_subjects if o in (dict(layout='v19'), dict(layout='chaos'), dict(aux='zero'))] + \
            subjects[:1] + [s for o, s in bad_subjects if o in (BAD_VARIANTS[1], BAD_VARIANTS[3], BAD_VARIANTS[5], dict(bad=('phys_dup',)))]
        correspondence(ck, side, corr_files, work)
        # stage limits: 10 s / 10 s on a loaded machine; a save or read that never returns ends as a failed tie, not as a hung check
        for nm, fn, args in (('correspondence:container', container_check,
                              ([s for o, s in synth_subjects if 'aux' not in o] + [s for _, s in bad_subjects[:2]] + subjects[:1], work)),
                             ('correspondence:container-model', container_model_check, (work,))):
            try:
                with_alarm(1200, fn, ck, *args)
            except TrialTimeout:
                ck.obligation(nm, False, 'stage did not return within 1200 s (a call into BSP() / BSP.save hangs)')
                ck.tie_broken.append(nm + ': stage timed out')
    tm['inputs+correspondence'] = round(time.time() - t0, 1)
    t0 = time.time()
    # ---------------------------------------------------------------------------- search
    found: dict[str, dict] = {}
    rng = ck.rng

    hangs = [0]

    def attempt(subj: Subject, opts: dict | None, cycles: list[list[str]]) -> None:
        if hangs[0] >= 2:       # two histories that do not return are reported; every further one could cost the limit again
            ck.count('save_roundtrips_skipped_after_hangs')
            return
        if opts and opts.get('case_names'):
            # table names that differ only in case are an input only for histories outside the reach of the texinfo writer
            cycles = [[v for v in c if 'texinfo' not in closure(v)] for c in cycles]
        ck.count('save_roundtrips')
        for accs in cycles:
            ck.hist('views_per_cycle', len(accs))
        ck.hist('cycles', len(cycles))
        if any(cycles):
            ck.seen((subj.name, tuple(tuple(c) for c in cycles)))
        try:
            probs = with_alarm(TRIAL_LIMIT_S, run_trial, subj, cycles, work, own)
        except TrialTimeout:
            hangs[0] += 1
            probs = [('hangs', f'no result after {TRIAL_LIMIT_S} s (a look, save or re-read does not return)')]
        except Exception as e:      # noqa: BLE001 - anything the oracle itself did not expect from the implementation
            probs = [('oracle-raises', f'{type(e).__name__}: {e}')]
        for kind, detail in probs:
            report(subj, opts, cycles, kind, detail)

    seen_cause: dict[tuple[str, str], str] = {}

    def report(subj: Subject, opts: dict | None, cycles, kind: str, detail: str) -> None:
        if (kind, subj.name) in seen_cause:
            found[seen_cause[kind, subj.name]]['n'] += 1
            return
        if len(found) >= 10:        # enough distinct shrunk findings: count the rest per kind, unshrunk
            key = kind.split(':')[0] + '|further-cases-not-shrunk'
            found.setdefault(key, {'kind': kind, 'detail': detail, 'input': subj.desc, 'cycles': cycles, 'original_cycles': cycles,
                                   'n': 0, 'how': 'checks.c10.replay'})['n'] += 1
            seen_cause[kind, subj.name] = key
            return
        if kind in ('hangs', 'oracle-raises'):      # not shrunk: every further attempt would cost the time limit again
            if kind == 'hangs':     # ... except for one cheap pass: which single view does not come back within 10 s
                for v in dict.fromkeys(v for c in cycles for v in c):
                    try:
                        with_alarm(10, run_trial, subj, [[v]], work, own)
                    except TrialTimeout:
                        cycles = [[v]]
                        break
                    except Exception:      # noqa: BLE001
                        pass
            viewed = '+'.join(sorted({v for c in cycles for v in c})) or 'nothing'
            key = f'{kind}|viewed={viewed}|' + ('file=' + subj.name if opts is None else 'input:' + (','.join(f'{k}={v}' for k, v in sorted(opts.items())) or 'default'))
            seen_cause[kind, subj.name] = key
            found.setdefault(key, {'kind': kind, 'detail': detail, 'input': subj.desc, 'cycles': cycles, 'original_cycles': cycles,
                                   'n': 0, 'how': 'checks.c10.replay'})['n'] += 1
            return
        memo_t: dict = {}

        def fails_with(sub: Subject, cyc) -> bool:
            k = (sub.name, sub.desc.get('seed'), repr(cyc))
            if k not in memo_t:
                try:
                    memo_t[k] = any(k2 == kind for k2, _ in with_alarm(TRIAL_LIMIT_S, run_trial, sub, cyc, work, own))
                except TrialTimeout:
                    memo_t[k] = False
            return memo_t[k]
        # shrink the history: fewer cycles, fewer views, then views deeper in the dependency graph
        cyc = [list(c) for c in cycles]
        changed = True
        while changed:
            changed = False
            for i in range(len(cyc)):
                cand = cyc[:i] + cyc[i + 1:]
                if cand and fails_with(subj, cand):
                    cyc, changed = cand, True
                    break
            if changed:
                continue
            for i, c in enumerate(cyc):
                for j in range(len(c)):
                    for rep in [[]] + [[d] for d in READER_DEPS.get(c[j], [])]:
                        cand = cyc[:i] + [c[:j] + rep + c[j + 1:]] + cyc[i + 1:]
                        if fails_with(subj, cand):
                            cyc, changed = cand, True
                            break
                    if changed:
                        break
                if changed:
                    break
        viewed = '+'.join(sorted({v for c in cyc for v in c})) or 'nothing'
        if opts is None:
            tag = 'file=' + subj.name
        elif f'{kind}|viewed={viewed}|input:any' in found or fails_with(default, cyc):
            tag = 'input:any'       # also fails on the default synthesised file
        else:
            def fails(o: dict) -> bool:
                return fails_with(make_subject(work, o, subj.desc['seed'], 'shrink'), cyc)
            tag = 'input:' + input_tag(opts, fails)
        key = f'{kind}|viewed={viewed}|{tag}'
        seen_cause[kind, subj.name] = key
        if key not in found:
            found[key] = {'kind': kind, 'detail': detail, 'input': subj.desc, 'cycles': cyc, 'original_cycles': cycles, 'n': 0,
                          'how': 'checks.c10.replay: read the input, getattr each view of each cycle in order, save, re-read, compare'}
        found[key]['n'] += 1

    # corpus: past failures first
    attempt(default, dict(layout='v20'), [['water_leaf_info']])
    for k, (opts, s) in enumerate(synth_subjects):
        attempt(s, opts, [[]])
        if 'case_names' in opts:
            # table names that differ only in letter case: an input for every history that does not reach the texinfo writer
            # (which de-duplicates names by casefold, as the compilers do: texinfo.mat takes another spelling; decided in round 4,
            # narrowed in round 6).  bsp.textures itself, alone and with every view outside texinfo's reach, must keep both spellings
            safe = [v for v in VIEWS if 'texinfo' not in closure(v)]
            for cyc in ([['textures']], [safe], [list(reversed(safe))], [['textures'], ['textures']],
                        [rng.sample(safe, 3) + ['textures']], [['textures'] + rng.sample(safe, 2), ['textures']]):
                attempt(s, opts, cyc)
            ck.hist('case_name_histories_views_outside_texinfo', len(safe))
            continue
        attempt(s, opts, [list(VIEWS)])
        is_layout = set(opts) == {'layout'}
        if is_layout or ck.budget(0, 1):
            attempt(s, opts, [list(reversed(VIEWS))])
        # every single view on every layout (quick: on v19, v20, l4d2, chaos, vitamin; a sample of 8 on v21 and infra, which share
        # their lump layouts' code paths with v20 / chaos); on the option variants a sample of 4 in the quick tier
        if (is_layout and opts['layout'] not in ('v21', 'infra')) or ck.budget(0, 1):
            singles = VIEWS
        elif is_layout:
            singles = rng.sample(VIEWS, 8)
        elif 'sprp' in opts or 'empty' in opts:     # the game-lump views and what their readers reach
            singles = ['props', 'detail_props', 'overlays', 'cubemaps']
        elif 'big' in opts:             # the view of the large compressed lump, the game-lump views beside the large game lump
            singles = ['vertexes', 'props', 'detail_props', 'ents']
        elif 'aux' in opts:     # the views that own side lumps (and faces: FACEIDS), each alone
            singles = [v for v in VIEWS if v == 'faces' or sum(1 for w in own.values() if w == v) > 1]
        else:
            singles = rng.sample(VIEWS, 4)
        for v in singles:
            attempt(s, opts, [[v]])
    # malformed lumps: looks that raise are caught (like a defensive caller does), then the object is saved
    for opts, s in bad_subjects:
        if hangs[0] >= 2:
            continue
        try:
            failing = with_alarm(TRIAL_LIMIT_S * 2, lambda s=s: [v for v in VIEWS if s.unparsable(v)])
        except TrialTimeout:
            hangs[0] += 1
            failing = []
        if not failing:     # reading the views of this input hangs or nothing fails any more: the generic histories below still run
            failing = ['props']
        ck.hist('unparsable_views_per_malformed_input', len(failing))
        attempt(s, opts, [[]])
        attempt(s, opts, [list(VIEWS)])
        attempt(s, opts, [list(reversed(VIEWS))])
        for v in failing:
            attempt(s, opts, [[v]])
        # a failing reader that changes objects of another view: the caller already holds that view / asks for it afterwards / the
        # file saved after the failed look is read again and the changed view is looked at
        # views that can be looked at but whose WRITER looks at a view that cannot: save raises half-way (tolerated), the caller
        # carries on and saves again
        for w in VIEWS:
            if w not in failing and side and set(side['views'].get(w, {}).get('writer_views', ())) & set(failing):
                attempt(s, opts, [[w]])
        for a, b2 in REVIEWED_ELEMENT_MUTATIONS:
            if a in failing and b2 not in failing:
                attempt(s, opts, [[b2, a]])
                attempt(s, opts, [[a, b2], [b2]])
        for i in range(ck.budget(3, 40)):
            cyc = [rng.sample(VIEWS, rng.choice([2, 3, 5, 9])) + [rng.choice(failing)] for _ in range(rng.choice([1, 1, 2]))]
            rng.shuffle(cyc[0])
            attempt(s, opts, cyc)
    for k, (a, b) in enumerate(itertools.permutations(VIEWS, 2)):
        if (a < b and k % 5 == 0) or ck.budget(0, 1):
            attempt(default, dict(layout='v20'), [[a, b]])
    nrand = ck.budget(32, 3000)
    for i in range(nrand):
        opts, s = synth_subjects[rng.randrange(len(synth_subjects))]
        ncyc = rng.choice([1, 1, 1, 2, 3])
        cycles = [rng.sample(VIEWS, rng.choice([0, 1, 2, 3, 5, 9, 14, 21])) for _ in range(ncyc)]
        if rng.random() < 0.2:      # repeated accesses
            cycles[0] = cycles[0] + cycles[0][:2]
        attempt(s, opts, cycles)
    tm['search_synth'] = round(time.time() - t0, 1)
    t0 = time.time()
    for subj in subjects:       # the sample map (large entity lump: fewer trials)
        attempt(subj, None, [[]])
        if subj.desc.get('derive'):     # the views that rebuild the changed table; thorough: every view alone, a few histories
            attempt(subj, None, [['texinfo']])
            if ck.budget(0, 1):
                for v in VIEWS:
                    attempt(subj, None, [[v]])
                for i in range(10):
                    attempt(subj, None, [rng.sample(VIEWS, rng.choice([2, 3, 6, 12])) for _ in range(rng.choice([1, 2]))])
            continue
        for v in (VIEWS if ck.budget(0, 1) else rng.sample(VIEWS, 4)):
            attempt(subj, None, [[v]])
        attempt(subj, None, [list(VIEWS)])
        for i in range(ck.budget(1, 60)):
            attempt(subj, None, [rng.sample(VIEWS, rng.choice([2, 3, 6, 12])) for _ in range(rng.choice([1, 2]))])
    tm['search_sample_map'] = round(time.time() - t0, 1)
    if hangs[0] < 2:
        try:
            ck.sample({'input': default.desc, 'cycles': [['faces', 'ents'], ['bmodels']],
                       'result': with_alarm(TRIAL_LIMIT_S, run_trial, default, [['faces', 'ents'], ['bmodels']], work, own) or 'lossless'})
        except TrialTimeout:
            pass
    # a broken graph obligation that the small search could not turn into a failing history: search harder
    # findings recorded as known (known_findings.json) explain nothing: only NEW concrete histories may account for a broken tie
    from harness.common import load_known
    known_keys = {k['key'] for k in load_known().get('known', []) if k.get('property') == 'C10'}

    def fresh_found() -> dict[str, dict]:
        return {k: f for k, f in found.items() if k not in known_keys}
    broken = [o['name'] for o in ck.obligations if not o['ok'] and not o.get('explained')]
    if broken and not fresh_found() and not ck.thorough:
        ck.tie_broken.append('obligations failed and the quick search found no failing history: ' + ', '.join(broken))
        for i in range(1500):
            opts, s = synth_subjects[rng.randrange(len(synth_subjects))]
            attempt(s, opts, [rng.sample(VIEWS, rng.choice([1, 2, 3, 5, 9, 14, 21])) for _ in range(rng.choice([1, 1, 2, 3]))])
            if fresh_found():
                break
    if any(f['kind'].split(':')[0] in ('reread-fails', 'raw-changed', 'view-content-changed', 'lump-compressed-flag', 'game-lump-directory')
           and (f['input'].get('opts', {}).get('compress') or f['input'].get('opts', {}).get('compress_game')) for f in fresh_found().values()):
        # a saved file whose compressed lumps cannot be read back / read back different is what a header that does not name the
        # compressor's parameters looks like
        ck.explain('lzma_header_names_the_parameters_handed_to_the_compressor')
    if inst.get('shape_ok_bsp_shape') is False and any(f['kind'].split(':')[0] in ('failed-look-changed-lump', 'raw-changed-unparsable',
                                                                                 'cache-not-empty-after-save') for f in fresh_found().values()):
        # outside the shapes the model was validated for (its abstraction of "the reader raises" is not data-exact there):
        # the concrete findings above are the explanation
        ck.explain('correspondence:get-save-model')
    if any(inst.get(nm) is False for nm in ('order_consistent_bsp_graph', 'every_cleared_lump_stored_by_its_writer',
                                            'cleared_lumps_are_never_stored_conditionally')) \
            and any(f['kind'].split(':')[0] in ('view-content-changed', 'raw-changed', 'cache-not-empty-after-save')
                    for f in fresh_found().values()):
        # the model stores every lump of v_wstore when a writer runs; a writer that skips the store of a cleared lump (or a graph
        # that is not order-consistent) is outside it, the traced runs disagree about the lumps left empty after save, and the
        # concrete histories above show the loss
        ck.explain('correspondence:get-save-model')
    for key, f in found.items():
        ck.violation(key, f'{f["kind"]}: {f["detail"]}', {k: v for k, v in f.items() if k != 'n'})
    ck.extra['violation_keys'] = sorted(found)
    # a failed graph obligation is explained by a concrete failing history of the matching kind
    kinds = {f['kind'].split(':')[0] for f in fresh_found().values()}
    if kinds & {'view-content-changed', 'cache-not-empty-after-save', 'raw-changed', 'save-raises', 'look-raises',
                'failed-look-changed-lump', 'raw-changed-unparsable'}:
        for nm in ('shape_ok_bsp_shape', 'get_clears_raw_data_only_after_the_reader_has_finished', 'get_caches_every_parsed_value',
                   'get_caches_and_clears_nothing_when_the_reader_raises',
                   'readers_never_store_lump_data',
                   'save_pops_views_during_the_walk_of_the_rebuild_order', 'writers_look_only_at_views_their_readers_look_at',
                   'readers_only_read_the_views_they_look_at', 'writers_only_read_or_append_to_the_views_they_look_at',
                   'order_consistent_bsp_graph', 'every_dependency_later_in_rebuild_order', 'no_writer_looks_at_its_own_view',
                   'no_reader_looks_at_its_own_view', 'every_cleared_lump_stored_by_its_writer', 'no_lump_owned_twice',
                   'every_view_in_rebuild_order', 'no_two_views_share_a_main_lump', 'raw_reads_own_or_unowned',
                   'stores_go_to_owned_lumps', 'conditional_stores_only_FACEIDS_unowned', 'stores_outside_the_view_go_to_unowned_lumps',
                   'readers_change_objects_of_other_views_only_where_reviewed', 'writers_change_no_objects_of_other_views',
                   'restored_mutations_are_looked_at_by_reader_and_writer_and_unique',
                   'restored_mutations_happen_after_everything_that_can_raise',
                   'cleared_lumps_are_never_stored_conditionally'):
            if inst.get(nm) is False:
                ck.explain('instance:' + nm)
    if 'game-lump-directory' in kinds:
        for nm in ('writers_store_only_the_header_version_the_reader_recorded', 'recorded_version_has_the_header_number_of_the_file'):
            if inst.get(nm) is False:
                ck.explain('instance:' + nm)
    if 'lost-after-aborted-save' in kinds and inst.get('aborted_save_puts_the_popped_view_back') is False:
        ck.explain('instance:aborted_save_puts_the_popped_view_back')
    # a false codec premise is explained by a concrete look + save history that changes content, raises or is unstable
    if kinds & {'hangs', 'oracle-raises'}:
        ck.explain('correspondence:')
    if kinds & {'view-content-changed', 'save-raises', 'look-raises', 'reread-fails', 'second-save-differs', 'raw-changed', 'hangs',
                'lost-after-aborted-save', 'game-lump-directory'}:
        for nm, ok in codec.items():
            if not ok:
                ck.explain('instance:' + nm)
        # C11's translators failing closed on a changed codec: the per-view premises could not be re-derived
        ck.explain('translate:BspGlue_gen')
        ck.explain('translate:BspFormats_gen')


def replay(data: dict) -> int:
    import tempfile
    r = data['replay']
    with tempfile.TemporaryDirectory(dir='/var/tmp') as td:
        work = Path(td)
        if r.get('input', {}).get('derive') == 'names':
            subj = derive_sample(work)
        elif 'file' in r.get('input', {}):
            subj = Subject('rot_main.bsp', REPO / r['input']['file'], r['input'])
        elif 'opts' in r.get('input', {}):
            opts = {k: tuple(v) if isinstance(v, list) else v for k, v in r['input']['opts'].items()}
            try:
                subj = with_alarm(TRIAL_LIMIT_S, make_subject, work, opts, r['input']['seed'], 'replay')
            except (Exception, TrialTimeout) as e:      # noqa: BLE001
                print('input:', opts)
                print('PROBLEM', ('read-fails', f'BSP() of the synthesised file: {type(e).__name__}: {e}'))
                return 0
        else:
            print(r)
            return 0
        try:
            probs = with_alarm(TRIAL_LIMIT_S, run_trial, subj, r['cycles'], work, owners(None))
        except TrialTimeout:
            probs = [('hangs', f'no result after {TRIAL_LIMIT_S} s')]
        print('input:', subj.desc)
        print('cycles:', r['cycles'])
        for p in probs:
            print('PROBLEM', p)
        if not probs:
            print('lossless')
    return 0
